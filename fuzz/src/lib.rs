//! libFuzzer side of C03: the semantic oracle of the proptest check, inside the fuzz target.

#[path = "../../harness/comp/src/bin/c03.rs"]
#[allow(dead_code)]
pub mod c03;

use std::sync::Once;

use vcore::{Fail, guarded};

fn violation(target: &str, f: &Fail) -> ! {
    eprintln!("VIOLATION property=C03 target={target} signature={} :: {}", f.signature, vcore::truncate(&f.msg, 600));
    std::process::abort();
}

/// qtraversal's real sniffing (`packet::be_header`) against the model used by the check, and
/// the two `split_off` calls of its receive loop (they panic when the offset exceeds the datagram).
fn sniff_check(data: &[u8]) -> Result<(), Fail> {
    use qtraversal::packet::{ForwardHeader, Header, StunHeader, be_header};
    let (route, n) = c03::sniff(data);
    let real = guarded(|| Ok(be_header(data)))?;
    let (real_route, real_n) = match real {
        Err(_) => (0u8, 0usize),
        Ok((_, Header::Stun(_))) => (1, StunHeader::encoding_size()),
        Ok((_, Header::Forward(h))) => (2, guarded(|| Ok(ForwardHeader::encoding_size(&h.pathway())))?),
    };
    if real_n > data.len() {
        return Err(Fail::new(
            "route-split-off-beyond-datagram",
            format!("route {real_route}: split_off({real_n}) on a datagram of {} bytes", data.len()),
        ));
    }
    if (route, n) != (real_route, real_n) {
        return Err(Fail::new(
            "sniff-model-differs",
            format!("be_header routes {real_route}/{real_n}, model {route}/{n}"),
        ));
    }
    Ok(())
}

/// `target`: 0 datagram, 1 payload, 2 transport parameters
pub fn run(target: u8, data: &[u8]) {
    static INIT: Once = Once::new();
    // libfuzzer-sys installs a hook that aborts on any panic; the oracle needs to classify
    // panics (known findings are passed over), so it gets the harness hook instead
    INIT.call_once(vcore::install_panic_hook);
    let name = ["datagram", "payload", "params"][target as usize];
    if target == 0 {
        if let Err(f) = sniff_check(data) {
            violation(name, &f);
        }
    }
    if let Err(f) = c03::fuzz_one(target, data) {
        violation(name, &f);
    }
}
