#![no_main]
use libfuzzer_sys::fuzz_target;

fuzz_target!(|data: &[u8]| {
    c03_fuzz::run(0, data);
});
