//! Shared models and harness pieces for the component-level checks.
