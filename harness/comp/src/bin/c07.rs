//! C07 — packet numbers are never reused and always decode to the number sent.
//!
//! (a) histories over `qrecovery::journal::ArcSentJournal` (started / completed / abandoned packet
//!     assemblies, acks, loss reports, rotation with virtual time) joined to a real
//!     `ArcRcvdJournal` acting as the peer's receiver; plus real-thread interleavings of several
//!     writers on one journal.
//! (b) `PacketNumber::{encode,decode}` through the wire form (`put_packet_number` /
//!     `take_pn_len`), differential against an RFC 9000 A.3 reference decoder, random triples,
//!     an exhaustive sub-grid and the receiver-side `ArcRcvdJournal::decode_pn`.
//!
//! `qconnection::tx::PacketWriter` is not a dependency of this crate; the assemblies below follow
//! exactly the call sequences that `PacketWriter` / `TrivialPacketWriter` + `PacketsAssembler::assemble`
//! perform on a `NewPacketGuard` (see the rule text).

use std::{collections::BTreeSet, time::Duration};

use proptest::prelude::*;
use qbase::{
    frame::AckFrame,
    packet::number::{PacketNumber, WritePacketNumber, take_pn_len},
    varint::VarInt,
};
use qrecovery::journal::{ArcRcvdJournal, ArcSentJournal};
use serde::{Deserialize, Serialize};
use serde_json::json;
use vcore::{CaseCtx, Check, Fail, Outcome, ensure, ensure_eq, fail, gens};

const PN_LIMIT: u64 = 1 << 62;
/// largest distance pn - largest_acked the encoder accepts (RFC: 4 bytes cover 2^31)
const D_MAX: u64 = (1 << 31) - 1;

// ---------------------------------------------------------------------------
// wire form + RFC 9000 A.3 reference
// ---------------------------------------------------------------------------

/// Write the encoded packet number the way `PacketWriter::new_{long,short}` does.
fn to_wire(enc: PacketNumber) -> ([u8; 4], usize) {
    let mut buf = [0u8; 4];
    let mut s = &mut buf[..];
    s.put_packet_number(enc);
    let n = 4 - s.len();
    (buf, n)
}

/// Parse it the way the receiver does after header protection is removed.
fn from_wire(w: &[u8]) -> PacketNumber {
    take_pn_len(w.len() as u8)(w).expect("1..=4 bytes always parse").1
}

fn fields(p: PacketNumber) -> (u64, u32) {
    match p {
        PacketNumber::U8(x) => (x as u64, 8),
        PacketNumber::U16(x) => (x as u64, 16),
        PacketNumber::U24(x) => (x as u64, 24),
        PacketNumber::U32(x) => (x as u64, 32),
    }
}

/// RFC 9000 Appendix A.3 `DecodePacketNumber(largest_pn, truncated_pn, pn_nbits)` with
/// `expected = largest_pn + 1`, computed in i128 so that nothing wraps.
fn rfc_a3(expected: u64, truncated: u64, bits: u32) -> u64 {
    let expected = expected as i128;
    let win = 1i128 << bits;
    let hwin = win / 2;
    let mask = win - 1;
    let candidate = (expected & !mask) | truncated as i128;
    if candidate <= expected - hwin && candidate < (1i128 << 62) - win {
        return (candidate + win) as u64;
    }
    if candidate > expected + hwin && candidate >= win {
        return (candidate - win) as u64;
    }
    candidate as u64
}

/// The reference itself is validated against the prose of RFC 9000 §17.1 / A.3: the result is
/// congruent to the truncated value and is the unique such value in
/// (expected - hwin, expected + hwin] unless that value would be negative or >= 2^62.
fn check_reference(expected: u64, truncated: u64, bits: u32, r: u64) -> Outcome {
    let (e, r, win) = (expected as i128, r as i128, 1i128 << bits);
    let hwin = win / 2;
    ensure!(r & (win - 1) == truncated as i128, "harness-ref", "reference result not congruent");
    ensure!(r >= 0 && r < (1i128 << 62) + win, "harness-ref", "reference result out of range");
    if r <= e - hwin {
        ensure!(r + win >= (1i128 << 62), "harness-ref", "reference below window without clamp: e={e} r={r}");
    } else if r > e + hwin {
        ensure!(r < win, "harness-ref", "reference above window without clamp: e={e} r={r}");
    }
    Ok(())
}

/// code's decode vs reference on one (truncated, width, expected); `ctx_msg` for the report.
fn differential(p: PacketNumber, expected: u64, what: &str) -> Result<u64, Fail> {
    let (truncated, bits) = fields(p);
    let got = p.decode(expected);
    let want = rfc_a3(expected, truncated, bits);
    check_reference(expected, truncated, bits, want)?;
    if got != want {
        if got >= PN_LIMIT && want < PN_LIMIT {
            // RFC A.3: "and candidate_pn < (1 << 62) - pn_win" is missing in the code
            return Err(Fail::new(
                "a3-diff-result-ge-2^62",
                format!("{what}: {p:?}.decode({expected}) = {got} (>= 2^62), RFC 9000 A.3 gives {want}"),
            ));
        }
        return Err(Fail::new(
            "a3-diff",
            format!("{what}: {p:?}.decode({expected}) = {got}, RFC 9000 A.3 gives {want}"),
        ));
    }
    Ok(got)
}

// ---------------------------------------------------------------------------
// (b) triples
// ---------------------------------------------------------------------------

/// `la == 0 && expected == 0` is the "nothing acknowledged yet, receiver has nothing" position;
/// otherwise la < expected <= pn.
#[derive(Debug, Clone, Serialize, Deserialize, PartialEq)]
struct Triple {
    pn: u64,
    la: u64,
    expected: u64,
}

const WIDTH_BOUNDS: [u64; 3] = [1 << 15, 1 << 23, 1 << 31];

fn near_width_boundary(d: u64) -> bool {
    WIDTH_BOUNDS.iter().any(|b| d.abs_diff(*b) <= 2)
}

fn triple_in_domain(t: &Triple) -> bool {
    t.pn < PN_LIMIT
        && t.la < t.pn
        && t.pn - t.la <= D_MAX
        && ((t.la < t.expected && t.expected <= t.pn) || (t.la == 0 && t.expected == 0))
}

fn run_triple(t: &Triple, ctx: &mut CaseCtx) -> Outcome {
    ensure!(triple_in_domain(t), "harness", "triple outside the domain: {t:?}");
    let d = t.pn - t.la;
    let enc = PacketNumber::encode(t.pn, t.la);
    let (buf, n) = to_wire(enc);
    ensure!(n >= 1 && n <= 4, "encoded-size", "{n} bytes on the wire for {enc:?}");
    ensure_eq!(enc.size(), n, "encoded-size", "size() vs bytes written for {enc:?}");
    let p = from_wire(&buf[..n]);
    // every receiver position of the statement that this case names, plus the two ends
    let lo = if t.expected == 0 { 0 } else { t.la + 1 };
    for (what, e) in [("expected", t.expected), ("expected=la+1", lo), ("expected=pn", t.pn)] {
        let got = p.decode(e);
        ensure_eq!(
            got,
            t.pn,
            "decode-roundtrip",
            "encode({}, {}) = {enc:?} -> wire {:02x?} -> decode({e}) [{what}]",
            t.pn,
            t.la,
            &buf[..n]
        );
        differential(p, e, what)?;
    }
    ctx.class(format!("wire-bytes-{n}"));
    if enc.decode(t.expected) != t.pn {
        // observation only: PacketNumber::U24 built by encode() keeps 32 bits; real receivers
        // never see that value because the wire form is truncated to 24 bits
        ctx.class("obs:in-memory-U24-decode-differs");
    }
    if t.expected == 0 {
        ctx.class("none-acked");
    }
    if t.pn >= PN_LIMIT - (1 << 32) {
        ctx.class("pn-near-2^62");
    }
    if near_width_boundary(d) {
        ctx.class("d-near-width-boundary");
        ctx.nontrivial();
    }
    Ok(())
}

/// pn - la, biased to the width boundaries (code: 2^15/2^23/2^31, RFC A.2: 2^7/2^15/2^23/2^31)
fn dist_strategy() -> BoxedStrategy<u64> {
    let bounds: Vec<u64> = vec![1 << 7, 1 << 8, 1 << 15, 1 << 16, 1 << 23, 1 << 24, 1 << 31];
    prop_oneof![
        5 => (proptest::sample::select(bounds), 0u64..=6).prop_map(|(b, k)| (b + 3).saturating_sub(k)),
        2 => 1u64..=64,
        2 => 1u64..=(1 << 17),
        2 => 1u64..=D_MAX,
        1 => (0u32..31).prop_map(|s| 1u64 << s),
    ]
    .boxed()
}

fn pn_strategy() -> BoxedStrategy<u64> {
    prop_oneof![
        3 => gens::varint(),
        2 => 0u64..(1 << 33),
        2 => (0u64..(1 << 33)).prop_map(|x| PN_LIMIT - 1 - x),
        1 => (8u32..62, 0u64..=8).prop_map(|(s, k)| ((1u64 << s) + 4).saturating_sub(k)),
    ]
    .boxed()
}

fn triple_strategy() -> BoxedStrategy<Triple> {
    (pn_strategy(), dist_strategy(), 0u8..12, any::<u32>(), 0u64..=4)
        .prop_map(|(pn, d, kind, x, k)| {
            let pn = pn.clamp(1, PN_LIMIT - 1);
            let d = d.clamp(1, pn.min(D_MAX));
            let la = pn - d;
            // e = pn - expected in [0, d-1]
            let hw = [1u64 << 7, 1 << 15, 1 << 23];
            let e = match kind {
                0 => k,
                1 | 2 => (d - 1).saturating_sub(k),
                3 => d / 2 + k,
                4 => (hw[(x % 3) as usize] + 2).saturating_sub(k),
                5 if la == 0 => d, // nothing acked, receiver has nothing
                _ => ((x as u128 * d as u128) >> 32) as u64,
            };
            let e = if la == 0 && e >= d { d } else { e.min(d - 1) };
            Triple { pn, la, expected: pn - e }
        })
        .boxed()
}

// ---------------------------------------------------------------------------
// (b) differential on all (truncated, width, expected)
// ---------------------------------------------------------------------------

#[derive(Debug, Clone, Serialize, Deserialize, PartialEq)]
struct Raw {
    /// bytes after header protection removal (1..=4)
    wire: Vec<u8>,
    /// next expected packet number at the receiver = largest received + 1 (0..=2^62)
    expected: u64,
}

fn run_raw(c: &Raw, ctx: &mut CaseCtx) -> Outcome {
    ensure!((1..=4).contains(&c.wire.len()) && c.expected <= PN_LIMIT, "harness", "bad raw case");
    let p = from_wire(&c.wire);
    let (truncated, bits) = fields(p);
    let win = 1u64 << bits;
    let got = differential(p, c.expected, "raw")?;
    ctx.class(format!("width-{}", bits / 8));
    let cand = (c.expected & !(win - 1)) | truncated;
    if got > cand {
        ctx.class("adjusted-up");
    } else if got < cand {
        ctx.class("adjusted-down");
    }
    let (e, g, h) = (c.expected as i128, got as i128, (win / 2) as i128);
    // distance to the edge of the window (expected-hwin, expected+hwin]
    let edge = (g - (e - h)).min((e + h) - g);
    if (0..=2).contains(&edge) {
        ctx.class("window-edge");
        ctx.nontrivial();
    }
    if c.expected < win {
        ctx.class("expected<win");
    }
    if c.expected > PN_LIMIT - win {
        ctx.class("expected>2^62-win");
    }
    Ok(())
}

fn raw_strategy() -> BoxedStrategy<Raw> {
    let expected = prop_oneof![
        3 => 0u64..(1 << 34),
        3 => (0u64..(1 << 34)).prop_map(|x| PN_LIMIT - x),
        2 => 0u64..=PN_LIMIT,
        2 => (0u64..(1 << 30), 0u32..4, 0u64..=6).prop_map(|(m, w, k)| {
            // multiples of the window +- 3
            ((m << (8 * (w + 1))) + 3).saturating_sub(k).min(PN_LIMIT)
        }),
    ];
    (expected, 1usize..=4, 0u8..8, any::<u32>(), 0u64..=6)
        .prop_map(|(expected, n, kind, x, k)| {
            let bits = 8 * n as u32;
            let win = 1u128 << bits;
            let hwin = win / 2;
            let e = expected as u128 + (win << 8); // keep positive
            let v: u128 = match kind {
                0 => e + hwin + 3 - k as u128,
                1 => e - hwin + 3 - k as u128,
                2 => e + 3 - k as u128,
                3 => k as u128,
                4 => win - 1 - k as u128,
                _ => x as u128,
            };
            let t = (v & (win - 1)) as u32;
            let wire = t.to_be_bytes()[4 - n..].to_vec();
            Raw { wire, expected }
        })
        .boxed()
}

// ---------------------------------------------------------------------------
// (b) receiver-side reconstruction through ArcRcvdJournal::decode_pn
// ---------------------------------------------------------------------------

#[derive(Debug, Clone, Serialize, Deserialize, PartialEq)]
struct RcvdCase {
    /// packets received before (largest one defines `expected`)
    received: Vec<u32>,
    triple: Triple,
}

fn run_rcvd(c: &RcvdCase, ctx: &mut CaseCtx) -> Outcome {
    let t = &c.triple;
    ensure!(triple_in_domain(t), "harness", "triple outside the domain: {t:?}");
    let largest = c.received.iter().copied().max();
    ensure_eq!(
        largest.map_or(0, |l| l as u64 + 1),
        t.expected,
        "harness",
        "expected must be largest received + 1"
    );
    let rcvd = ArcRcvdJournal::with_capacity(8, None);
    let pto = Duration::from_millis(100);
    for pn in &c.received {
        rcvd.on_rcvd_pn(*pn as u64, true, pto);
    }
    let enc = PacketNumber::encode(t.pn, t.la);
    let (buf, n) = to_wire(enc);
    let p = from_wire(&buf[..n]);
    let got = rcvd.decode_pn(p);
    ensure_eq!(
        got,
        Ok(t.pn),
        "rcvd-decode",
        "receiver with {:?} received, decode_pn(wire {:02x?}) for pn {} encoded against la {}",
        c.received,
        &buf[..n],
        t.pn,
        t.la
    );
    // every packet already received must be refused as a duplicate, whatever width it arrives in
    for r in &c.received {
        let r = *r as u64;
        for w in 1..=4usize {
            let wire = (r as u32).to_be_bytes()[4 - w..].to_vec();
            let q = from_wire(&wire);
            let (tr, bits) = fields(q);
            if rfc_a3(t.expected, tr, bits) == r {
                let again = rcvd.decode_pn(q);
                ensure!(
                    again.is_err(),
                    "rcvd-duplicate-accepted",
                    "packet {r} was received, arrives again as {q:?}: {again:?}"
                );
            }
        }
    }
    if t.pn < 5_000 {
        rcvd.on_rcvd_pn(t.pn, false, pto);
        let again = rcvd.decode_pn(p);
        ensure!(
            again.is_err(),
            "rcvd-duplicate-accepted",
            "packet {} registered, same wire bytes again: {again:?}",
            t.pn
        );
        ctx.class("registered+dup");
    }
    ctx.class(format!("wire-bytes-{n}"));
    if c.received.len() >= 2 {
        ctx.class("gaps-in-received");
    }
    if near_width_boundary(t.pn - t.la) {
        ctx.class("d-near-width-boundary");
        ctx.nontrivial();
    }
    Ok(())
}

fn rcvd_strategy() -> BoxedStrategy<RcvdCase> {
    let expected = prop_oneof![6 => 0u32..=8, 6 => 0u32..=300, 1 => 0u32..=40_000];
    (expected, any::<u16>(), dist_strategy(), proptest::collection::vec(any::<u16>(), 0..4))
        .prop_map(|(e, back, d, others)| {
            let e = e as u64;
            // la in [0, e-1] (or the nothing-acked position when e == 0)
            let la = if e == 0 { 0 } else { e - 1 - gens::upto(back, e - 1) };
            // pn >= max(e, la+1), pn - la <= D_MAX
            let d = d.clamp((e - la).max(1), D_MAX);
            let pn = la + d;
            let mut received = vec![];
            if e > 0 {
                received.push((e - 1) as u32);
                for o in others {
                    // the receiver has everything the sender knows to be acked (la), maybe more
                    received.push(gens::upto(o, e - 1) as u32);
                }
                if la > 0 || back % 2 == 0 {
                    received.push(la as u32);
                }
            }
            received.sort();
            received.dedup();
            RcvdCase { received, triple: Triple { pn, la, expected: e } }
        })
        .boxed()
}

// ---------------------------------------------------------------------------
// (b) exhaustive sub-grid: one case = one (la, d) row, all receiver positions
// ---------------------------------------------------------------------------

#[derive(Debug, Clone, Serialize, Deserialize, PartialEq)]
struct Row {
    la: u64,
    d: u64,
}

fn run_row(r: &Row) -> Outcome {
    let pn = r.la + r.d;
    ensure!(pn < PN_LIMIT && r.d >= 1 && r.d <= D_MAX, "harness", "row outside domain");
    let enc = PacketNumber::encode(pn, r.la);
    let (buf, n) = to_wire(enc);
    ensure_eq!(enc.size(), n, "encoded-size", "size() vs bytes written for {enc:?}");
    let p = from_wire(&buf[..n]);
    let first = if r.la == 0 { 0 } else { r.la + 1 };
    for expected in first..=pn {
        let got = p.decode(expected);
        ensure_eq!(
            got,
            pn,
            "decode-roundtrip",
            "encode({pn}, {}) = {enc:?} -> wire {:02x?} -> decode({expected})",
            r.la,
            &buf[..n]
        );
        differential(p, expected, "grid")?;
    }
    Ok(())
}

fn grid_rows(dmax: u64) -> Vec<Row> {
    let mut rows = vec![];
    for la in [0u64, 1 << 16, 1 << 32, PN_LIMIT - (1 << 20)] {
        for d in 1..=dmax {
            rows.push(Row { la, d });
        }
    }
    rows
}

/// Boundary neighbourhoods that the grid cannot reach (d near 2^23, 2^31 …): every d within 3 of a
/// boundary, receiver positions at both ends, the middle and around every half-window.
fn edge_triples() -> Vec<Triple> {
    let mut out = vec![];
    let bounds = [1u64 << 7, 1 << 8, 1 << 15, 1 << 16, 1 << 23, 1 << 24, 1 << 31];
    for b in bounds {
        for d in (b - 3)..=(b + 3) {
            if d > D_MAX {
                continue;
            }
            for la in [0u64, 1, (1 << 32) + 5, (1 << 40) - 1, PN_LIMIT - 1 - d] {
                let pn = la + d;
                let mut es: BTreeSet<u64> = BTreeSet::new();
                for k in 0..4 {
                    es.insert(k);
                    es.insert((d - 1).saturating_sub(k));
                }
                for m in [d / 2, 1 << 7, 1 << 15, 1 << 23, 1 << 30] {
                    for k in 0..=4u64 {
                        es.insert((m + 2).saturating_sub(k));
                    }
                }
                for e in es {
                    if e < d {
                        out.push(Triple { pn, la, expected: pn - e });
                    }
                }
                if la == 0 {
                    out.push(Triple { pn, la, expected: 0 });
                }
            }
        }
    }
    out
}

// ---------------------------------------------------------------------------
// (a) histories over ArcSentJournal + a receiver
// ---------------------------------------------------------------------------

#[derive(Debug, Clone, Serialize, Deserialize, PartialEq)]
enum Op {
    /// One packet assembly; it holds the journal's mutex from `new_packet()` to build / drop, so
    /// assemblies of different writers (paths) interleave only as whole units.
    /// `recs`: frames written, true = a frame that is recorded for retransmission
    /// (`record_frame`), false = one that is not (`record_trivial`). Empty = nothing could be
    /// loaded: `assemble` returns `Err` and the guard is dropped (abandoned).
    /// `trivial_writer`: the assembly goes through `TrivialPacketWriter` (closing packets): every
    /// frame is `record_trivial`, finished with `build_trivial`.
    Assemble { writer: u8, trivial_writer: bool, recs: Vec<bool>, retran_ms: u16 },
    /// `n` one-frame packets in a row (long histories only)
    Burst { n: u32 },
    /// a packet (chosen among all emitted ones, duplicates allowed) reaches the receiver
    Deliver { which: u16 },
    /// the receiver produces an ACK for everything it has (at most `max_ranges` newest ranges);
    /// then the sender processes one of the ACKs produced so far (stale = 0: the newest)
    Ack { max_ranges: u8, stale: u16 },
    /// the sender's loss detection reports an emitted packet
    Loss { which: u16 },
    FastRetransmit,
    /// virtual time passes
    Tick { ms: u16 },
}

#[derive(Debug, Clone, Serialize, Deserialize)]
struct History {
    ops: Vec<Op>,
}

struct SentPkt {
    pn: u64,
    wire: [u8; 4],
    n: usize,
    /// largest packet number the sender knew to be acknowledged when this packet was built
    la_true: Option<u64>,
}

struct World {
    sent: ArcSentJournal<u32>,
    rcvd: ArcRcvdJournal,
    emitted: Vec<SentPkt>,
    la_true: Option<u64>,
    received: BTreeSet<u64>,
    /// ACK frames generated so far, as descending inclusive ranges
    acks: Vec<Vec<(u64, u64)>>,
    next_frame: u32,
    // classification
    abandons: u32,
    acks_processed: u32,
    seen_abandon_since_emit: bool,
    seen_ack_since_emit: bool,
    nontrivial: bool,
    widths: BTreeSet<usize>,
    writers_switch: u32,
    last_writer: Option<u8>,
}

impl World {
    fn new() -> Self {
        Self {
            sent: ArcSentJournal::with_capacity(16),
            rcvd: ArcRcvdJournal::with_capacity(16, None),
            emitted: vec![],
            la_true: None,
            received: BTreeSet::new(),
            acks: vec![],
            next_frame: 0,
            abandons: 0,
            acks_processed: 0,
            seen_abandon_since_emit: false,
            seen_ack_since_emit: false,
            nontrivial: false,
            widths: BTreeSet::new(),
            writers_switch: 0,
            last_writer: None,
        }
    }

    /// One assembly, as `PacketsAssembler::assemble` / `assemble_closing_packet` drive it.
    fn assemble(&mut self, step: usize, writer: u8, trivial_writer: bool, recs: &[bool], retran: Duration) -> Outcome {
        let mut guard = self.sent.new_packet();
        let (pn, enc) = guard.pn();
        if let Some(last) = self.emitted.last() {
            ensure!(
                pn > last.pn,
                "pn-reused",
                "step {step}: new assembly gets pn {pn} but pn {} was already emitted ({} packets emitted, {} abandoned)",
                last.pn,
                self.emitted.len(),
                self.abandons
            );
        }
        ensure!(pn < PN_LIMIT, "pn-range", "step {step}: pn {pn} >= 2^62");
        for is_frame in recs {
            if *is_frame && !trivial_writer {
                guard.record_frame(self.next_frame);
                self.next_frame += 1;
            } else {
                guard.record_trivial();
            }
        }
        let (pn2, enc2) = guard.pn();
        ensure!(
            pn2 == pn && enc2 == enc,
            "pn-changed-during-assembly",
            "step {step}: pn() gave ({pn},{enc:?}) then ({pn2},{enc2:?}) on the same guard"
        );
        if recs.is_empty() {
            // nothing was loaded: `packet.assemble_packet(..)?` returns Err, the writer is dropped
            drop(guard);
            self.abandons += 1;
            self.seen_abandon_since_emit = true;
            return Ok(());
        }
        // the packet goes to encrypt_and_protect_packet: it is emitted with this pn as nonce
        if trivial_writer {
            guard.build_trivial();
        } else {
            guard.build_with_time(retran, retran * 3);
        }
        self.on_emitted(step, pn, enc, writer)
    }

    fn on_emitted(&mut self, step: usize, pn: u64, enc: PacketNumber, writer: u8) -> Outcome {
        let (wire, n) = to_wire(enc);
        ensure!(n >= 1 && n <= 4 && n == enc.size(), "encoded-size", "step {step}: {enc:?} -> {n} bytes");
        // every receiver position the statement allows must reconstruct pn
        let p = from_wire(&wire[..n]);
        let lo = self.la_true.map_or(0, |l| l + 1);
        ensure!(lo <= pn, "harness", "model: la_true {:?} >= pn {pn}", self.la_true);
        for e in [lo, lo + 1, lo + (pn - lo) / 2, pn.saturating_sub(1), pn] {
            if e < lo || e > pn {
                continue;
            }
            let got = p.decode(e);
            ensure_eq!(
                got,
                pn,
                "journal-encoding-undecodable",
                "step {step}: pn {pn} written as {:02x?} while the sender knows {:?} as largest acked; receiver expecting {e}",
                &wire[..n],
                self.la_true
            );
            differential(p, e, "journal")?;
        }
        self.widths.insert(n);
        if !self.emitted.is_empty() && self.seen_abandon_since_emit && self.seen_ack_since_emit {
            self.nontrivial = true;
        }
        if self.last_writer.is_some_and(|w| w != writer) {
            self.writers_switch += 1;
        }
        self.last_writer = Some(writer);
        self.emitted.push(SentPkt { pn, wire, n, la_true: self.la_true });
        Ok(())
    }

    fn deliver(&mut self, step: usize, which: u16, ctx: &mut CaseCtx) -> Outcome {
        if self.emitted.is_empty() {
            return Ok(());
        }
        let s = &self.emitted[gens::idx(which, self.emitted.len())];
        let p = from_wire(&s.wire[..s.n]);
        let (tr, bits) = fields(p);
        let expected = self.received.last().map_or(0, |m| m + 1);
        let reference = rfc_a3(expected, tr, bits);
        let got = self.rcvd.decode_pn(p);
        // a number that was received before must be refused (as duplicate or too old), any other
        // must come out as RFC 9000 A.3 reconstructs it (nothing is rotated out of the receiver
        // here, so nothing is legitimately "too old")
        if self.received.contains(&reference) {
            ensure!(
                got.is_err(),
                "rcvd-duplicate-accepted",
                "step {step}: pn {reference} was received before and is accepted again: {got:?}"
            );
        } else {
            ensure_eq!(
                got,
                Ok(reference),
                "rcvd-decode",
                "step {step}: receiver (largest received {:?}) gets wire {:02x?} of pn {}",
                self.received.last(),
                &s.wire[..s.n],
                s.pn
            );
        }
        // the receiver has everything the sender knew to be acked when it built the packet
        let in_statement = expected <= s.pn && s.la_true.is_none_or(|l| expected > l);
        if in_statement {
            ensure_eq!(
                reference,
                s.pn,
                "journal-encoding-undecodable",
                "step {step}: pn {} sent as {:02x?} (sender's largest acked then {:?}) reconstructs wrongly at a receiver expecting {expected}",
                s.pn,
                &s.wire[..s.n],
                s.la_true
            );
        } else if expected > s.pn {
            ctx.class("deliver-reordered");
        }
        match got {
            Ok(pn) if pn == s.pn => {
                self.rcvd.on_rcvd_pn(pn, true, Duration::from_millis(100));
                self.received.insert(pn);
            }
            Ok(_) => ctx.class("deliver-outside-window"), // would fail authentication, dropped
            Err(_) => ctx.class("deliver-duplicate"),
        }
        Ok(())
    }

    fn ack(&mut self, step: usize, max_ranges: u8, stale: u16, ctx: &mut CaseCtx) -> Outcome {
        // receiver side: snapshot of what it has
        if !self.received.is_empty() {
            let mut ranges: Vec<(u64, u64)> = vec![];
            for pn in self.received.iter().rev() {
                match ranges.last_mut() {
                    Some((lo, _)) if *lo == pn + 1 => *lo = *pn,
                    _ => ranges.push((*pn, *pn)),
                }
            }
            ranges.truncate(max_ranges.max(1) as usize);
            self.acks.push(ranges);
        }
        if self.acks.is_empty() {
            return Ok(());
        }
        let k = self.acks.len() - 1 - gens::idx(stale, self.acks.len());
        if k + 1 < self.acks.len() {
            ctx.class("stale-ack");
        }
        let ranges = &self.acks[k];
        let vi = |x: u64| VarInt::from_u64(x).unwrap();
        let (lo0, hi0) = ranges[0];
        let mut rest = vec![];
        let mut prev_lo = lo0;
        for (lo, hi) in &ranges[1..] {
            rest.push((vi(prev_lo - hi - 2), vi(hi - lo)));
            prev_lo = *lo;
        }
        let frame = AckFrame::new(vi(hi0), vi(0), vi(hi0 - lo0), rest, None);
        // sender side: what AckDataSpace::recv_frame does
        let mut rotate = self.sent.rotate();
        if let Err(e) = rotate.update_largest(&frame) {
            fail!("honest-ack-rejected", "step {step}: ack of received packets {ranges:?} rejected: {e:?}");
        }
        for pn in frame.iter().flat_map(|r| r.rev()) {
            let _frames: Vec<u32> = rotate.on_packet_acked(pn).collect();
        }
        drop(rotate);
        self.la_true = Some(self.la_true.map_or(hi0, |l| l.max(hi0)));
        self.acks_processed += 1;
        if !self.emitted.is_empty() {
            self.seen_ack_since_emit = true;
        }
        Ok(())
    }
}

async fn history_body(h: &History, ctx: &mut CaseCtx) -> Outcome {
    let mut w = World::new();
    let mut bursts = 0u32;
    for (step, op) in h.ops.iter().enumerate() {
        match op {
            Op::Assemble { writer, trivial_writer, recs, retran_ms } => {
                let retran = Duration::from_millis(*retran_ms as u64 + 1);
                w.assemble(step, *writer, *trivial_writer, recs, retran)?;
                if !recs.is_empty() {
                    if *trivial_writer {
                        ctx.class("emit:build_trivial");
                    } else if recs.iter().all(|f| !*f) {
                        ctx.class("emit:build_with_time-nothing-to-retransmit");
                    } else if recs.iter().any(|f| !*f) {
                        ctx.class("emit:build_with_time-mixed");
                    }
                }
            }
            Op::Burst { n } => {
                bursts += 1;
                for _ in 0..*n {
                    w.assemble(step, 0, false, &[true], Duration::from_millis(50))?;
                }
            }
            Op::Deliver { which } => w.deliver(step, *which, ctx)?,
            Op::Ack { max_ranges, stale } => w.ack(step, *max_ranges, *stale, ctx)?,
            Op::Loss { which } => {
                if !w.emitted.is_empty() {
                    let pn = w.emitted[gens::idx(*which, w.emitted.len())].pn;
                    let mut rotate = w.sent.rotate();
                    let _frames: Vec<u32> = rotate.may_loss_packet(pn).collect();
                }
            }
            Op::FastRetransmit => {
                let mut rotate = w.sent.rotate();
                let _frames: Vec<u32> = rotate.fast_retransmit().collect();
            }
            Op::Tick { ms } => tokio::time::advance(Duration::from_millis(*ms as u64)).await,
        }
    }
    // whatever happened, the next assembly must get a fresh number (probe, not counted as a
    // generated abandon)
    let abandons = w.abandons;
    w.assemble(h.ops.len(), 0, false, &[], Duration::from_millis(1))?;
    w.abandons = abandons;

    ctx.class(format!("emitted:{}", bucket(w.emitted.len() as u64)));
    if w.abandons > 0 {
        ctx.class("abandoned>=1");
    }
    if w.acks_processed > 0 {
        ctx.class("acks>=1");
    }
    if w.writers_switch >= 2 {
        ctx.class("writers-alternate");
    }
    for n in &w.widths {
        ctx.class(format!("wire-bytes-{n}"));
    }
    if w.widths.len() >= 2 {
        ctx.class("width-changes");
    }
    if bursts > 0 {
        ctx.class("burst");
    }
    if w.nontrivial {
        ctx.class("abandon+ack-between-emits");
        ctx.nontrivial();
        ctx.note(json!({"emitted": w.emitted.len(), "abandoned": w.abandons, "acks": w.acks_processed,
                        "largest_acked": w.la_true, "received": w.received.len()}));
    }
    Ok(())
}

fn bucket(n: u64) -> &'static str {
    match n {
        0 => "0",
        1..=3 => "1-3",
        4..=15 => "4-15",
        16..=255 => "16-255",
        256..=32767 => "256-32767",
        32768..=65535 => "32768-65535",
        _ => ">=65536",
    }
}

fn run_history(h: &History, ctx: &mut CaseCtx) -> Outcome {
    let rt = tokio::runtime::Builder::new_current_thread()
        .enable_time()
        .start_paused(true)
        .build()
        .map_err(|e| Fail::new("harness", format!("runtime: {e}")))?;
    rt.block_on(history_body(h, ctx))
}

fn op_strategy() -> BoxedStrategy<Op> {
    let recs = prop_oneof![
        3 => Just(vec![]),
        3 => Just(vec![true]),
        2 => Just(vec![false]),
        3 => proptest::collection::vec(any::<bool>(), 1..=4),
    ];
    let assemble = (0u8..2, proptest::bool::weighted(0.15), recs, 0u16..400).prop_map(
        |(writer, trivial_writer, recs, retran_ms)| Op::Assemble { writer, trivial_writer, recs, retran_ms },
    );
    let deliver = prop_oneof![
        2 => any::<u16>(),
        2 => (0u16..3000).prop_map(|x| u16::MAX - x), // the newest ones
    ]
    .prop_map(|which| Op::Deliver { which });
    let ack = (1u8..=6, prop_oneof![3 => Just(0u16), 1 => any::<u16>()])
        .prop_map(|(max_ranges, stale)| Op::Ack { max_ranges, stale });
    let loss = any::<u16>().prop_map(|which| Op::Loss { which });
    let tick = prop_oneof![0u16..50, 0u16..5000].prop_map(|ms| Op::Tick { ms });
    prop_oneof![9 => assemble, 5 => deliver, 3 => ack, 1 => loss, 1 => Just(Op::FastRetransmit), 1 => tick].boxed()
}

fn history_strategy(long: bool, max_ops: usize) -> BoxedStrategy<History> {
    let ops = proptest::collection::vec(op_strategy(), 0..=max_ops);
    if !long {
        return ops.prop_map(|ops| History { ops }).boxed();
    }
    // long histories: an ordinary history with one or two bursts inserted, so that the number of
    // unacknowledged packets crosses 2^15 (and the packet number 2^16)
    let burst = || {
        (
            any::<u16>(),
            prop_oneof![1 => 100u32..2_000, 3 => 30_000u32..36_000, 2 => 62_000u32..70_000],
        )
    };
    (ops, burst(), proptest::option::weighted(0.5, burst()))
        .prop_map(|(mut ops, b1, b2)| {
            for (pos, n) in [Some(b1), b2].into_iter().flatten() {
                let at = gens::upto(pos, ops.len() as u64) as usize;
                ops.insert(at, Op::Burst { n });
            }
            History { ops }
        })
        .boxed()
}

// ---------------------------------------------------------------------------
// (a) several writers on real threads
// ---------------------------------------------------------------------------

#[derive(Debug, Clone, Serialize, Deserialize)]
struct Threads {
    /// per thread: 0 abandon, 1 packet with a recorded frame, 2 packet with only non-recorded
    /// frames (build_with_time), 3 closing packet (build_trivial), 4 process an ack of the
    /// thread's own newest packet, 5 yield
    plans: Vec<Vec<u8>>,
}

fn run_threads(c: &Threads, ctx: &mut CaseCtx) -> Outcome {
    let journal: ArcSentJournal<u32> = ArcSentJournal::with_capacity(4);
    let results: Vec<Result<Vec<u64>, Fail>> = std::thread::scope(|scope| {
        let handles: Vec<_> = c
            .plans
            .iter()
            .enumerate()
            .map(|(t, plan)| {
                let journal = journal.clone();
                scope.spawn(move || -> Result<Vec<u64>, Fail> {
                    let mut mine: Vec<u64> = vec![];
                    for (i, code) in plan.iter().enumerate() {
                        match code {
                            0..=3 => {
                                let mut g = journal.new_packet();
                                let (pn, _) = g.pn();
                                if let Some(last) = mine.last() {
                                    if pn <= *last {
                                        return Err(Fail::new(
                                            "pn-reused-concurrent",
                                            format!("thread {t} op {i}: pn {pn} after having emitted {last}"),
                                        ));
                                    }
                                }
                                match code {
                                    0 => drop(g),
                                    1 => {
                                        g.record_frame((t * 1000 + i) as u32);
                                        g.build_with_time(Duration::from_millis(20), Duration::from_millis(60));
                                        mine.push(pn);
                                    }
                                    2 => {
                                        g.record_trivial();
                                        g.build_with_time(Duration::from_millis(20), Duration::from_millis(60));
                                        mine.push(pn);
                                    }
                                    _ => {
                                        g.record_trivial();
                                        g.build_trivial();
                                        mine.push(pn);
                                    }
                                }
                            }
                            4 => {
                                if let Some(last) = mine.last() {
                                    let v = VarInt::from_u64(*last).unwrap();
                                    let frame = AckFrame::new(v, VarInt::from_u32(0), VarInt::from_u32(0), vec![], None);
                                    let mut r = journal.rotate();
                                    if let Err(e) = r.update_largest(&frame) {
                                        return Err(Fail::new(
                                            "honest-ack-rejected",
                                            format!("thread {t}: ack of own emitted pn {last}: {e:?}"),
                                        ));
                                    }
                                    let _f: Vec<u32> = r.on_packet_acked(*last).collect();
                                }
                            }
                            _ => std::thread::yield_now(),
                        }
                    }
                    Ok(mine)
                })
            })
            .collect();
        handles
            .into_iter()
            .map(|h| h.join().unwrap_or_else(|_| Err(Fail::new("panic-in-thread", "a writer thread panicked"))))
            .collect()
    });
    let mut all: Vec<u64> = vec![];
    let mut active = 0;
    for r in results {
        let mine = r?;
        if !mine.is_empty() {
            active += 1;
        }
        all.extend(mine);
    }
    all.sort();
    for w in all.windows(2) {
        ensure!(w[0] != w[1], "pn-reused-concurrent", "pn {} emitted twice (all emitted: {all:?})", w[0]);
    }
    let g = journal.new_packet();
    if let Some(max) = all.last() {
        ensure!(g.pn().0 > *max, "pn-reused", "after the threads: next pn {} <= emitted {max}", g.pn().0);
    }
    drop(g);
    let abandons = c.plans.iter().flatten().filter(|x| **x == 0).count();
    ctx.class(format!("threads-{}", c.plans.len()));
    if active >= 2 && abandons >= 1 && c.plans.iter().flatten().any(|x| *x == 4) {
        ctx.class("multi-writer+abandon+ack");
        ctx.nontrivial();
    }
    Ok(())
}

fn threads_strategy() -> BoxedStrategy<Threads> {
    let code = prop_oneof![3 => Just(0u8), 4 => Just(1u8), 2 => Just(2u8), 1 => Just(3u8), 2 => Just(4u8), 1 => Just(5u8)];
    proptest::collection::vec(proptest::collection::vec(code, 1..=24), 2..=4)
        .prop_map(|plans| Threads { plans })
        .boxed()
}

// ---------------------------------------------------------------------------
// observations recorded in the evidence (no verdict attached)
// ---------------------------------------------------------------------------

fn observations() -> serde_json::Value {
    // a NewPacketGuard on which neither record_frame nor record_trivial was called, finished
    // with build_with_time: no caller in the repository does this (every frame written goes
    // through RecordFrame::record_frame, padding is only added to non-empty packets)
    let j: ArcSentJournal<u32> = ArcSentJournal::with_capacity(4);
    let g = j.new_packet();
    let before = g.pn().0;
    g.build_with_time(Duration::from_millis(1), Duration::from_millis(3));
    let after = j.new_packet().pn().0;
    // PacketNumber::U24 produced by encode() keeps the low 32 bits in memory
    let pn = 0x1_2400_0005u64;
    let la = pn - 40_000;
    let expected = 0x1_23FF_FFF0u64;
    let enc = PacketNumber::encode(pn, la);
    let (buf, n) = to_wire(enc);
    json!({
        "build_with_time_with_nothing_recorded_consumes_pn": after > before,
        "in_memory_u24": {
            "encode": format!("{enc:?}"),
            "decode_in_memory": enc.decode(expected),
            "decode_from_wire": from_wire(&buf[..n]).decode(expected),
            "pn": pn,
        },
    })
}

fn main() {
    let mut check = Check::from_env("C07", "exploration");
    check.rule(
        "(a) case = op list over {assembly(writer, PacketWriter|TrivialPacketWriter, frames recorded/non-recorded; empty = abandoned), \
         deliver(any emitted packet, duplicates/reordering allowed) to a real ArcRcvdJournal, ack(snapshot of the receiver, newest or stale) \
         processed by the sender, loss report, fast_retransmit, virtual-time tick}; long histories add bursts of up to 70k packets so the \
         encoding width changes; a threaded stage runs 2-4 writers concurrently on one journal. An assembly is *emitted* exactly when \
         build_with_time/build_trivial is called (that is where encrypt_and_protect_packet follows in tx.rs). non-trivial (a) = some emitted \
         packet is followed by >=1 abandoned assembly and >=1 processed ack and then another emitted packet (threads: >=2 emitting writers, \
         an abandon and an ack). (b) case = (pn, largest_acked, expected) with pn<2^62, 1<=pn-la<2^31, expected in [la+1,pn] (or the \
         nothing-acked position la=0,expected=0) through the wire form; raw (bytes, expected<=2^62) differential against an RFC 9000 A.3 \
         reference; receiver-side ArcRcvdJournal::decode_pn; exhaustive rows (la,d) x every receiver position. non-trivial (b) = pn-la within 2 \
         of a width boundary 2^15/2^23/2^31 (raw: decoded value within 2 of the window edge; grid: a row with >=2 receiver positions). distinct = by hash of the serialised case.",
    );
    check.assume("an honest receiver acknowledges only packets it received; acks may arrive late, duplicated or reordered");
    check.assume("a packet is emitted iff build_with_time/build_trivial is called; abandon = guard dropped with nothing recorded (what assemble does on Err)");
    check.assume("the truncated number is what put_packet_number writes and take_pn_len reads (in-memory PacketNumber::U24 is not masked; observation only)");
    check.assume("qconnection::tx::PacketWriter is not linked; its call sequences on NewPacketGuard are reproduced from the source");
    if !check.is_replay() {
        check.extra("observations", observations());
    }

    // ---- (b) exhaustive sub-grid
    let dmax: u64 = if check.quick() { 1 << 11 } else { 1 << 17 };
    let rows = grid_rows(dmax);
    // rows are pure functions of (la, d); evaluate them on all cores, then hand the verdicts to
    // the enumerator (replay recomputes the single row)
    let pre: Vec<Option<Outcome>> = if check.is_replay() {
        vec![None; rows.len()]
    } else {
        let threads = 16usize;
        let mut out: Vec<Option<Outcome>> = vec![None; rows.len()];
        let chunk = rows.len().div_ceil(threads * 8);
        let next = std::sync::atomic::AtomicUsize::new(0);
        let parts: Vec<Vec<(usize, Outcome)>> = std::thread::scope(|s| {
            let hs: Vec<_> = (0..threads)
                .map(|_| {
                    s.spawn(|| {
                        let mut mine = vec![];
                        loop {
                            let c = next.fetch_add(1, std::sync::atomic::Ordering::Relaxed);
                            let start = c * chunk;
                            if start >= rows.len() {
                                break;
                            }
                            for i in start..(start + chunk).min(rows.len()) {
                                mine.push((i, vcore::guarded(|| run_row(&rows[i]))));
                            }
                        }
                        mine
                    })
                })
                .collect();
            hs.into_iter().map(|h| h.join().unwrap()).collect()
        });
        for p in parts {
            for (i, r) in p {
                out[i] = Some(r);
            }
        }
        out
    };
    check.exhaustive::<Row, _>("grid-exhaustive", true, |e| {
        for (row, pre) in rows.iter().zip(pre) {
            if e.stopped() {
                return;
            }
            e.case(row, |row, ctx| {
                // a row with >= 2 receiver positions
                ctx.nontrivial = row.d >= 2;
                if near_width_boundary(row.d) {
                    ctx.class("d-near-width-boundary");
                }
                match pre {
                    Some(verdict) => verdict,
                    None => run_row(row),
                }
            });
        }
    });
    check.exhaustive::<Triple, _>("edge-rows", true, |e| {
        for t in edge_triples() {
            if e.stopped() {
                return;
            }
            e.case(&t, run_triple);
        }
    });

    // ---- (b) random
    let n = check.pick(200_000, 60_000_000);
    check.stage("triples", n, 16, triple_strategy, run_triple);
    let n = check.pick(200_000, 40_000_000);
    check.stage("a3-differential", n, 16, raw_strategy, run_raw);
    let n = check.pick(10_000, 600_000);
    check.stage("rcvd-journal", n, 16, rcvd_strategy, run_rcvd);

    // ---- (a) histories
    let n = check.pick(20_000, 5_000_000);
    check.stage("histories", n, 16, || history_strategy(false, 60), run_history);
    let n = check.pick(200, 12_000);
    check.stage("histories-long", n, 16, || history_strategy(true, 40), run_history);
    let n = check.pick(800, 60_000);
    check.stage("threads", n, 16, threads_strategy, run_threads);
    check.finish();
}
