//! C13 — loss detection and congestion control follow RFC 9002.
//!
//! Engine: histories of sends / ACK frames / clock advances / ticks / handshake-phase
//! changes driven into `qcongestion::ArcCC` through its public `Transport` trait, with
//! capturing `Feedback` trackers and a paused tokio clock per case. After every operation
//! the read-only hook `ArcCC::verif_snapshot()` is compared with a reference model that
//! only encodes what the property statement / RFC 9002 demand (the implementation may be
//! more conservative, never less).
//!
//! Clauses (signature families):
//!  1. `lost-*`        every pn passed to `may_loss` was sent, is not acked / lost / discarded,
//!                     a larger pn of that space was acknowledged before, and it is >= 3 packets
//!                     older or older than 9/8 * max(srtt, latest_rtt) (>= 1 ms).
//!  2. `acked-then-lost` an acknowledged packet is never reported lost.
//!  3. `inflight-without-timer`, `stuck-in-flight`, `pto-*`: ack-eliciting packets in flight are
//!                     covered by an armed timer and are lost or probed within a bounded time;
//!                     the PTO period doubles per expiry; do_tick abandons after enough PTOs.
//!  4. `cwnd-*`        cwnd >= 2 * mtu; shrinks only on a loss / CE event whose trigger was sent
//!                     after the current recovery start; grows only on acks of packets sent after
//!                     the recovery start, by at most the acked bytes.
//!  5. `bif-mismatch`, `outstanding-mismatch`: bytes_in_flight equals the outstanding in-flight
//!                     packets; the outstanding set equals the model's.
//!  6. `send-quota-ignores-cwnd`: while the sender obeys `send_quota`, bytes_in_flight does not
//!                     exceed cwnd by more than one datagram (PTO probes exempt).
//!  +  `rtt-*`         RTT samples per RFC 9002 section 5 (needed for the time threshold).

use std::sync::{Arc, Mutex, atomic::AtomicU16};

use proptest::prelude::*;
use qbase::{
    Epoch,
    frame::{AckFrame, EcnCounts},
    net::tx::ArcSendWaker,
    varint::VarInt,
};
use qcongestion::{
    Algorithm, ArcCC, Feedback, HandshakeStatus, PathStatus, Transport, verif::VerifSnapshot,
};
use qevent::quic::recovery::PacketLostTrigger;
use serde::{Deserialize, Serialize};
use serde_json::json;
use tokio::time::{Duration, Instant};
use vcore::{CaseCtx, Check, Fail, Outcome, ensure, ensure_eq, fail};

const EPOCHS: [Epoch; 3] = [Epoch::Initial, Epoch::Handshake, Epoch::Data];
const MS: u64 = 1_000_000;
const TICK: u64 = 10 * MS;
const MTUS: [u16; 4] = [1200, 1350, 1452, 1500];

// known-finding signatures (narrow; everything else keeps being checked behind them)
const K_TIME_ONLY: &str = "lost-without-larger-ack";
const K_PTO_GETPTO: &str = "pto-not-doubling-getpto";
const K_PTO_TIMER: &str = "pto-not-doubling-timer";
const K_QUOTA: &str = "send-quota-ignores-cwnd";
const K_SHRINK_RUN: &str = "cwnd-shrink-again-after-consecutive-loss";
const K_GROW_RUN: &str = "cwnd-grow-in-recovery-after-consecutive-loss";
const K_PTO_RESET: &str = "pto-count-reset-by-repeated-initial-discard";

// ---------------------------------------------------------------------------
// case
// ---------------------------------------------------------------------------

#[derive(Debug, Clone, Serialize, Deserialize, PartialEq)]
enum Op {
    /// `n` packets back to back in `epoch`; kind 0 = ack-eliciting (in flight),
    /// 1 = padding only (in flight, not ack-eliciting), 2 = ACK only (not in flight);
    /// `skip` packet numbers are left out before the first one (sent on another path).
    Send { epoch: u8, kind: u8, size: u16, skip: u8, n: u8 },
    /// ACK frame: largest = newest pn - top; first range of first+1 pns; further (gap, len) ranges.
    Ack { epoch: u8, top: u8, first: u8, more: Vec<(u8, u8)>, delay_us: u32, ce: u8 },
    Advance { us: u32 },
    Tick,
    /// what `Path::drive` does: `ticks` x (sleep 10 ms; do_tick); with `probe` the sender
    /// answers `need_send_ack_eliciting` with a PING packet like `Burst::load_ping`.
    Drive { ticks: u16, probe: bool },
    PktRcvd { epoch: u8, ae: bool },
    /// 0 = got handshake key, 1 = handshake confirmed (+ discard Initial & Handshake, as
    /// `Handshake::discard_spaces_on_*` does), 2 = server enters the anti-amplification limit,
    /// 3 = leaves it, 4 = limit lifted for good (address validated)
    Flag { which: u8 },
}

#[derive(Debug, Clone, Serialize, Deserialize)]
struct Case {
    server: bool,
    mtu_sel: u8,
    mad_ms: u8,
    /// every send first asks `send_quota()` like `PacketsAssembler::new`
    obey_quota: bool,
    ops: Vec<Op>,
    /// 0 = none, 1 = final silent drive without probes, 2 = with probes
    quiesce: u8,
}

// ---------------------------------------------------------------------------
// model
// ---------------------------------------------------------------------------

#[derive(Clone, Copy, PartialEq, Debug)]
enum St {
    Out,
    Acked,
    Lost,
    LostAcked,
}

#[derive(Clone, Copy, Debug)]
struct MPkt {
    pn: u64,
    t: u64,
    size: usize,
    ae: bool,
    inflight: bool,
    st: St,
}

#[derive(Default)]
struct MSpace {
    /// packets tracked by this controller, in send order (pn strictly increasing)
    pkts: Vec<MPkt>,
    next_pn: u64,
    /// pns below this were dropped by a space discard
    dead_below: u64,
    /// max `largest acknowledged` over all ACK frames received for this space
    largest_acked: Option<u64>,
    ce_peer: u64,
    ce_seen: u64,
    last_ae: Option<u64>,
    last_send: Option<u64>,
    discarded_once: bool,
    rcvd_pn: u64,
}

impl MSpace {
    fn find(&self, pn: u64) -> Option<usize> {
        self.pkts.binary_search_by(|p| p.pn.cmp(&pn)).ok()
    }
}

struct Tracker(Mutex<Vec<u64>>);

impl Feedback for Tracker {
    fn may_loss(&self, _trigger: PacketLostTrigger, pns: &mut dyn Iterator<Item = u64>) {
        self.0.lock().unwrap().extend(pns);
    }
}

/// flattened snapshot, all instants as ns since case start
struct Snap {
    cwnd: usize,
    bif: usize,
    pc: u32,
    timer: Option<u64>,
    latest: u64,
    srtt: u64,
    rttvar: u64,
    min_rtt: u64,
    has_sample: bool,
    need: [usize; 3],
    loss_time: [Option<u64>; 3],
    get_pto: [u64; 3],
    raw: VerifSnapshot,
}

impl Snap {
    fn need_total(&self) -> usize {
        self.need.iter().sum()
    }
    /// RFC 9002 6.1.2 time threshold
    fn loss_delay(&self) -> u64 {
        (self.latest.max(self.srtt) / 8 * 9).max(MS)
    }
    /// RFC 9002 6.2.1 PTO without max_ack_delay and backoff
    fn pto_base(&self) -> u64 {
        self.srtt + (4 * self.rttvar).max(MS)
    }
}

#[derive(Default)]
struct AckInfo {
    sp: usize,
    largest: u64,
    delay_ns: u64,
    /// indices (in pkts) newly acknowledged: Out -> Acked
    newly: Vec<usize>,
    /// indices acknowledged after having been declared lost
    late: Vec<usize>,
    /// CE count above everything processed so far, and packets were (possibly late) acknowledged
    ce_up: bool,
    /// the frame carries a CE count above everything processed so far
    ce_signal: bool,
    largest_before: Option<St>,
    largest_idx: Option<usize>,
}

#[derive(Default)]
struct StepInfo {
    what: &'static str,
    ack: Option<AckInfo>,
    is_tick: bool,
    tick_err: bool,
    /// a space was discarded for the first time in this op (RFC: pto_count = 0)
    first_discard: bool,
    /// an already discarded Initial space was discarded again by the implementation
    repeated_discard: bool,
    /// ack-eliciting packets sent in this op (they consume need_send_ack_eliciting)
    ae_sent: usize,
    /// RFC 9002 A.7 PeerCompletedAddressValidation() as it stood when the ACK was processed:
    /// server, or a Handshake ACK had been received before, or the handshake is confirmed
    peer_validated: bool,
}

#[derive(Default)]
struct Stats {
    sends: u32,
    acks: u32,
    reorder_acks: u32,
    hole_acks: u32,
    late_acks: u32,
    rtt_samples: u32,
    ptos: u32,
    loss_events: u32,
    lost_by_count: u32,
    lost_by_time_with_ack: u32,
    lost_time_only: u32,
    shrinks: u32,
    grows: u32,
    ce_events: u32,
    run3: u32,
    quota_blocked: u32,
    over_window: u32,
    abandoned: bool,
    discards: u32,
    min_cwnd_hit: bool,
    probes_sent: u32,
}

struct Run {
    cc: ArcCC,
    status: PathStatus,
    hs: Arc<HandshakeStatus>,
    trackers: [Arc<Tracker>; 3],
    t0: Instant,
    mtu: usize,
    mad: u64,
    server: bool,
    obey_quota: bool,
    known_sigs: Arc<Vec<String>>,
    // model
    sp: [MSpace; 3],
    has_key: bool,
    hs_ack: bool,
    confirmed: bool,
    at_limit: bool,
    granted: bool,
    rec_start: Option<u64>,
    tainted: bool,
    pto_fired_at: Vec<u64>,
    pushed: Vec<&'static str>,
    /// largest loss delay / PTO base any snapshot showed
    max_ld: std::cell::Cell<u64>,
    stats: Stats,
    steps: usize,
}

fn sig_matches(pattern: &str, sig: &str) -> bool {
    match pattern.strip_suffix('*') {
        Some(p) => sig.starts_with(p),
        None => pattern == sig,
    }
}

fn tol(v: u64) -> u64 {
    2_000 + v / 100_000
}

impl Run {
    fn new(case: &Case, known_sigs: Arc<Vec<String>>) -> Self {
        let mtu = MTUS[case.mtu_sel as usize % MTUS.len()];
        let hs = Arc::new(HandshakeStatus::new(case.server));
        let status = PathStatus::new(hs.clone(), Arc::new(AtomicU16::new(mtu)));
        let trackers = [
            Arc::new(Tracker(Mutex::new(vec![]))),
            Arc::new(Tracker(Mutex::new(vec![]))),
            Arc::new(Tracker(Mutex::new(vec![]))),
        ];
        let t0 = Instant::now();
        let cc = ArcCC::new(
            Algorithm::NewReno,
            Duration::from_millis(case.mad_ms as u64),
            [
                trackers[0].clone() as Arc<dyn Feedback>,
                trackers[1].clone() as Arc<dyn Feedback>,
                trackers[2].clone() as Arc<dyn Feedback>,
            ],
            status.clone(),
            ArcSendWaker::new(),
        );
        // a client path is granted at creation (`Components::get_or_try_create_path`), a server
        // path is created by a received datagram (`Path::on_packet_rcvd` releases the limit)
        status.release_anti_amplification_limit();
        Run {
            cc,
            status,
            hs,
            trackers,
            t0,
            mtu: mtu as usize,
            mad: case.mad_ms as u64 * MS,
            server: case.server,
            obey_quota: case.obey_quota,
            known_sigs,
            sp: Default::default(),
            has_key: false,
            hs_ack: false,
            confirmed: false,
            at_limit: false,
            granted: !case.server,
            rec_start: None,
            tainted: false,
            pto_fired_at: vec![],
            pushed: vec![],
            max_ld: std::cell::Cell::new(0),
            stats: Stats::default(),
            steps: 0,
        }
    }

    fn now(&self) -> u64 {
        (Instant::now() - self.t0).as_nanos() as u64
    }

    fn ns(&self, i: Instant) -> u64 {
        i.saturating_duration_since(self.t0).as_nanos() as u64
    }

    fn snap(&self) -> Snap {
        let raw = self.cc.verif_snapshot();
        let get_pto = [
            self.cc.get_pto(Epoch::Initial).as_nanos() as u64,
            self.cc.get_pto(Epoch::Handshake).as_nanos() as u64,
            self.cc.get_pto(Epoch::Data).as_nanos() as u64,
        ];
        let ld = (raw.latest_rtt.max(raw.smoothed_rtt).as_nanos() as u64 / 8 * 9).max(MS);
        self.max_ld.set(self.max_ld.get().max(ld));
        Snap {
            cwnd: raw.cwnd,
            bif: raw.bytes_in_flight,
            pc: raw.pto_count,
            timer: raw.loss_detection_timer.map(|t| self.ns(t)),
            latest: raw.latest_rtt.as_nanos() as u64,
            srtt: raw.smoothed_rtt.as_nanos() as u64,
            rttvar: raw.rttvar.as_nanos() as u64,
            min_rtt: raw.min_rtt.as_nanos() as u64,
            has_sample: raw.has_rtt_sample,
            need: [
                raw.spaces[0].need_send_ack_eliciting,
                raw.spaces[1].need_send_ack_eliciting,
                raw.spaces[2].need_send_ack_eliciting,
            ],
            loss_time: [
                raw.spaces[0].loss_time.map(|t| self.ns(t)),
                raw.spaces[1].loss_time.map(|t| self.ns(t)),
                raw.spaces[2].loss_time.map(|t| self.ns(t)),
            ],
            get_pto,
            raw,
        }
    }

    /// A failure that is tolerated *if* it is listed as a known finding: recorded once per
    /// case and the history continues; otherwise it is the case's verdict.
    fn known(&mut self, ctx: &mut CaseCtx, sig: &'static str, msg: String) -> Outcome {
        if self.known_sigs.iter().any(|k| sig_matches(k, sig)) {
            if !self.pushed.contains(&sig) {
                self.pushed.push(sig);
                ctx.known.push(Fail::new(sig, msg));
            }
            Ok(())
        } else {
            Err(Fail::new(sig, msg))
        }
    }

    /// epoch a real sender could use in the current handshake phase
    fn eff_epoch(&self, e: u8) -> usize {
        let e = (e % 3) as usize;
        if self.confirmed {
            return 2;
        }
        if e == 1 && !self.has_key {
            return 0;
        }
        if e == 2 && self.server && !self.has_key {
            return 0;
        }
        e
    }

    fn model_discard(&mut self, sp: usize, info: &mut StepInfo) {
        let s = &mut self.sp[sp];
        if s.discarded_once {
            info.repeated_discard = true;
        } else {
            info.first_discard = true;
            s.discarded_once = true;
        }
        s.pkts.clear();
        s.dead_below = s.next_pn;
        s.last_ae = None;
        self.stats.discards += 1;
    }

    // -- operations ---------------------------------------------------------

    /// one packet; returns false when the congestion controller refused (quota)
    fn send_one(
        &mut self,
        sp: usize,
        kind: u8,
        size: usize,
        skip: u64,
        info: &mut StepInfo,
        ctx: &mut CaseCtx,
    ) -> Result<bool, Fail> {
        let (ae, inflight) = match kind % 3 {
            0 => (true, true),
            1 => (false, true),
            _ => (false, false),
        };
        let mut size = size.clamp(20, self.mtu);
        let probe_pending = self.cc.need_send_ack_eliciting(EPOCHS[sp]) > 0;
        if self.obey_quota {
            match self.cc.send_quota() {
                Ok(q) => {
                    ensure!(q >= self.mtu, "quota-ok-below-mtu", "send_quota() = Ok({q}) < mtu");
                    size = size.min(q);
                }
                Err(_) => {
                    self.stats.quota_blocked += 1;
                    return Ok(false);
                }
            }
        }
        let now = self.now();
        let s = &mut self.sp[sp];
        let pn = s.next_pn + skip;
        s.next_pn = pn + 1;
        let ack = if kind % 3 == 2 { Some(s.rcvd_pn) } else { None };
        self.cc.on_pkt_sent(EPOCHS[sp], pn, ae, size, inflight, ack);
        s.pkts.push(MPkt { pn, t: now, size, ae, inflight, st: St::Out });
        s.last_send = Some(now);
        if ae {
            s.last_ae = Some(now);
            info.ae_sent += 1;
        }
        self.stats.sends += 1;
        // RFC 9001 4.9.1 / `ArcCC::on_pkt_sent`: a client drops Initial when it sends Handshake
        // (once: the first Handshake packet; later Initial packets are tracked normally)
        if sp == 1 && !self.server && !self.sp[0].discarded_once {
            self.model_discard(0, info);
        }
        // clause 6
        if self.obey_quota && inflight && !probe_pending {
            let raw = self.cc.verif_snapshot();
            if raw.bytes_in_flight > raw.cwnd + self.mtu {
                self.stats.over_window += 1;
                self.known(
                    ctx,
                    K_QUOTA,
                    format!(
                        "send_quota() allowed a {size}-byte in-flight packet (space {sp}, pn {pn}) that took bytes_in_flight to {} with cwnd {} (mtu {})",
                        raw.bytes_in_flight, raw.cwnd, self.mtu
                    ),
                )?;
            }
        }
        Ok(true)
    }

    fn build_ack(&mut self, sp: usize, top: u8, first: u8, more: &[(u8, u8)], delay_us: u32, ce: u8) -> (AckFrame, AckInfo) {
        let s = &mut self.sp[sp];
        let newest = s.next_pn - 1;
        let largest = newest - (top as u64).min(newest);
        let mut ranges: Vec<(u64, u64)> = vec![];
        let lo = largest - (first as u64).min(largest);
        ranges.push((lo, largest));
        let mut left = lo;
        let mut enc = vec![];
        for (gap, len) in more {
            let Some(hi) = left.checked_sub(*gap as u64 + 2) else { break };
            let lo = hi - (*len as u64).min(hi);
            ranges.push((lo, hi));
            enc.push((VarInt::from_u64(left - hi - 2).unwrap(), VarInt::from_u64(hi - lo).unwrap()));
            left = lo;
        }
        let mut ce_up = false;
        let ecn = match ce {
            0 => None,
            c => {
                if c > 1 {
                    s.ce_peer += (c - 1) as u64;
                }
                Some(EcnCounts::new(
                    VarInt::from_u64(s.next_pn).unwrap(),
                    VarInt::from_u32(0),
                    VarInt::from_u64(s.ce_peer).unwrap(),
                ))
            }
        };
        let frame = AckFrame::new(
            VarInt::from_u64(largest).unwrap(),
            VarInt::from_u64(delay_us as u64).unwrap(),
            VarInt::from_u64(largest - ranges[0].0).unwrap(),
            enc,
            ecn,
        );
        // model effect
        let largest_idx = s.find(largest);
        let largest_before = largest_idx.map(|i| s.pkts[i].st);
        let mut newly = vec![];
        let mut late = vec![];
        for (lo, hi) in &ranges {
            let from = s.pkts.partition_point(|p| p.pn < *lo);
            for i in from..s.pkts.len() {
                if s.pkts[i].pn > *hi {
                    break;
                }
                match s.pkts[i].st {
                    St::Out => {
                        s.pkts[i].st = St::Acked;
                        newly.push(i);
                    }
                    St::Lost => {
                        s.pkts[i].st = St::LostAcked;
                        late.push(i);
                    }
                    _ => {}
                }
            }
        }
        // the frame reports more CE marks than any frame processed before
        let ce_signal = ecn.is_some() && s.ce_peer > s.ce_seen;
        if ce_signal && (!newly.is_empty() || !late.is_empty()) {
            ce_up = true;
        }
        if ecn.is_some() && !newly.is_empty() {
            // ECN counts are processed (RFC 9002 A.7) whenever packets are newly acknowledged
            s.ce_seen = s.ce_seen.max(s.ce_peer);
        }
        let info = AckInfo {
            sp,
            largest,
            delay_ns: delay_us as u64 * 1000,
            newly,
            late,
            ce_up,
            ce_signal,
            largest_before,
            largest_idx,
        };
        (frame, info)
    }

    async fn exec(&mut self, op: &Op, pre: Snap, ctx: &mut CaseCtx) -> Result<Snap, Fail> {
        let mut info = StepInfo::default();
        match op {
            Op::Send { epoch, kind, size, skip, n } => {
                info.what = "send";
                let sp = self.eff_epoch(*epoch);
                let n = (*n).clamp(1, 16);
                for k in 0..n {
                    let skip = if k == 0 { *skip as u64 } else { 0 };
                    if !self.send_one(sp, *kind, *size as usize, skip, &mut info, ctx)? {
                        break;
                    }
                }
            }
            Op::Ack { epoch, top, first, more, delay_us, ce } => {
                info.what = "ack";
                let sp = self.eff_epoch(*epoch);
                if self.sp[sp].next_pn == 0 {
                    return Ok(pre);
                }
                // an acknowledgement arrives strictly after the packet it acknowledges was sent
                if self.sp[sp].last_send == Some(self.now()) {
                    tokio::time::advance(Duration::from_micros(50)).await;
                }
                info.peer_validated = self.server || self.hs_ack || self.confirmed;
                let (frame, ai) = self.build_ack(sp, *top, *first, more, *delay_us, *ce);
                let prev_largest = self.sp[sp].largest_acked;
                self.sp[sp].largest_acked = Some(prev_largest.map_or(ai.largest, |l| l.max(ai.largest)));
                self.cc.on_ack_rcvd(EPOCHS[sp], &frame);
                if sp == 1 {
                    // `space::handshake` dispatch
                    self.hs.received_handshake_ack();
                    self.hs_ack = true;
                    if self.server && !self.sp[0].discarded_once {
                        self.model_discard(0, &mut info);
                    }
                }
                self.stats.acks += 1;
                if let Some(pl) = prev_largest {
                    if ai.newly.iter().any(|i| self.sp[sp].pkts[*i].pn < pl) {
                        self.stats.reorder_acks += 1;
                    }
                }
                if !ai.newly.is_empty() {
                    let lowest = ai.newly.iter().map(|i| *i).min().unwrap();
                    if self.sp[sp].pkts[..lowest].iter().any(|p| p.st == St::Out) {
                        self.stats.hole_acks += 1;
                    }
                }
                if !ai.late.is_empty() {
                    self.stats.late_acks += 1;
                }
                info.ack = Some(ai);
            }
            Op::Advance { us } => {
                tokio::time::advance(Duration::from_micros((*us).min(10_000_000) as u64)).await;
                return Ok(pre);
            }
            Op::Tick => {
                info.what = "tick";
                info.is_tick = true;
                info.tick_err = self.cc.do_tick().is_err();
            }
            Op::Drive { ticks, probe } => {
                return self.drive(*ticks as u64 * TICK, *probe, pre, ctx).await;
            }
            Op::PktRcvd { epoch, ae } => {
                info.what = "pkt-rcvd";
                let sp = self.eff_epoch(*epoch);
                // `Path::on_packet_rcvd`
                self.status.release_anti_amplification_limit();
                self.at_limit = false;
                let pn = self.sp[sp].rcvd_pn;
                self.sp[sp].rcvd_pn += 1;
                self.cc.on_pkt_rcvd(EPOCHS[sp], pn, *ae);
            }
            Op::Flag { which } => {
                info.what = "flag";
                match which % 5 {
                    0 => {
                        self.hs.got_handshake_key();
                        self.has_key = true;
                    }
                    1 => {
                        if self.has_key && !self.confirmed {
                            // `Handshake::discard_spaces_on_{server,client}_handshake_done`
                            self.hs.handshake_confirmed();
                            self.confirmed = true;
                            self.cc.discard_epoch(Epoch::Initial);
                            self.model_discard(0, &mut info);
                            self.cc.discard_epoch(Epoch::Handshake);
                            self.model_discard(1, &mut info);
                            // a repeated discard at confirmation time is the RFC's own discard
                            info.first_discard = true;
                            info.repeated_discard = false;
                            self.status.release_anti_amplification_limit();
                            self.cc.grant_anti_amplification();
                            self.granted = true;
                            self.at_limit = false;
                        }
                    }
                    2 => {
                        if self.server && !self.granted {
                            // `Path::send_packets` when the credit is used up
                            self.status.enter_anti_amplification_limit();
                            self.at_limit = true;
                        }
                    }
                    3 => {
                        self.status.release_anti_amplification_limit();
                        self.at_limit = false;
                    }
                    _ => {
                        self.cc.grant_anti_amplification();
                        self.granted = true;
                        self.at_limit = false;
                    }
                }
            }
        }
        let post = self.snap();
        self.check_step(&pre, &post, &info, ctx)?;
        Ok(post)
    }

    fn trace(&self, what: &str, post: &Snap) {
        if std::env::var_os("VERIF_C13_TRACE").is_some() {
            eprintln!(
                "[{:>4}] t={:>12} {what:<10} cwnd={} ssthresh={} bif={} rec={:?} pc={} timer={:?} need={:?} loss_time={:?} srtt={} var={} latest={} model_rec={:?} tainted={} out={:?}",
                self.steps,
                self.now(),
                post.cwnd,
                if post.raw.ssthresh == usize::MAX { 0 } else { post.raw.ssthresh },
                post.bif,
                post.raw.recovery_start.map(|t| self.ns(t)),
                post.pc,
                post.timer,
                post.need,
                post.loss_time,
                post.srtt,
                post.rttvar,
                post.latest,
                self.rec_start,
                self.tainted,
                (0..3).map(|sp| self.sp[sp].pkts.iter().filter(|p| p.st == St::Out).map(|p| p.pn).collect::<Vec<_>>()).collect::<Vec<_>>(),
            );
        }
    }

    /// `Path::drive` for `span` ns of virtual time: do_tick every 10 ms. Ticks at which the loss
    /// detection timer has not expired change nothing the property talks about, so idle
    /// stretches are skipped in one advance (the tick grid is kept).
    async fn drive(&mut self, span: u64, probe: bool, mut pre: Snap, ctx: &mut CaseCtx) -> Result<Snap, Fail> {
        let start = self.now();
        let end = start + span;
        let mut guard = 0;
        while !self.stats.abandoned {
            let now = self.now();
            let ticks_to_deadline = match pre.timer {
                Some(t) if t > now => (t - now).div_ceil(TICK).max(1),
                Some(_) => 1,
                None => u64::MAX / TICK,
            };
            let remaining = (end - now) / TICK;
            if remaining == 0 {
                break;
            }
            let k = ticks_to_deadline.min(remaining);
            tokio::time::advance(Duration::from_nanos(k * TICK)).await;
            let mut info = StepInfo { what: "drive-tick", is_tick: true, ..Default::default() };
            info.tick_err = self.cc.do_tick().is_err();
            let post = self.snap();
            self.check_step(&pre, &post, &info, ctx)?;
            pre = post;
            if probe && !self.stats.abandoned {
                for sp in (0..3).rev() {
                    if pre.need[sp] > 0 && (sp != 1 || self.has_key) && !(self.confirmed && sp != 2) {
                        let mut info = StepInfo { what: "probe", ..Default::default() };
                        // Initial packets are padded to a full datagram, other probes are small
                        let size = if sp == 0 { self.mtu } else { 60 };
                        if self.send_one(sp, 0, size, 0, &mut info, ctx)? {
                            self.stats.probes_sent += 1;
                        }
                        let post = self.snap();
                        self.check_step(&pre, &post, &info, ctx)?;
                        pre = post;
                    }
                }
            }
            guard += 1;
            if guard > 400 {
                break;
            }
        }
        let now = self.now();
        if now < end && !self.stats.abandoned {
            tokio::time::advance(Duration::from_nanos(end - now)).await;
        }
        Ok(pre)
    }

    // -- the oracle ---------------------------------------------------------

    fn check_step(&mut self, pre: &Snap, post: &Snap, info: &StepInfo, ctx: &mut CaseCtx) -> Outcome {
        self.steps += 1;
        let step = self.steps;
        let what = info.what;
        let now = self.now();
        let mtu = self.mtu;
        self.trace(what, post);

        // ---- RTT estimator (RFC 9002 section 5) ------------------------------------------
        if let Some(ai) = &info.ack {
            let s = &self.sp[ai.sp];
            let ae_newly = ai.newly.iter().any(|i| s.pkts[*i].ae);
            let ae_any = ae_newly || ai.late.iter().any(|i| s.pkts[*i].ae);
            let required = ai.largest_before == Some(St::Out) && ae_newly;
            let allowed = matches!(ai.largest_before, Some(St::Out) | Some(St::Lost)) && ae_any;
            let changed = post.latest != pre.latest
                || post.has_sample != pre.has_sample
                || (pre.has_sample && (post.srtt != pre.srtt || post.rttvar != pre.rttvar || post.min_rtt != pre.min_rtt));
            if required || (allowed && changed) {
                let l = now - s.pkts[ai.largest_idx.unwrap()].t;
                self.stats.rtt_samples += 1;
                ensure_eq!(post.latest, l, "rtt-latest", "step {step} ack: latest_rtt after a sample for pn {} (space {})", ai.largest, ai.sp);
                ensure!(post.has_sample, "rtt-first-sample-flag", "step {step}: sample taken but first_rtt_sample unset");
                if !pre.has_sample {
                    ensure_eq!(post.srtt, l, "rtt-first-srtt", "step {step}: smoothed_rtt after the first sample");
                    ensure_eq!(post.rttvar, l / 2, "rtt-first-rttvar", "step {step}: rttvar after the first sample");
                    ensure_eq!(post.min_rtt, l, "rtt-first-min", "step {step}: min_rtt after the first sample");
                } else {
                    let min_rtt = pre.min_rtt.min(l);
                    ensure_eq!(post.min_rtt, min_rtt, "rtt-min", "step {step}: min_rtt");
                    // the acknowledgement delay actually subtracted may be clamped (max_ack_delay)
                    let hi = l;
                    let lo = l.saturating_sub(ai.delay_ns).max(min_rtt);
                    let s_lo = pre.srtt / 8 * 7 + lo / 8;
                    let s_hi = pre.srtt / 8 * 7 + hi / 8;
                    ensure!(
                        post.srtt + tol(post.srtt) + 8 >= s_lo && post.srtt <= s_hi + tol(s_hi) + 8,
                        "rtt-smoothed",
                        "step {step}: smoothed_rtt {} outside [{s_lo}, {s_hi}] (prev {}, latest {l}, ack_delay {})",
                        post.srtt, pre.srtt, ai.delay_ns
                    );
                    let d_lo = pre.srtt.abs_diff(lo);
                    let d_hi = pre.srtt.abs_diff(hi);
                    let d_min = if lo <= pre.srtt && pre.srtt <= hi { 0 } else { d_lo.min(d_hi) };
                    let d_max = d_lo.max(d_hi);
                    let v_lo = pre.rttvar / 4 * 3 + d_min / 4;
                    let v_hi = pre.rttvar / 4 * 3 + d_max / 4;
                    ensure!(
                        post.rttvar + tol(post.rttvar) + 8 >= v_lo && post.rttvar <= v_hi + tol(v_hi) + 8,
                        "rtt-var",
                        "step {step}: rttvar {} outside [{v_lo}, {v_hi}] (prev {}, srtt {}, latest {l})",
                        post.rttvar, pre.rttvar, pre.srtt
                    );
                }
            } else {
                ensure!(
                    post.latest == pre.latest && post.min_rtt == pre.min_rtt && post.has_sample == pre.has_sample,
                    "rtt-sample-unjustified",
                    "step {step} ack: RTT sample taken although the largest acknowledged pn {} is not newly acknowledged together with an ack-eliciting packet",
                    ai.largest
                );
                if pre.has_sample {
                    ensure!(post.srtt == pre.srtt && post.rttvar == pre.rttvar, "rtt-changed-without-sample", "step {step} ack: smoothed_rtt/rttvar changed without a sample");
                }
            }
        } else {
            ensure!(
                post.latest == pre.latest && post.min_rtt == pre.min_rtt && post.has_sample == pre.has_sample,
                "rtt-changed-without-ack",
                "step {step} {what}: latest/min rtt changed without an acknowledgement"
            );
            if pre.has_sample {
                ensure!(post.srtt == pre.srtt && post.rttvar == pre.rttvar, "rtt-changed-without-ack", "step {step} {what}: smoothed_rtt/rttvar changed without an acknowledgement");
            }
        }

        // ---- clause 1 + 2: every pn reported through may_loss ------------------------------
        // the estimator state loss detection worked with in this op
        let ld = if post.has_sample { post.loss_delay() } else { pre.loss_delay() };
        let mut lost_now: Vec<(usize, usize)> = vec![];
        for sp in 0..3 {
            let pns = std::mem::take(&mut *self.trackers[sp].0.lock().unwrap());
            for pn in pns {
                ensure!(
                    pn >= self.sp[sp].dead_below,
                    "lost-after-discard",
                    "step {step} {what}: pn {pn} of discarded space {sp} reported lost"
                );
                let Some(idx) = self.sp[sp].find(pn) else {
                    fail!("lost-unknown-pn", "step {step} {what}: pn {pn} reported lost in space {sp} but never sent on this path");
                };
                let p = self.sp[sp].pkts[idx];
                match p.st {
                    St::Acked | St::LostAcked => fail!("acked-then-lost", "step {step} {what}: pn {pn} (space {sp}) was acknowledged and is now reported lost"),
                    St::Lost => fail!("lost-twice", "step {step} {what}: pn {pn} (space {sp}) reported lost twice"),
                    St::Out => {}
                }
                let la = self.sp[sp].largest_acked;
                let larger_acked = la.is_some_and(|l| l > pn);
                let by_count = la.is_some_and(|l| l >= pn + 3);
                let age = now - p.t;
                let by_time = age + tol(ld) >= ld;
                ensure!(
                    by_count || by_time,
                    "lost-too-early",
                    "step {step} {what}: pn {pn} (space {sp}) declared lost at age {age} ns; largest acked {la:?}; time threshold {ld} ns"
                );
                if !larger_acked {
                    self.stats.lost_time_only += 1;
                    self.known(
                        ctx,
                        K_TIME_ONLY,
                        format!("step {step} {what}: pn {pn} (space {sp}) declared lost at age {age} ns although no larger packet number was acknowledged (largest acked {la:?})"),
                    )?;
                } else if by_count {
                    self.stats.lost_by_count += 1;
                } else {
                    self.stats.lost_by_time_with_ack += 1;
                }
                self.sp[sp].pkts[idx].st = St::Lost;
                lost_now.push((sp, idx));
            }
        }

        // ---- clause 5: bytes in flight and the outstanding set ------------------------------
        let mut exp_bif = 0usize;
        for sp in 0..3 {
            let s = &self.sp[sp];
            let mut outs = s.pkts.iter().filter(|p| p.st == St::Out);
            for g in &post.raw.spaces[sp].packets {
                match g.state {
                    0 => {
                        let Some(o) = outs.next() else {
                            fail!("outstanding-mismatch", "step {step} {what}: space {sp} still tracks pn {} as outstanding; the model has no such packet (acked, lost or discarded)", g.pn);
                        };
                        ensure!(
                            g.pn == o.pn && g.sent_bytes == o.size && g.ack_eliciting == o.ae && g.in_flight == o.inflight && self.ns(g.time_sent) == o.t,
                            "outstanding-mismatch",
                            "step {step} {what}: space {sp} outstanding packet {g:?} vs model {o:?}"
                        );
                    }
                    1 => {
                        let st = s.find(g.pn).map(|i| s.pkts[i].st);
                        ensure!(matches!(st, Some(St::Acked) | Some(St::LostAcked)), "state-mismatch", "step {step} {what}: space {sp} pn {} marked acknowledged, model {st:?}", g.pn);
                    }
                    _ => {
                        let st = s.find(g.pn).map(|i| s.pkts[i].st);
                        ensure!(matches!(st, Some(St::Lost)), "lost-not-reported", "step {step} {what}: space {sp} pn {} marked lost internally but the model has {st:?} (not reported through may_loss?)", g.pn);
                    }
                }
            }
            if let Some(o) = outs.next() {
                fail!("outstanding-mismatch", "step {step} {what}: space {sp} no longer tracks pn {} which is neither acknowledged, lost nor discarded", o.pn);
            }
            exp_bif += s.pkts.iter().filter(|p| p.st == St::Out && p.inflight).map(|p| p.size).sum::<usize>();
        }
        ensure_eq!(post.bif, exp_bif, "bif-mismatch", "step {step} {what}: bytes_in_flight vs sum of outstanding in-flight packet sizes");

        // ---- clause 4: congestion window ------------------------------------------------------
        ensure!(post.cwnd >= 2 * mtu, "cwnd-below-minimum", "step {step} {what}: cwnd {} < 2 * {mtu}", post.cwnd);
        if post.cwnd == 2 * mtu {
            self.stats.min_cwnd_hit = true;
        }
        let rec_before = self.rec_start;
        let tainted_before = self.tainted;
        let after_rec = |t: u64| rec_before.is_none_or(|r| t > r);
        // growth credit: acknowledged in-flight bytes of packets sent after the recovery start
        let mut credit = 0usize;
        let mut any_acked = false;
        let mut ce_trigger_ok = false;
        if let Some(ai) = &info.ack {
            let s = &self.sp[ai.sp];
            for i in ai.newly.iter().chain(ai.late.iter()) {
                let p = &s.pkts[*i];
                any_acked = true;
                if p.inflight && after_rec(p.t) {
                    credit += p.size;
                }
            }
            if ai.ce_up {
                let largest_newly = ai.newly.iter().chain(ai.late.iter()).map(|i| s.pkts[*i]).max_by_key(|p| p.pn);
                let largest_new_only = ai.newly.iter().map(|i| s.pkts[*i]).max_by_key(|p| p.pn);
                ce_trigger_ok = largest_newly.is_some_and(|p| after_rec(p.t)) || largest_new_only.is_some_and(|p| after_rec(p.t));
            }
        }
        let lost_inflight: Vec<MPkt> = lost_now.iter().map(|(sp, i)| self.sp[*sp].pkts[*i]).filter(|p| p.inflight).collect();
        let newest_lost = lost_inflight.iter().map(|p| p.t).max();
        let j_loss = newest_lost.is_some_and(after_rec);
        let j_ce = ce_trigger_ok;
        // RFC 9002 7.6 persistent congestion (lenient form: span of the ack-eliciting losses)
        let pc_duration = 3 * (pre.pto_base().min(post.pto_base()));
        let ae_lost: Vec<u64> = lost_now.iter().map(|(sp, i)| self.sp[*sp].pkts[*i]).filter(|p| p.ae).map(|p| p.t).collect();
        let j_pc = post.has_sample
            && ae_lost.len() >= 2
            && ae_lost.iter().max().unwrap() - ae_lost.iter().min().unwrap() >= pc_duration;
        // three packets adjacent in the send order lost in one detection: the implementation's
        // own "persistent" heuristic, which halves cwnd and forgets the recovery start
        let mut run3 = false;
        for sp in 0..3 {
            let mut idx: Vec<usize> = lost_now.iter().filter(|(s, _)| *s == sp).map(|(_, i)| *i).collect();
            idx.sort_unstable();
            run3 |= idx.windows(3).any(|w| w[1] == w[0] + 1 && w[2] == w[1] + 1);
        }
        if !lost_now.is_empty() {
            self.stats.loss_events += 1;
        }
        if run3 {
            self.stats.run3 += 1;
        }
        if info.ack.as_ref().is_some_and(|a| a.ce_up) {
            self.stats.ce_events += 1;
        }
        if post.cwnd > pre.cwnd + credit {
            self.stats.grows += 1;
            let msg = format!(
                "step {step} {what}: cwnd grew {} -> {} but only {credit} in-flight bytes sent after the recovery start ({rec_before:?}) were acknowledged",
                pre.cwnd, post.cwnd
            );
            if info.ack.is_none() || !any_acked {
                fail!("cwnd-grow-without-ack", "{msg}");
            } else if tainted_before {
                self.known(ctx, K_GROW_RUN, msg)?;
            } else {
                fail!("cwnd-grow-in-recovery", "{msg}");
            }
        } else if post.cwnd > pre.cwnd {
            self.stats.grows += 1;
        }
        if post.cwnd < pre.cwnd {
            self.stats.shrinks += 1;
            if !(j_loss || j_ce || j_pc) {
                let msg = format!(
                    "step {step} {what}: cwnd shrank {} -> {} inside the recovery period started at {rec_before:?} ns (newest lost in-flight packet sent at {newest_lost:?}, CE increase {})",
                    pre.cwnd, post.cwnd, info.ack.as_ref().is_some_and(|a| a.ce_up)
                );
                if tainted_before || run3 {
                    self.known(ctx, K_SHRINK_RUN, msg)?;
                } else if lost_inflight.is_empty() && !info.ack.as_ref().is_some_and(|a| a.ce_signal) {
                    fail!("cwnd-shrink-without-congestion-signal", "{msg}");
                } else {
                    fail!("cwnd-shrink-in-recovery", "{msg}");
                }
            }
        }
        // the model's recovery period starts at every *observed* reduction ("at most once per
        // round trip" is a statement about the reductions that happen)
        if post.cwnd < pre.cwnd {
            self.rec_start = Some(now);
            self.tainted = false;
        }
        if j_pc {
            // RFC 9002 7.6.2: persistent congestion ends the recovery period
            self.rec_start = None;
        }
        if run3 {
            self.tainted = true;
        }

        // ---- clause 3: timers and probe timeouts ------------------------------------------
        let eligible_ae = (0..3).any(|sp| (sp != 2 || self.confirmed) && self.sp[sp].pkts.iter().any(|p| p.st == St::Out && p.ae));
        if eligible_ae && !self.at_limit {
            ensure!(
                post.timer.is_some(),
                "inflight-without-timer",
                "step {step} {what}: ack-eliciting packets are in flight but the loss detection timer is not armed"
            );
        }
        ensure!(post.pc <= 10, "pto-count-unbounded", "step {step} {what}: pto_count {}", post.pc);
        let need_up = (post.need_total() + info.ae_sent).saturating_sub(pre.need_total());
        if post.pc > pre.pc {
            ensure!(info.is_tick || what == "pkt-rcvd", "pto-outside-timeout", "step {step} {what}: pto_count {} -> {} outside a timer expiry", pre.pc, post.pc);
            ensure_eq!(post.pc, pre.pc + 1, "pto-count-jump", "step {step} {what}: pto_count");
            ensure!(
                pre.timer.is_some_and(|t| t <= now),
                "pto-before-deadline",
                "step {step} {what}: PTO fired at {now} but the timer was {:?}",
                pre.timer
            );
            ensure!(
                (1..=2).contains(&need_up),
                "pto-without-probe",
                "step {step} {what}: PTO expired (pto_count {}) but {need_up} ack-eliciting probes were requested",
                post.pc
            );
            self.stats.ptos += 1;
            self.pto_fired_at.push(now);
        } else if info.is_tick {
            ensure!(need_up == 0, "probe-without-pto-count", "step {step} {what}: {need_up} probe packets requested but pto_count stayed {}", post.pc);
        }
        // RFC 9002 A.7 OnAckReceived: "Reset pto_count unless the client is unsure if the server has
        // validated the client's address": the back-off of a client whose address may be unvalidated
        // keeps doubling although its probes are acknowledged (anti-deadlock probing, §6.2.2.1)
        if let Some(a) = info.ack.as_ref() {
            if !info.first_discard && !info.repeated_discard {
                if !info.peer_validated {
                    ensure!(
                        post.pc >= pre.pc,
                        "pto-count-reset-before-address-validation",
                        "step {step} {what}: pto_count {} -> {} on an ACK although this client has neither received a Handshake ACK nor confirmed the handshake",
                        pre.pc,
                        post.pc
                    );
                } else if !a.newly.is_empty() {
                    ensure!(
                        post.pc == 0,
                        "pto-count-not-reset-on-ack",
                        "step {step} {what}: pto_count {} -> {} although {} packets were newly acknowledged and the peer has validated the address",
                        pre.pc,
                        post.pc,
                        a.newly.len()
                    );
                }
            }
        }
        if post.pc < pre.pc {
            let ack_reset = info.ack.as_ref().is_some_and(|a| !a.newly.is_empty() || !a.late.is_empty());
            if !(ack_reset || info.first_discard) {
                let msg = format!(
                    "step {step} {what}: pto_count {} -> {} without a newly acknowledged packet or a first-time space discard",
                    pre.pc, post.pc
                );
                if info.repeated_discard {
                    self.known(ctx, K_PTO_RESET, msg)?;
                } else {
                    fail!("pto-count-reset-unjustified", "{msg}");
                }
            }
        }
        if info.tick_err {
            ensure!(
                post.pc > pre.pc && post.pc >= 3,
                "abandon-without-pto",
                "step {step}: do_tick returned TooManyPtos with pto_count {} -> {}",
                pre.pc, post.pc
            );
            self.stats.abandoned = true;
        }
        // PTO period with exponential backoff (RFC 9002 6.2.1): get_pto()
        for sp in 0..3 {
            let want = (post.pto_base() + if sp == 2 { self.mad } else { 0 }) << post.pc;
            if post.get_pto[sp] + tol(want) < want {
                let msg = format!(
                    "step {step} {what}: get_pto(space {sp}) = {} ns with pto_count {}, RFC 9002 period (srtt {} + max(4*rttvar {}, 1ms){}) * 2^{} = {want} ns",
                    post.get_pto[sp], post.pc, post.srtt, post.rttvar, if sp == 2 { " + max_ack_delay" } else { "" }, post.pc
                );
                if post.pc >= 1 {
                    self.known(ctx, K_PTO_GETPTO, msg)?;
                } else {
                    fail!("pto-period-too-short", "{msg}");
                }
            }
        }
        // the armed probe timer itself, in the op that (re)armed it
        if let Some(t) = post.timer {
            if post.timer != pre.timer && post.loss_time.iter().all(|l| l.is_none()) {
                let any_ae = (0..3).any(|sp| self.sp[sp].pkts.iter().any(|p| p.st == St::Out && p.ae));
                let want = if !any_ae {
                    Some(now + (post.pto_base() << post.pc))
                } else {
                    (0..3)
                        .filter(|sp| (*sp != 2 || self.confirmed) && self.sp[*sp].pkts.iter().any(|p| p.st == St::Out && p.ae))
                        .filter_map(|sp| self.sp[sp].last_ae.map(|l| l + ((post.pto_base() + if sp == 2 { self.mad } else { 0 }) << post.pc)))
                        .min()
                };
                if let Some(want) = want {
                    if t + tol(want - now.min(want)) < want {
                        let msg = format!(
                            "step {step} {what}: probe timer armed for {t} ns (now {now}) with pto_count {}; RFC 9002 earliest expiry {want} ns (srtt {}, rttvar {})",
                            post.pc, post.srtt, post.rttvar
                        );
                        if post.pc >= 1 {
                            self.known(ctx, K_PTO_TIMER, msg)?;
                        } else {
                            fail!("pto-timer-too-early", "{msg}");
                        }
                    }
                }
            }
        }
        Ok(())
    }

    /// bounded form of "eventually": a silent period long enough for every RFC timer
    async fn quiesce(&mut self, probe: bool, pre: Snap, ctx: &mut CaseCtx) -> Outcome {
        if self.at_limit || self.stats.abandoned {
            return Ok(());
        }
        let start = self.now();
        let watch: Vec<(usize, u64)> = (0..3)
            .filter(|sp| *sp != 2 || self.confirmed)
            .flat_map(|sp| self.sp[sp].pkts.iter().filter(|p| p.st == St::Out && p.ae).map(move |p| (sp, p.pn)))
            .collect();
        // loss times are armed with the loss delay current at that moment, so the largest value
        // the estimator ever produced bounds them; before the first sample the implementation
        // backs its initial RTT off up to 333 ms (loss delay 375 ms)
        let ld = if pre.has_sample { self.max_ld.get() } else { self.max_ld.get().max(375 * MS) };
        let span = (2 * ((ld.max(pre.pto_base()) + self.mad) << pre.pc.min(10)) + 200 * MS).min(3_600_000 * MS);
        let span = span.div_ceil(TICK) * TICK;
        let ptos_before = self.pto_fired_at.len();
        self.drive(span, probe, pre, ctx).await?;
        let probed = self.pto_fired_at.len() > ptos_before;
        for (sp, pn) in watch {
            let st = self.sp[sp].find(pn).map(|i| self.sp[sp].pkts[i].st);
            ensure!(
                st != Some(St::Out) || probed || self.stats.abandoned,
                "stuck-in-flight",
                "ack-eliciting pn {pn} (space {sp}) outstanding at {start} ns is neither acknowledged, lost nor probed after {span} ns of silence"
            );
        }
        Ok(())
    }

    fn classify(&self, ctx: &mut CaseCtx) {
        let s = &self.stats;
        let mut c = |b: bool, l: &str| {
            if b {
                ctx.class(l);
            }
        };
        c(self.server, "role:server");
        c(!self.server, "role:client");
        c(self.obey_quota, "quota-obeyed");
        c(self.confirmed, "handshake-confirmed");
        c(s.reorder_acks > 0, "ack:reordering");
        c(s.hole_acks > 0, "ack:with-hole");
        c(s.late_acks > 0, "ack:of-lost-packet");
        c(s.rtt_samples > 0, "rtt-sample");
        c(s.rtt_samples >= 3, "rtt-sample>=3");
        c(s.ptos > 0, "pto");
        c(s.ptos >= 2, "pto>=2");
        c(s.ptos > 0 && self.server, "pto:server");
        c(s.abandoned, "abandoned(TooManyPtos)");
        c(s.loss_events > 0, "loss-event");
        c(s.loss_events >= 4, "loss-event>=4");
        c(s.lost_by_count > 0, "lost:packet-threshold");
        c(s.lost_by_time_with_ack > 0, "lost:time-threshold-with-larger-ack");
        c(s.lost_time_only > 0, "lost:no-larger-ack");
        c(s.shrinks > 0, "cwnd-shrink");
        c(s.shrinks >= 3, "cwnd-shrink>=3");
        c(s.grows > 0, "cwnd-grow");
        c(s.ce_events > 0, "ecn-ce-increase");
        c(s.run3 > 0, "3-consecutive-lost");
        c(s.min_cwnd_hit, "cwnd-at-minimum");
        c(s.quota_blocked > 0, "quota-blocked");
        c(s.over_window > 0, "bif>cwnd+mtu-with-quota");
        c(s.discards > 0, "space-discard");
        c(s.probes_sent > 0, "probe-sent");
        if s.reorder_acks > 0 && s.ptos > 0 && s.loss_events > 0 {
            ctx.class("NONTRIVIAL");
            ctx.nontrivial();
        }
        ctx.note(json!({
            "sends": s.sends, "acks": s.acks, "reorder_acks": s.reorder_acks, "ptos": s.ptos,
            "loss_events": s.loss_events, "cwnd_shrinks": s.shrinks, "cwnd_grows": s.grows,
            "rtt_samples": s.rtt_samples, "steps": self.steps,
        }));
    }
}

fn run_case(case: &Case, ctx: &mut CaseCtx, known: Arc<Vec<String>>) -> Outcome {
    let rt = tokio::runtime::Builder::new_current_thread()
        .enable_time()
        .start_paused(true)
        .build()
        .map_err(|e| Fail::new("harness", format!("runtime: {e}")))?;
    rt.block_on(async {
        let mut run = Run::new(case, known);
        let r = async {
            let mut snap = run.snap();
            ensure!(snap.cwnd >= 2 * run.mtu, "cwnd-below-minimum", "initial cwnd {}", snap.cwnd);
            ensure_eq!(snap.bif, 0, "bif-mismatch", "initial bytes_in_flight");
            for op in &case.ops {
                if run.stats.abandoned {
                    break;
                }
                snap = run.exec(op, snap, ctx).await?;
            }
            if case.quiesce > 0 {
                run.quiesce(case.quiesce >= 2, snap, ctx).await?;
            }
            Ok(())
        }
        .await;
        run.classify(ctx);
        r
    })
}

// ---------------------------------------------------------------------------
// generators
// ---------------------------------------------------------------------------

#[derive(Clone, Copy)]
struct Weights {
    send: u32,
    ack: u32,
    adv: u32,
    tick: u32,
    drive: u32,
    rcvd: u32,
    flag: u32,
    /// weight of the Data epoch among sends / acks (out of 10)
    data: u32,
}

fn op_strategy(w: Weights) -> BoxedStrategy<Op> {
    let epoch = prop_oneof![(10 - w.data) => 0u8..2, w.data => Just(2u8)];
    let send = (
        epoch.clone(),
        prop_oneof![8 => Just(0u8), 1 => Just(1u8), 1 => Just(2u8)],
        prop_oneof![3 => Just(1500u16), 2 => 20u16..=1500, 1 => 20u16..=120],
        prop_oneof![9 => Just(0u8), 1 => 1u8..=3],
        prop_oneof![4 => Just(1u8), 3 => 2u8..=5, 2 => 6u8..=14],
    )
        .prop_map(|(epoch, kind, size, skip, n)| Op::Send { epoch, kind, size, skip, n });
    let ack = (
        epoch,
        prop_oneof![6 => Just(0u8), 3 => 1u8..=4, 1 => 0u8..=40],
        prop_oneof![3 => 0u8..=2, 4 => 0u8..=16, 2 => any::<u8>()],
        proptest::collection::vec((prop_oneof![3 => 0u8..=2, 1 => 0u8..=12], prop_oneof![3 => 0u8..=3, 1 => 0u8..=20]), 0..=3),
        prop_oneof![4 => Just(0u32), 3 => 1u32..=25_000, 1 => 0u32..=400_000],
        prop_oneof![7 => Just(0u8), 2 => Just(1u8), 1 => 2u8..=3],
    )
        .prop_map(|(epoch, top, first, more, delay_us, ce)| Op::Ack { epoch, top, first, more, delay_us, ce });
    let adv = prop_oneof![
        1 => Just(0u32),
        3 => 1u32..=5_000,
        5 => 5_000u32..=60_000,
        2 => 60_000u32..=400_000,
        1 => 400_000u32..=10_000_000,
    ]
    .prop_map(|us| Op::Advance { us });
    let drive = (prop_oneof![4 => 1u16..=8, 3 => 1u16..=40, 1 => 1u16..=400], any::<bool>()).prop_map(|(ticks, probe)| Op::Drive { ticks, probe });
    let rcvd = (0u8..3, any::<bool>()).prop_map(|(epoch, ae)| Op::PktRcvd { epoch, ae });
    let flag = prop_oneof![3 => Just(0u8), 2 => Just(1u8), 1 => Just(2u8), 1 => Just(3u8), 1 => Just(4u8)].prop_map(|which| Op::Flag { which });
    prop_oneof![
        w.send => send,
        w.ack => ack,
        w.adv => adv,
        w.tick => Just(Op::Tick),
        w.drive => drive,
        w.rcvd => rcvd,
        w.flag => flag,
    ]
    .boxed()
}

fn case_strategy(max_ops: usize) -> BoxedStrategy<Case> {
    // profiles: mixed / bulk data with acknowledgements / lossy and silent / handshake phase
    let profiles = [
        Weights { send: 5, ack: 4, adv: 4, tick: 2, drive: 2, rcvd: 1, flag: 1, data: 6 },
        Weights { send: 6, ack: 6, adv: 5, tick: 1, drive: 1, rcvd: 0, flag: 1, data: 9 },
        Weights { send: 5, ack: 1, adv: 3, tick: 2, drive: 4, rcvd: 0, flag: 1, data: 7 },
        Weights { send: 4, ack: 3, adv: 3, tick: 2, drive: 4, rcvd: 1, flag: 1, data: 2 },
    ];
    (0usize..4)
        .prop_flat_map(move |p| {
            (
                any::<bool>(),
                0u8..4,
                prop_oneof![2 => Just(25u8), 1 => Just(0u8), 1 => 0u8..=200],
                prop_oneof![3 => Just(true), 1 => Just(false)],
                proptest::collection::vec(op_strategy(profiles[p]), 1..=max_ops),
                0u8..3,
            )
        })
        .prop_map(|(server, mtu_sel, mad_ms, obey_quota, ops, quiesce)| Case { server, mtu_sel, mad_ms, obey_quota, ops, quiesce })
        .boxed()
}

/// alphabet of the exhaustive stage
fn small_alphabet() -> Vec<Op> {
    vec![
        Op::Send { epoch: 2, kind: 0, size: 1200, skip: 0, n: 1 },
        Op::Send { epoch: 2, kind: 0, size: 1200, skip: 0, n: 4 },
        Op::Advance { us: 20_000 },
        Op::Drive { ticks: 8, probe: false },
        Op::Ack { epoch: 2, top: 0, first: 0, more: vec![], delay_us: 0, ce: 0 },
        Op::Ack { epoch: 2, top: 1, first: 0, more: vec![], delay_us: 1000, ce: 0 },
        Op::Ack { epoch: 2, top: 0, first: 255, more: vec![], delay_us: 0, ce: 0 },
        Op::Ack { epoch: 2, top: 0, first: 0, more: vec![(0, 0)], delay_us: 0, ce: 2 },
    ]
}

fn main() {
    let mut check = Check::from_env("C13", "exploration");
    check.rule(
        "case = role, mtu, max_ack_delay, quota discipline + history over {send(n packets, epoch, size, ack-eliciting/in-flight kind, pn gaps), \
         ack(ranges, delay, ECN-CE), advance(0..10 s), tick, drive(10 ms ticks, with/without answering probe requests), pkt_rcvd, handshake-phase flags} \
         + optional final silent period; every op is followed by a snapshot-vs-model comparison. non-trivial = history with >=1 reordering ack \
         (newly acknowledges a pn below the largest acknowledged so far), >=1 PTO expiry and >=1 loss event; exhaustive stage: every word of length <= K \
         over an 8-letter alphabet (1/4 sends, 20 ms, 80 ms of drive, ack newest / second newest / all / SACK+CE), non-trivial there = >=1 loss event and >=1 RTT sample. \
         distinct = by hash of the serialised case.",
    );
    check.assume("packet numbers per space are strictly increasing (gaps = packets of the same space sent on another path); ACK frames only name packet numbers below the next one");
    check.assume("ack-eliciting packets are always in flight; sizes are 20..=mtu; the mtu is constant within a case");
    check.assume("the initial RTT (33 ms) and its 9/8 back-off before the first sample are implementation choices and are taken from the snapshot");
    check.assume("spaces are discarded only the way the connection does it (client: on sending Handshake; server: on a Handshake ACK; both at handshake confirmation)");
    check.assume("'eventually' is checked in bounded form: after a silence of 2*(max(loss delay, PTO)+max_ack_delay)*2^pto_count + 200 ms every ack-eliciting packet is lost or a PTO fired");

    let known: Arc<Vec<String>> = Arc::new(vcore::load_known_findings("C13").into_iter().map(|k| k.signature).collect());

    // ---- exhaustive small histories (steady state, client, handshake confirmed)
    let kmax = if check.quick() { 5 } else { 7 };
    {
        let known = known.clone();
        check.exhaustive::<Case, _>("exhaustive-small", true, move |e| {
            let alpha = small_alphabet();
            let mut word: Vec<usize> = vec![];
            fn rec(e: &mut vcore::Enumerator<Case>, alpha: &[Op], word: &mut Vec<usize>, kmax: usize, known: &Arc<Vec<String>>) {
                if e.stopped() {
                    return;
                }
                if !word.is_empty() {
                    let mut ops = vec![Op::Flag { which: 0 }, Op::Flag { which: 1 }];
                    ops.extend(word.iter().map(|i| alpha[*i].clone()));
                    let case = Case { server: false, mtu_sel: 0, mad_ms: 25, obey_quota: false, ops, quiesce: 1 };
                    e.case(&case, |c, ctx| {
                        let r = run_case(c, ctx, known.clone());
                        let nt = ctx.classes.iter().any(|c| c == "loss-event") && ctx.classes.iter().any(|c| c == "rtt-sample");
                        ctx.nontrivial = nt;
                        r
                    });
                }
                if word.len() < kmax {
                    for i in 0..alpha.len() {
                        // a history starts with a send
                        if word.is_empty() && i > 1 {
                            continue;
                        }
                        word.push(i);
                        rec(e, alpha, word, kmax, known);
                        word.pop();
                    }
                }
            }
            rec(e, &alpha, &mut word, kmax, &known);
        });
    }

    // ---- random histories
    let n = check.pick(150_000, 2_000_000);
    {
        let known = known.clone();
        check.stage("random-histories", n, 16, || case_strategy(70), move |c: &Case, ctx: &mut CaseCtx| run_case(c, ctx, known.clone()));
    }
    // ---- long histories (many recovery rounds, cwnd floor)
    let n = check.pick(12_000, 150_000);
    {
        let known = known.clone();
        check.stage("random-long", n, 16, || case_strategy(300), move |c: &Case, ctx: &mut CaseCtx| run_case(c, ctx, known.clone()));
    }
    check.finish();
}
