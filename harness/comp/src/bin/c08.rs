//! C08 — the receive buffer reassembles any fragment sequence into the original bytes.
//!
//! Oracle: per-byte coverage map + read cursor (reference model), compared with
//! `RecvBuf` after every operation; the same histories are replayed through the
//! crypto stream receiver (`CryptoStreamIncoming` / `CryptoStreamReader`).

use std::{
    pin::Pin,
    task::{Context, Poll},
};

use bytes::Bytes;
use proptest::prelude::*;
use qbase::{
    frame::{CryptoFrame, io::ReceiveFrame},
    varint::VarInt,
};
use qrecovery::{crypto::CryptoStream, recv::RecvBuf};
use serde::{Deserialize, Serialize};
use serde_json::json;
use tokio::io::{AsyncRead, ReadBuf};
use vcore::{CaseCtx, Check, Outcome, ensure, ensure_eq, gens};

#[derive(Debug, Clone, Serialize, Deserialize, PartialEq)]
enum Op {
    /// fragment [off, off+len) of the content
    Recv { off: u32, len: u32 },
    /// try_read into a buffer of n bytes
    Read { n: u32 },
    /// try_next
    Next,
}

#[derive(Debug, Clone, Serialize, Deserialize)]
struct Case {
    len: u32,
    ops: Vec<Op>,
}

/// Reference model.
struct Model {
    content: Vec<u8>,
    covered: Vec<bool>,
    nread: usize,
    largest: usize,
    reported: u64,
}

impl Model {
    fn new(len: usize) -> Self {
        Self {
            content: gens::content(8, 0, len),
            covered: vec![false; len],
            nread: 0,
            largest: 0,
            reported: 0,
        }
    }
    fn available(&self) -> usize {
        self.covered[self.nread..].iter().take_while(|c| **c).count()
    }
    fn any_unread(&self) -> bool {
        self.covered[self.nread..].iter().any(|c| *c)
    }
    /// maximal covered runs in the unread region
    fn islands(&self) -> Vec<(usize, usize)> {
        let mut out = vec![];
        let mut i = self.nread;
        while i < self.covered.len() {
            if self.covered[i] {
                let s = i;
                while i < self.covered.len() && self.covered[i] {
                    i += 1;
                }
                out.push((s, i));
            } else {
                i += 1;
            }
        }
        out
    }
    /// returns expected "newly covered" report
    fn recv(&mut self, off: usize, len: usize) -> u64 {
        let end = off + len;
        let before = self.largest;
        // only data at or above the read cursor is stored; the highest offset
        // seen can only grow through non-empty, not-yet-read data
        let start = off.max(self.nread);
        if start < end {
            for c in &mut self.covered[start..end] {
                *c = true;
            }
            self.largest = self.largest.max(end);
        }
        (self.largest - before) as u64
    }
}

fn compare(buf: &RecvBuf, m: &Model, step: usize) -> Outcome {
    ensure_eq!(buf.nread(), m.nread as u64, "nread", "step {step}: nread");
    ensure_eq!(
        buf.available(),
        m.available() as u64,
        "available",
        "step {step}: available()"
    );
    ensure_eq!(
        buf.is_readable(),
        m.available() > 0,
        "is_readable",
        "step {step}: is_readable()"
    );
    ensure_eq!(
        buf.largest_offset(),
        m.largest as u64,
        "largest_offset",
        "step {step}: largest_offset()"
    );
    ensure_eq!(
        buf.is_empty(),
        !m.any_unread(),
        "is_empty",
        "step {step}: is_empty()"
    );
    Ok(())
}

fn run_recvbuf(case: &Case, ctx: &mut CaseCtx) -> Outcome {
    let l = case.len as usize;
    let mut m = Model::new(l);
    let mut buf = RecvBuf::default();
    let mut produced: Vec<u8> = vec![];
    let mut max_islands = 0usize;
    let mut bridged = false;
    let mut had_overlap = false;
    let mut had_dup = false;
    let mut had_below_cursor = false;
    for (step, op) in case.ops.iter().enumerate() {
        match op {
            Op::Recv { off, len } => {
                let (off, len) = (*off as usize, *len as usize);
                ensure!(off + len <= l, "harness", "fragment outside content");
                let isl = m.islands();
                let touching = isl
                    .iter()
                    .filter(|(s, e)| *s < off + len && off < *e)
                    .count();
                if touching >= 2 && max_islands >= 3 {
                    bridged = true;
                }
                if touching >= 1 {
                    had_overlap = true;
                }
                if len > 0 && isl.iter().any(|(s, e)| *s <= off && off + len <= *e) {
                    had_dup = true;
                }
                if off < m.nread && len > 0 {
                    had_below_cursor = true;
                }
                let data = Bytes::copy_from_slice(&m.content[off..off + len]);
                let got = buf.recv(off as u64, data);
                let want = m.recv(off, len);
                m.reported += got;
                ensure_eq!(got, want, "recv-return", "step {step}: recv({off},{len}) newly covered");
                max_islands = max_islands.max(m.islands().len());
            }
            Op::Read { n } => {
                let n = *n as usize;
                let mut dst = vec![0u8; n];
                let mut slice: &mut [u8] = &mut dst[..];
                let got = buf.try_read(&mut slice);
                let want = n.min(m.available());
                ensure_eq!(got, want, "read-len", "step {step}: try_read({n}) length");
                ensure_eq!(
                    &dst[..got],
                    &m.content[m.nread..m.nread + want],
                    "read-bytes",
                    "step {step}: try_read({n}) bytes at offset {}",
                    m.nread
                );
                produced.extend_from_slice(&dst[..got]);
                m.nread += want;
            }
            Op::Next => {
                let got = buf.try_next();
                let avail = m.available();
                match got {
                    None => ensure!(avail == 0, "next-none", "step {step}: try_next() = None with {avail} contiguous bytes available"),
                    Some(b) => {
                        ensure!(
                            !b.is_empty() && b.len() <= avail,
                            "next-len",
                            "step {step}: try_next() returned {} bytes, {avail} available",
                            b.len()
                        );
                        ensure_eq!(
                            &b[..],
                            &m.content[m.nread..m.nread + b.len()],
                            "next-bytes",
                            "step {step}: try_next() bytes at offset {}",
                            m.nread
                        );
                        produced.extend_from_slice(&b);
                        m.nread += b.len();
                    }
                }
            }
        }
        compare(&buf, &m, step)?;
        ensure_eq!(
            m.reported,
            buf.largest_offset(),
            "report-sum",
            "step {step}: sum of recv() reports vs largest offset"
        );
    }
    // final drain: complete the content, then everything must come out, once
    let got = buf.recv(0, Bytes::copy_from_slice(&m.content));
    let want = m.recv(0, l);
    ensure_eq!(got, want, "recv-return", "final completing recv");
    compare(&buf, &m, usize::MAX)?;
    loop {
        let mut dst = vec![0u8; 7];
        let mut slice: &mut [u8] = &mut dst[..];
        let k = buf.try_read(&mut slice);
        if k == 0 {
            break;
        }
        produced.extend_from_slice(&dst[..k]);
    }
    ensure_eq!(produced.len(), l, "drain-len", "total bytes produced");
    ensure!(produced == m.content, "drain-bytes", "produced bytes differ from content");
    ensure!(buf.is_empty(), "drain-empty", "buffer not empty after full drain");
    ensure_eq!(buf.nread(), l as u64, "drain-nread", "nread after drain");

    ctx.class(format!("islands<={}", max_islands.min(4)));
    if had_overlap {
        ctx.class("overlap");
    }
    if had_dup {
        ctx.class("duplicate");
    }
    if had_below_cursor {
        ctx.class("below-cursor");
    }
    if bridged {
        ctx.class("bridged>=2-of>=3");
        ctx.nontrivial();
    }
    Ok(())
}

fn noop_waker_cx<R>(f: impl FnOnce(&mut Context<'_>) -> R) -> R {
    let waker = futures::task::noop_waker();
    let mut cx = Context::from_waker(&waker);
    f(&mut cx)
}

/// Same history through the crypto stream's receiving half.
fn run_crypto(case: &Case, ctx: &mut CaseCtx) -> Outcome {
    let l = case.len as usize;
    let mut m = Model::new(l);
    let stream = CryptoStream::new(Default::default());
    let incoming = stream.incoming();
    let mut reader = stream.reader();
    let mut produced = vec![];
    let mut reads = 0;
    let mut max_islands = 0;
    for (step, op) in case.ops.iter().enumerate() {
        max_islands = max_islands.max(m.islands().len());
        match op {
            Op::Recv { off, len } => {
                let (off, len) = (*off as usize, *len as usize);
                let data = Bytes::copy_from_slice(&m.content[off..off + len]);
                let frame = CryptoFrame::new(
                    VarInt::from_u64(off as u64).unwrap(),
                    VarInt::from_u64(len as u64).unwrap(),
                );
                incoming
                    .recv_frame((frame, data))
                    .map_err(|e| vcore::Fail::new("crypto-recv-err", format!("step {step}: {e:?}")))?;
                m.recv(off, len);
            }
            Op::Read { .. } | Op::Next => {
                let n = match op {
                    Op::Read { n } => *n as usize,
                    _ => 5,
                };
                let mut dst = vec![0u8; n];
                let mut rb = ReadBuf::new(&mut dst);
                let r = noop_waker_cx(|cx| Pin::new(&mut reader).poll_read(cx, &mut rb));
                let avail = m.available();
                match r {
                    Poll::Pending => ensure!(avail == 0, "crypto-pending", "step {step}: Pending with {avail} bytes available"),
                    Poll::Ready(Err(e)) => vcore::fail!("crypto-read-err", "step {step}: {e}"),
                    Poll::Ready(Ok(())) => {
                        let k = rb.filled().len();
                        ensure!(avail > 0, "crypto-ready-empty", "step {step}: Ready with nothing available");
                        ensure_eq!(k, n.min(avail), "crypto-read-len", "step {step}: read length");
                        ensure_eq!(
                            rb.filled(),
                            &m.content[m.nread..m.nread + k],
                            "crypto-read-bytes",
                            "step {step}: bytes at {}",
                            m.nread
                        );
                        produced.extend_from_slice(rb.filled());
                        m.nread += k;
                        reads += 1;
                    }
                }
            }
        }
    }
    if reads >= 1 && max_islands >= 2 {
        ctx.nontrivial();
    }
    Ok(())
}

fn op_strategy(l: u32, max_frag: u32) -> BoxedStrategy<Op> {
    let recv = (any::<u16>(), any::<u16>(), 0u8..10).prop_map(move |(a, b, kind)| {
        let off = gens::upto(a, l as u64) as u32;
        let room = l - off;
        let len = match kind {
            0 => 0,
            1 => room,                                             // to the end
            2 | 3 => gens::upto(b, room.min(3) as u64) as u32,     // tiny
            _ => gens::upto(b, room.min(max_frag) as u64) as u32,
        };
        Op::Recv { off, len }
    });
    let read = (any::<u16>(), 0u8..4).prop_map(move |(a, kind)| {
        let n = match kind {
            0 => gens::upto(a, 3) as u32,
            _ => gens::upto(a, (l + 2).min(4000) as u64) as u32,
        };
        Op::Read { n }
    });
    prop_oneof![6 => recv, 2 => read, 1 => Just(Op::Next)].boxed()
}

fn case_strategy(max_len: u32, max_ops: usize) -> BoxedStrategy<Case> {
    prop_oneof![
        3 => 1u32..=24,
        3 => 1u32..=300,
        2 => 1u32..=max_len,
    ]
    .prop_flat_map(move |l| {
        let max_frag = if l > 2000 { 1500 } else { l };
        (Just(l), proptest::collection::vec(op_strategy(l, max_frag), 0..=max_ops))
    })
    .prop_map(|(len, ops)| Case { len, ops })
    .boxed()
}

/// All fragments (off,len) with off+len ≤ l, smallest first.
fn all_fragments(l: u32) -> Vec<Op> {
    let mut v = vec![];
    for len in 0..=l {
        for off in 0..=(l - len) {
            v.push(Op::Recv { off, len });
        }
    }
    v
}

fn all_reads(l: u32) -> Vec<Op> {
    let mut v: Vec<Op> = (0..=l + 1).map(|n| Op::Read { n }).collect();
    v.push(Op::Next);
    v
}

fn main() {
    let mut check = Check::from_env("C08", "exploration");
    check.rule(
        "case = content length L + op list over {recv(off,len) slice of the content, try_read(n), try_next}; \
         random stage: L<=64k, <=200 ops, boundary-biased; exhaustive stage: every sequence of <=K fragments over L<=Lmax \
         with one read (every size, or try_next) inserted at every position. non-trivial = at some point >=3 disjoint stored \
         runs and a later fragment overlapping >=2 of them (random stages), any case with >=2 stored runs (exhaustive). \
         distinct = by hash of the serialised case.",
    );
    check.assume("fragments are slices of one fixed content (precondition of the property)");
    check.assume("an empty fragment carries no data and is not counted as 'highest offset seen'");

    // ---- exhaustive small tier
    let (lmax, kmax) = if check.quick() { (4u32, 4usize) } else { (6, 4) };
    check.exhaustive::<Case, _>("exhaustive-small", true, |e| {
        for l in 1..=lmax {
            let frags = all_fragments(l);
            let reads = all_reads(l);
            // sequences of k fragments
            let mut idx = vec![0usize; 0];
            fn rec(
                e: &mut vcore::Enumerator<Case>,
                l: u32,
                frags: &[Op],
                reads: &[Op],
                idx: &mut Vec<usize>,
                kmax: usize,
            ) {
                if e.stopped() {
                    return;
                }
                if !idx.is_empty() {
                    let base: Vec<Op> = idx.iter().map(|i| frags[*i].clone()).collect();
                    // no read
                    let case = Case { len: l, ops: base.clone() };
                    e.case(&case, |c, ctx| run_small(c, ctx));
                    // one read at each position after ≥1 fragment
                    for pos in 1..=base.len() {
                        for r in reads {
                            let mut ops = base.clone();
                            ops.insert(pos, r.clone());
                            let case = Case { len: l, ops };
                            e.case(&case, |c, ctx| run_small(c, ctx));
                        }
                    }
                }
                if idx.len() < kmax {
                    for i in 0..frags.len() {
                        idx.push(i);
                        rec(e, l, frags, reads, idx, kmax);
                        idx.pop();
                    }
                }
            }
            // bound the largest alphabet so the quick tier stays a fixed, modest amount of work
            let k = if l >= 5 { kmax.min(3) } else { kmax };
            rec(e, l, &frags, &reads, &mut idx, k);
        }
    });

    // ---- random model-based stage
    let n = check.pick(20_000, 3_000_000);
    check.stage("random-recvbuf", n, 16, || case_strategy(65_536, 200), run_recvbuf);
    let n = check.pick(6_000, 500_000);
    check.stage("random-crypto-recver", n, 16, || case_strategy(20_000, 80), run_crypto);
    check.finish();
}

fn run_small(case: &Case, ctx: &mut CaseCtx) -> Outcome {
    let r = run_recvbuf(case, ctx);
    // in the exhaustive tier "non-trivial" is: ≥2 fragments that are not nested duplicates
    let frags: Vec<(u32, u32)> = case
        .ops
        .iter()
        .filter_map(|o| match o {
            Op::Recv { off, len } if *len > 0 => Some((*off, *len)),
            _ => None,
        })
        .collect();
    ctx.nontrivial = frags.len() >= 2 && frags.windows(2).any(|w| w[0] != w[1]);
    let _ = json!(null);
    r
}
