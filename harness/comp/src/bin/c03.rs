//! C03 — decoding untrusted bytes never panics, hangs or mis-frames.
//!
//! Three entry points exactly as the stack calls them:
//!  * datagram: `PacketReader::new(bytes, dcid_len)` for dcid_len 0..=20, iterated to exhaustion
//!    (plus the forward-header strip of qtraversal's receive loop and `be_endpoint_addr`);
//!  * payload: `FrameReader::new(bytes, ty)` for every data packet type, iterated until the
//!    first `Err`/`None` like `qconnection::space::read_plain_packet`;
//!  * transport parameters: `ClientParameters/ServerParameters::parse_from_bytes`,
//!    `ServerParameters::try_from_remembered_bytes`.
//!
//! Oracle: an independent reference decoder (RFC 9000 §17–§19, RFC 9221, the documented layout
//! of the gm-quic extension frames) written in this file. It yields, for the same bytes, either
//! the canonical (minimal) re-encoding of the next item and the number of bytes it occupies, or
//! "truncated" / "invalid". The real decoder must agree in both directions, must consume exactly
//! the same bytes, its re-encoding must equal the canonical bytes and decode back to the same
//! value, returned `Bytes` must lie inside the input, errors must map to the prescribed
//! connection error, and nothing may panic.
#![allow(clippy::too_many_arguments)]

use std::collections::BTreeMap;

use bytes::{Bytes, BytesMut};
use proptest::prelude::*;
use qbase::{
    error::{ErrorFrameType, ErrorKind, QuicError},
    frame::{
        Error as FrameError, Frame, FrameFeature, FrameReader, FrameType, GetFrameType,
        io::{WriteFrame, be_frame},
    },
    net::{Family, addr::be_endpoint_addr},
    packet::{
        DataHeader, GetDcid, GetScid, Packet, PacketReader, SpinBit, long,
        r#type::{
            Type,
            long::{Type as LongType, Ver1},
            short::OneRtt,
        },
    },
    param::{ClientParameters, ParameterId, ServerParameters, WriteParameters},
    varint::VarInt,
};
use serde::{Deserialize, Serialize};
use vcore::{CaseCtx, Check, Fail, Outcome, ensure, ensure_eq, fail, gens, guarded};

const VMAX: u64 = (1 << 62) - 1;

// ---------------------------------------------------------------------------
// primitives of the reference codec (RFC 9000 §16)
// ---------------------------------------------------------------------------

fn vlen(v: u64) -> usize {
    if v < 1 << 6 {
        1
    } else if v < 1 << 14 {
        2
    } else if v < 1 << 30 {
        4
    } else {
        8
    }
}

/// minimal encoding
fn mv(out: &mut Vec<u8>, v: u64) {
    mvw(out, v, 0)
}

/// encoding of `v` in `w` bytes (0 = minimal; a width too small for `v` falls back to minimal)
fn mvw(out: &mut Vec<u8>, v: u64, w: u8) {
    let v = v & VMAX;
    let need = vlen(v);
    let w = if (w as usize) < need || ![1, 2, 4, 8].contains(&w) { need } else { w as usize };
    match w {
        1 => out.push(v as u8),
        2 => out.extend_from_slice(&((v as u16) | 0x4000).to_be_bytes()),
        4 => out.extend_from_slice(&((v as u32) | 0x8000_0000).to_be_bytes()),
        _ => out.extend_from_slice(&(v | 0xC000_0000_0000_0000).to_be_bytes()),
    }
}

fn hex(b: &[u8]) -> String {
    let mut s = String::new();
    for x in b.iter().take(64) {
        s.push_str(&format!("{x:02x}"));
    }
    if b.len() > 64 {
        s.push_str(&format!("…({} bytes)", b.len()));
    }
    s
}

#[derive(Debug, Clone, Copy, PartialEq)]
enum Stop {
    Trunc,
    Invalid(&'static str),
}

/// reference reader over a byte slice
struct Rd<'a> {
    b: &'a [u8],
    pos: usize,
    /// every varint read so far used its shortest encoding
    minimal: bool,
    /// fields completely read so far
    fields: usize,
}

impl<'a> Rd<'a> {
    fn new(b: &'a [u8]) -> Self {
        Self { b, pos: 0, minimal: true, fields: 0 }
    }
    fn left(&self) -> usize {
        self.b.len() - self.pos
    }
    fn var(&mut self) -> Result<u64, Stop> {
        let first = *self.b.get(self.pos).ok_or(Stop::Trunc)?;
        let n = 1usize << (first >> 6);
        if self.left() < n {
            return Err(Stop::Trunc);
        }
        let mut v = (first & 0x3f) as u64;
        for x in &self.b[self.pos + 1..self.pos + n] {
            v = (v << 8) | *x as u64;
        }
        self.pos += n;
        if vlen(v) != n {
            self.minimal = false;
        }
        self.fields += 1;
        Ok(v)
    }
    fn take(&mut self, n: u64) -> Result<&'a [u8], Stop> {
        if (self.left() as u64) < n {
            return Err(Stop::Trunc);
        }
        let n = n as usize;
        let s = &self.b[self.pos..self.pos + n];
        self.pos += n;
        self.fields += 1;
        Ok(s)
    }
    fn u8(&mut self) -> Result<u8, Stop> {
        Ok(self.take(1)?[0])
    }
}

// ---------------------------------------------------------------------------
// reference frame decoder
// ---------------------------------------------------------------------------

/// 0 Initial, 1 0-RTT, 2 Handshake, 3/4 1-RTT (spin 0/1)
fn packet_type(i: usize) -> Type {
    match i {
        0 => Type::Long(LongType::V1(Ver1::INITIAL)),
        1 => Type::Long(LongType::V1(Ver1::ZERO_RTT)),
        2 => Type::Long(LongType::V1(Ver1::HANDSHAKE)),
        3 => Type::Short(OneRtt(SpinBit::Zero)),
        _ => Type::Short(OneRtt(SpinBit::One)),
    }
}

const NPKT: usize = 5;

fn kind_of(code: u64) -> Option<&'static str> {
    Some(match code {
        0x00 => "padding",
        0x01 => "ping",
        0x02 | 0x03 => "ack",
        0x04 => "reset_stream",
        0x05 => "stop_sending",
        0x06 => "crypto",
        0x07 => "new_token",
        0x08..=0x0f => "stream",
        0x10 => "max_data",
        0x11 => "max_stream_data",
        0x12 | 0x13 => "max_streams",
        0x14 => "data_blocked",
        0x15 => "stream_data_blocked",
        0x16 | 0x17 => "streams_blocked",
        0x18 => "new_connection_id",
        0x19 => "retire_connection_id",
        0x1a => "path_challenge",
        0x1b => "path_response",
        0x1c => "close_quic",
        0x1d => "close_app",
        0x1e => "handshake_done",
        0x30 | 0x31 => "datagram",
        0x3d7e90 | 0x3d7e91 => "add_address",
        0x3d7e92 | 0x3d7e93 => "punch_me_now",
        0x3d7e94 => "remove_address",
        0x3d7e95 => "punch_hello",
        0x3d7e96 => "punch_done",
        _ => return None,
    })
}

/// "IH01" column of RFC 9000 table 3 (extension frames: 0-RTT and 1-RTT only)
fn permitted(code: u64, pkt: usize) -> bool {
    let col: &[u8; 4] = match code {
        0x00 | 0x01 | 0x1c => b"IH01",
        0x02 | 0x03 | 0x06 => b"IH_1",
        0x07 | 0x1b | 0x1e => b"___1",
        _ => b"__01",
    };
    match pkt {
        0 => col[0] == b'I',
        1 => col[2] == b'0',
        2 => col[1] == b'H',
        _ => col[3] == b'1',
    }
}

/// transport error codes of RFC 9000 §20.1 (+ CRYPTO_ERROR range)
fn known_error_code(c: u64) -> bool {
    c <= 0x10 || (0x100..=0x1ff).contains(&c)
}

#[derive(Debug, Clone)]
struct RefFrame {
    code: u64,
    kind: &'static str,
    consumed: usize,
    /// shortest encoding of the same frame
    canonical: Vec<u8>,
    /// the input already was the shortest encoding
    minimal: bool,
    /// CONNECTION_CLOSE reason that is not UTF-8 (decoded lossily)
    lossy: bool,
    /// (start, len) of the data carried by STREAM / CRYPTO / DATAGRAM, relative to the frame
    data: Option<(usize, usize)>,
    /// NAT type field of an extension frame that is out of range but whose low byte is in range
    nat_wrapped: bool,
}

#[derive(Debug, Clone)]
enum RefStep {
    Frame(RefFrame),
    /// the type varint itself is cut short
    TypeTrunc,
    UnknownType(u64),
    WrongType(u64),
    Trunc { code: u64, fields: usize },
    Invalid { code: u64, why: &'static str },
}

fn ref_body(code: u64, r: &mut Rd, out: &mut Vec<u8>, f: &mut RefFrame) -> Result<(), Stop> {
    let start = r.pos;
    let _ = start;
    macro_rules! v {
        () => {{
            let x = r.var()?;
            mv(out, x);
            x
        }};
    }
    macro_rules! raw {
        ($n:expr) => {{
            let s = r.take($n as u64)?;
            out.extend_from_slice(s);
            s
        }};
    }
    match code {
        0x00 | 0x01 | 0x1e => {}
        0x02 | 0x03 => {
            v!();
            v!();
            let count = v!();
            v!();
            let mut i = 0u64;
            while i < count {
                v!();
                v!();
                i += 1;
            }
            if code == 0x03 {
                v!();
                v!();
                v!();
            }
        }
        0x04 => {
            v!();
            v!();
            v!();
        }
        0x05 | 0x11 | 0x15 => {
            v!();
            v!();
        }
        0x06 => {
            let off = v!();
            let len = v!();
            if off + len > VMAX {
                return Err(Stop::Invalid("offset+length>2^62-1"));
            }
            let at = r.pos;
            raw!(len);
            f.data = Some((at, len as usize));
        }
        0x07 => {
            let len = v!();
            raw!(len);
        }
        0x08..=0x0f => {
            // the type byte is rewritten once the offset is known
            let type_at = out.len() - 1;
            v!();
            let off = if code & 0x04 != 0 {
                let o = r.var()?;
                if o != 0 {
                    mv(out, o);
                } else {
                    // an explicit zero offset is re-encoded without the field
                    f.minimal = false;
                }
                o
            } else {
                0
            };
            let len = if code & 0x02 != 0 { v!() } else { r.left() as u64 };
            if off + len > VMAX {
                return Err(Stop::Invalid("offset+length>2^62-1"));
            }
            let at = r.pos;
            raw!(len);
            f.data = Some((at, len as usize));
            out[type_at] = 0x08 | if off != 0 { 0x04 } else { 0 } | (code as u8 & 0x03);
        }
        0x10 | 0x14 | 0x19 | 0x3d7e94 => {
            v!();
        }
        // RFC 9000 §19.11 / §19.14: a stream count above 2^60 is invalid in both frames
        0x12 | 0x13 | 0x16 | 0x17 => {
            let x = v!();
            if x > 1 << 60 {
                return Err(Stop::Invalid("stream-count>2^60"));
            }
        }
        0x18 => {
            let seq = v!();
            let retire = v!();
            if retire > seq {
                return Err(Stop::Invalid("retire_prior_to>sequence"));
            }
            let n = r.u8()?;
            out.push(n);
            if n > 20 {
                return Err(Stop::Invalid("cid-length>20"));
            }
            raw!(n);
            if n == 0 {
                return Err(Stop::Invalid("cid-length=0"));
            }
            raw!(16);
        }
        0x1a | 0x1b => {
            raw!(8);
        }
        0x1c | 0x1d => {
            let ec = v!();
            if code == 0x1c {
                if !known_error_code(ec) {
                    return Err(Stop::Invalid("close-unknown-error-code"));
                }
                let ft = v!();
                if kind_of(ft).is_none() {
                    return Err(Stop::Invalid("close-unknown-frame-type"));
                }
            }
            let n = r.var()?;
            let reason = r.take(n)?;
            let s = String::from_utf8_lossy(reason);
            if s.as_bytes() != reason {
                f.lossy = true;
            }
            mv(out, s.len() as u64);
            out.extend_from_slice(s.as_bytes());
        }
        0x30 => {
            let at = r.pos;
            let n = r.left();
            raw!(n);
            // the data field of a length-less DATAGRAM is not a "field" when empty
            f.data = Some((at, n));
        }
        0x31 => {
            let n = v!();
            let at = r.pos;
            raw!(n);
            f.data = Some((at, n as usize));
        }
        0x3d7e90..=0x3d7e93 => {
            v!();
            if code >= 0x3d7e92 {
                v!();
            }
            raw!(2);
            raw!(if code & 1 == 1 { 16 } else { 4 });
            v!();
            let nat = r.var()?;
            if nat > 5 {
                // (a value above 255 whose low byte is a valid type used to be accepted; repaired
                // in /repo: `fixed: property=C03 ... [ext-nat-type-truncated-to-u8]`)
                return Err(Stop::Invalid("nat-type"));
            }
            mv(out, nat);
        }
        0x3d7e95 | 0x3d7e96 => {
            v!();
            v!();
            v!();
        }
        _ => unreachable!("kind_of() admitted {code:#x}"),
    }
    Ok(())
}

/// What RFC 9000 says the next frame of `input` is, in a packet of type `pkt`.
fn ref_frame(input: &[u8], pkt: usize) -> RefStep {
    let mut r = Rd::new(input);
    let code = match r.var() {
        Ok(c) => c,
        Err(_) => return RefStep::TypeTrunc,
    };
    let Some(kind) = kind_of(code) else {
        return RefStep::UnknownType(code);
    };
    if !permitted(code, pkt) {
        return RefStep::WrongType(code);
    }
    r.fields = 0;
    let mut out = vec![];
    mv(&mut out, code);
    let mut f = RefFrame {
        code,
        kind,
        consumed: 0,
        canonical: vec![],
        minimal: true,
        lossy: false,
        data: None,
        nat_wrapped: false,
    };
    match ref_body(code, &mut r, &mut out, &mut f) {
        Ok(()) => {
            f.consumed = r.pos;
            f.minimal &= r.minimal;
            f.canonical = out;
            RefStep::Frame(f)
        }
        Err(Stop::Trunc) => RefStep::Trunc { code, fields: r.fields },
        Err(Stop::Invalid("nat-type-wrapped")) => {
            // value class of a confirmed divergence: keep what the stack makes of it
            f.consumed = r.pos;
            f.minimal = false;
            f.canonical = out;
            RefStep::Frame(f)
        }
        Err(Stop::Invalid(why)) => RefStep::Invalid { code, why },
    }
}

// ---------------------------------------------------------------------------
// payload oracle (mirrors qconnection::space::read_plain_packet)
// ---------------------------------------------------------------------------

const SIG_NAT: &str = "ext-nat-type-truncated-to-u8";
const SIG_EMPTY: &str = "empty-payload-accepted";
const SIG_WRONG_TYPE_KIND: &str = "forbidden-frame-type-reported-as-frame-encoding";

#[derive(Debug, Clone, Serialize, Deserialize)]
struct BytesCase {
    /// how the generator produced the bytes (histogram only)
    how: String,
    bytes: Vec<u8>,
}

fn inside(outer: &Bytes, inner: &Bytes) -> bool {
    if inner.is_empty() {
        return true;
    }
    let (o, i) = (outer.as_ptr() as usize, inner.as_ptr() as usize);
    i >= o && i + inner.len() <= o + outer.len()
}

fn encode_frame(f: &Frame<Bytes>) -> Result<Vec<u8>, Fail> {
    guarded(|| {
        let mut enc = BytesMut::new();
        enc.put_frame(f);
        Ok(enc.to_vec())
    })
}

fn step_label(r: &RefStep) -> String {
    match r {
        RefStep::Frame(f) => format!("frame:{}", f.kind),
        RefStep::TypeTrunc => "type-truncated".into(),
        RefStep::UnknownType(_) => "unknown-type".into(),
        RefStep::WrongType(c) => format!("wrong-type:{}", kind_of(*c).unwrap_or("?")),
        RefStep::Trunc { code, .. } => format!("truncated:{}", kind_of(*code).unwrap_or("?")),
        RefStep::Invalid { code, why } => format!("invalid:{}:{why}", kind_of(*code).unwrap_or("?")),
    }
}

struct PayloadObs {
    frames: usize,
    /// the reader stopped with an error after at least one field of a known frame type
    deep_error: bool,
    classes: Vec<String>,
}

/// One payload in one packet type. Returns what was observed; `known` collects the
/// confirmed divergences that were passed over.
fn payload_in(bytes: &[u8], pkt: usize, known: &mut Vec<Fail>) -> Result<PayloadObs, Fail> {
    let ty = packet_type(pkt);
    let raw = Bytes::copy_from_slice(bytes);
    let mut reader = FrameReader::new(raw.clone(), ty);
    let mut obs = PayloadObs { frames: 0, deep_error: false, classes: vec![] };
    let mut pos = 0usize;
    let mut steps = 0usize;
    loop {
        steps += 1;
        ensure!(steps <= bytes.len() + 1, "payload-iterations", "more than len+1 = {} iterations", bytes.len() + 1);
        let before = reader.len();
        ensure_eq!(before, bytes.len() - pos, "payload-cursor", "bytes left in the reader at step {steps}");
        let item = guarded(|| Ok(reader.next()))?;
        let Some(item) = item else {
            ensure_eq!(pos, bytes.len(), "payload-early-end", "reader ended with bytes left ({ty:?})");
            break;
        };
        let want = ref_frame(&bytes[pos..], pkt);
        match item {
            Err(e) => {
                ensure_eq!(reader.len(), before, "payload-error-consumed", "an error step consumed input");
                if let RefStep::Frame(f) = &want {
                    fail!(
                        format!("rejected-wellformed:{}", f.kind),
                        "{ty:?} at {pos}: {} is a well-formed {} of {} bytes, decoder says {e:?}",
                        hex(&bytes[pos..]),
                        f.kind,
                        f.consumed
                    );
                }
                // error mapping (what read_plain_packet returns to the connection)
                let q = guarded(|| Ok(QuicError::from(e.clone())))?;
                // RFC 9000 §12.4: no frames, or a frame in a packet type that does not permit it, is a
                // PROTOCOL_VIOLATION; every other decoding failure is a FRAME_ENCODING_ERROR
                let want_kind = if matches!(e, FrameError::NoFrames | FrameError::WrongType(..)) {
                    ErrorKind::ProtocolViolation
                } else {
                    ErrorKind::FrameEncoding
                };
                if matches!(e, FrameError::WrongType(..)) && q.kind() == ErrorKind::FrameEncoding {
                    // genuine deviation kept by an existing unit test (test_error_conversion_to_transport_error):
                    // own signature, the rest of the mapping is still checked
                    known.push(Fail::new(
                        SIG_WRONG_TYPE_KIND,
                        format!("{e:?} is reported as FRAME_ENCODING_ERROR, RFC 9000 §12.4 prescribes PROTOCOL_VIOLATION"),
                    ));
                } else {
                    ensure_eq!(q.kind(), want_kind, "error-kind", "{e:?} maps to");
                }
                let want_fty = match &want {
                    RefStep::WrongType(c) | RefStep::Trunc { code: c, .. } | RefStep::Invalid { code: c, .. } => {
                        let ft = FrameType::try_from(VarInt::from_u64(*c).unwrap())
                            .map_err(|x| Fail::new("frametype-code", format!("{c:#x}: {x:?}")))?;
                        ErrorFrameType::V1(ft)
                    }
                    _ => ErrorFrameType::V1(FrameType::Padding),
                };
                ensure_eq!(q.frame_type(), want_fty, "error-frame-type", "{e:?} ({}) reports frame type", step_label(&want));
                // the variant must describe what is wrong with the bytes
                let ok_variant = match (&want, &e) {
                    (RefStep::TypeTrunc, FrameError::IncompleteType(_)) => true,
                    (RefStep::UnknownType(c), FrameError::InvalidType(v)) => v.into_u64() == *c,
                    (RefStep::WrongType(_), FrameError::WrongType(_, t)) => *t == ty,
                    (RefStep::Trunc { .. }, FrameError::IncompleteFrame(..) | FrameError::ParseError(..)) => true,
                    (RefStep::Invalid { .. }, FrameError::ParseError(..) | FrameError::IncompleteFrame(..)) => true,
                    _ => false,
                };
                ensure!(ok_variant, "error-variant", "{ty:?} at {pos}: bytes are {}, decoder says {e:?}", step_label(&want));
                if matches!(want, RefStep::Trunc { fields, .. } if fields >= 1) || matches!(want, RefStep::Invalid { .. }) {
                    obs.deep_error = true;
                }
                obs.classes.push(format!("stop:{}", step_label(&want).split(':').next().unwrap()));
                break;
            }
            Ok((frame, fty)) => {
                let consumed = before - reader.len();
                let code = VarInt::from(fty).into_u64();
                let kind = kind_of(code).unwrap_or("?");
                ensure!(
                    consumed >= 1 && consumed <= before,
                    "payload-consumed",
                    "{ty:?} at {pos}: step consumed {consumed} of {before} bytes"
                );
                let f = match want {
                    RefStep::Frame(f) => f,
                    other => fail!(
                        format!("accepted-malformed:{kind}"),
                        "{ty:?} at {pos}: {} is {}, decoder yields {}",
                        hex(&bytes[pos..]),
                        step_label(&other),
                        vcore::truncate(&format!("{frame:?}"), 200)
                    ),
                };
                if f.nat_wrapped {
                    known.push(Fail::new(
                        SIG_NAT,
                        format!("{ty:?}: NAT type field of {} is out of range, decoded as {}", hex(&bytes[pos..pos + consumed]), vcore::truncate(&format!("{frame:?}"), 160)),
                    ));
                }
                ensure_eq!(code, f.code, "mis-framed-type", "{ty:?} at {pos}: frame type");
                // (a STREAM frame with an explicit zero offset reports the type without the OFF bit)
                let own = VarInt::from(frame.frame_type()).into_u64();
                ensure!(
                    own == code || (kind == "stream" && own == code & !0x04),
                    format!("frametype:{kind}"),
                    "frame_type() of the decoded frame is {own:#x}, type on the wire {code:#x}"
                );
                ensure!(frame.belongs_to(ty) && permitted(code, pkt), format!("wrong-type-accepted:{kind}"), "{kind} yielded in {ty:?}");
                ensure_eq!(
                    consumed,
                    f.consumed,
                    format!("mis-framed:{kind}"),
                    "{ty:?} at {pos}: bytes consumed by {}",
                    hex(&bytes[pos..])
                );
                // returned Bytes lie inside the input, at the right place
                match &frame {
                    Frame::Stream(_, d) | Frame::Crypto(_, d) | Frame::Datagram(_, d) => {
                        ensure!(inside(&raw, d), format!("data-outside-input:{kind}"), "data slice not inside the payload");
                        let (at, len) = f.data.unwrap_or((0, 0));
                        ensure!(
                            d.len() == len && d[..] == bytes[pos + at..pos + at + len],
                            format!("data-wrong-slice:{kind}"),
                            "{ty:?} at {pos}: data is {} bytes, expected {len} at +{at}",
                            d.len()
                        );
                    }
                    _ => {}
                }
                // re-encoding = canonical bytes of the reference (every field, uniformly)
                let enc = encode_frame(&frame).map_err(|e| Fail::new(format!("reencode-panic:{kind}"), e.msg))?;
                ensure!(
                    enc == f.canonical,
                    format!("value-differs:{kind}"),
                    "{ty:?} at {pos}: {} decodes to {} which re-encodes as {}, reference says {}",
                    hex(&bytes[pos..pos + consumed]),
                    vcore::truncate(&format!("{frame:?}"), 160),
                    hex(&enc),
                    hex(&f.canonical)
                );
                if f.minimal && !f.lossy {
                    ensure!(enc[..] == bytes[pos..pos + consumed], "harness-canonical", "minimal input differs from its canonical form");
                }
                ensure!(f.lossy || enc.len() <= consumed, format!("reencode-longer:{kind}"), "{} > {consumed}", enc.len());
                let again = Bytes::from(enc.clone());
                match guarded(|| Ok(be_frame(&again, ty)))? {
                    Ok((n, g, gty)) => ensure!(
                        n == enc.len() && g == frame && VarInt::from(gty).into_u64() == own,
                        format!("reencode-roundtrip:{kind}"),
                        "{ty:?}: {} decodes to {} ({n} bytes)",
                        hex(&enc),
                        vcore::truncate(&format!("{g:?}"), 160)
                    ),
                    Err(e) => fail!(format!("reencode-roundtrip:{kind}"), "{ty:?}: own encoding {} rejected: {e:?}", hex(&enc)),
                }
                if obs.frames < 6 {
                    obs.classes.push(format!("ok:{kind}"));
                }
                if !f.minimal {
                    obs.classes.push("non-minimal-varint".into());
                }
                obs.frames += 1;
                pos += consumed;
            }
        }
    }
    // RFC 9000 §12.4: a packet containing no frames is a PROTOCOL_VIOLATION; frame::Error::NoFrames
    // exists for it. Reported under its own signature (quotes the RFC beyond the property text).
    if bytes.is_empty() {
        known.push(Fail::new(SIG_EMPTY, format!("{ty:?}: an empty payload yields no frame and no error")));
    }
    Ok(obs)
}

fn run_payload(case: &BytesCase, ctx: &mut CaseCtx) -> Outcome {
    let mut frames_max = 0;
    let mut deep = false;
    let mut known = vec![];
    for pkt in 0..NPKT {
        let obs = payload_in(&case.bytes, pkt, &mut known)?;
        frames_max = frames_max.max(obs.frames);
        deep |= obs.deep_error;
        if pkt == 3 {
            for c in obs.classes {
                ctx.class(c);
            }
        } else if pkt == 0 {
            for c in obs.classes.iter().filter(|c| c.starts_with("stop:")) {
                ctx.class(format!("initial:{c}"));
            }
        }
    }
    ctx.class(format!("src:{}", case.how));
    ctx.class(format!("frames-1rtt-or-best<={}", match frames_max { 0 => 0, 1 => 1, 2..=4 => 4, _ => 99 }));
    if frames_max >= 1 || deep {
        ctx.nontrivial();
    }
    dedup_known(ctx, known);
    Ok(())
}

fn dedup_known(ctx: &mut CaseCtx, known: Vec<Fail>) {
    for k in known {
        if !ctx.known.iter().any(|x| x.signature == k.signature) {
            ctx.known.push(k);
        }
    }
}

// ---------------------------------------------------------------------------
// datagram oracle (RFC 9000 §17; PacketReader as qtraversal's receive loop drives it)
// ---------------------------------------------------------------------------

#[derive(Debug, Clone, PartialEq)]
enum RefPkt {
    /// kind: 0 Initial, 1 0-RTT, 2 Handshake, 3 1-RTT
    Data { kind: u8, spin: bool, dcid: Vec<u8>, scid: Vec<u8>, token: Vec<u8>, offset: usize, total: usize },
    VN { dcid: Vec<u8>, scid: Vec<u8>, versions: Vec<u32> },
    Retry { dcid: Vec<u8>, scid: Vec<u8>, token: Vec<u8>, integrity: Vec<u8> },
    Drop { why: &'static str, fields: usize },
}

fn ref_packet(b: &[u8], dcid_len: usize) -> RefPkt {
    let mut r = Rd::new(b);
    let res: Result<RefPkt, &'static str> = (|| {
        let b0 = r.u8().map_err(|_| "truncated-type")?;
        if b0 & 0x80 == 0 {
            let dcid = r.take(dcid_len as u64).map_err(|_| "truncated-header")?.to_vec();
            if r.left() < 20 {
                return Err("under-sampling");
            }
            return Ok(RefPkt::Data {
                kind: 3,
                spin: b0 & 0x20 != 0,
                dcid,
                scid: vec![],
                token: vec![],
                offset: r.pos,
                total: b.len(),
            });
        }
        let ver = r.take(4).map_err(|_| "truncated-type")?;
        let ver = u32::from_be_bytes([ver[0], ver[1], ver[2], ver[3]]);
        if ver > 1 {
            return Err("unsupported-version");
        }
        if ver == 1 && b0 & 0x40 == 0 {
            return Err("fixed-bit");
        }
        let cid = |r: &mut Rd| -> Result<Vec<u8>, &'static str> {
            let n = r.u8().map_err(|_| "truncated-header")?;
            if n > 20 {
                return Err("cid-length>20");
            }
            Ok(r.take(n as u64).map_err(|_| "truncated-header")?.to_vec())
        };
        let dcid = cid(&mut r)?;
        let scid = cid(&mut r)?;
        if ver == 0 {
            if r.left() % 4 != 0 {
                return Err("vn-partial-version");
            }
            let mut versions = vec![];
            while r.left() > 0 {
                let v = r.take(4).unwrap();
                versions.push(u32::from_be_bytes([v[0], v[1], v[2], v[3]]));
            }
            return Ok(RefPkt::VN { dcid, scid, versions });
        }
        let kind = (b0 >> 4) & 3;
        if kind == 3 {
            if r.left() < 16 {
                return Err("retry-without-integrity-tag");
            }
            let n = r.left() - 16;
            let token = r.take(n as u64).unwrap().to_vec();
            let integrity = r.take(16).unwrap().to_vec();
            return Ok(RefPkt::Retry { dcid, scid, token, integrity });
        }
        let mut token = vec![];
        if kind == 0 {
            let n = r.var().map_err(|_| "truncated-header")?;
            token = r.take(n).map_err(|_| "truncated-header")?.to_vec();
        }
        let len = r.var().map_err(|_| "truncated-header")?;
        let offset = r.pos;
        r.take(len).map_err(|_| "truncated-payload")?;
        if len < 20 {
            return Err("under-sampling");
        }
        Ok(RefPkt::Data { kind, spin: false, dcid, scid, token, offset, total: r.pos })
    })();
    match res {
        Ok(p) => p,
        Err(why) => RefPkt::Drop { why, fields: r.fields },
    }
}

fn describe(p: &Packet) -> Result<RefPkt, Fail> {
    Ok(match p {
        Packet::VN(h) => RefPkt::VN { dcid: h.dcid().to_vec(), scid: h.scid().to_vec(), versions: h.versions().clone() },
        Packet::Retry(h) => RefPkt::Retry {
            dcid: h.dcid().to_vec(),
            scid: h.scid().to_vec(),
            token: h.token().clone(),
            integrity: h.integrity().to_vec(),
        },
        Packet::Data(dp) => {
            let (kind, spin, dcid, scid, token) = match &dp.header {
                DataHeader::Long(long::DataHeader::Initial(x)) => (0, false, x.dcid().to_vec(), x.scid().to_vec(), x.token().clone()),
                DataHeader::Long(long::DataHeader::ZeroRtt(x)) => (1, false, x.dcid().to_vec(), x.scid().to_vec(), vec![]),
                DataHeader::Long(long::DataHeader::Handshake(x)) => (2, false, x.dcid().to_vec(), x.scid().to_vec(), vec![]),
                DataHeader::Short(x) => (3, x.spin() == SpinBit::One, x.dcid().to_vec(), vec![], vec![]),
            };
            RefPkt::Data { kind, spin, dcid, scid, token, offset: dp.offset, total: dp.bytes.len() }
        }
    })
}

struct DatagramObs {
    packets: usize,
    deep_drop: bool,
    label: String,
}

fn datagram_with(bytes: &[u8], dcid_len: usize) -> Result<DatagramObs, Fail> {
    let mut reader = PacketReader::new(BytesMut::from(bytes), dcid_len);
    let mut pos = 0usize;
    let mut obs = DatagramObs { packets: 0, deep_drop: false, label: String::new() };
    let mut steps = 0usize;
    loop {
        steps += 1;
        ensure!(steps <= bytes.len() + 1, "datagram-iterations", "more than len+1 iterations (dcid_len {dcid_len})");
        let item = guarded(|| Ok(reader.next()))?;
        let Some(item) = item else {
            ensure_eq!(pos, bytes.len(), "datagram-early-end", "dcid_len {dcid_len}: reader ended with bytes left");
            break;
        };
        ensure!(pos < bytes.len(), "datagram-invented", "dcid_len {dcid_len}: item yielded after the datagram was used up");
        let want = ref_packet(&bytes[pos..], dcid_len);
        match item {
            Err(e) => {
                let RefPkt::Drop { why, fields } = want else {
                    fail!(
                        "datagram-rejected-wellformed",
                        "dcid_len {dcid_len} at {pos}: {} is {want:?}, reader says {e:?}",
                        hex(&bytes[pos..])
                    );
                };
                obs.deep_drop |= fields >= 2;
                obs.label = format!("drop:{why}");
                // a malformed datagram is simply dropped: nothing more comes out of it
                let more = guarded(|| Ok(reader.next()))?;
                ensure!(more.is_none(), "datagram-continues-after-error", "dcid_len {dcid_len}: {more:?} after {e:?}");
                break;
            }
            Ok(p) => {
                let got = describe(&p)?;
                if let RefPkt::Drop { why, .. } = want {
                    fail!(
                        "datagram-accepted-malformed",
                        "dcid_len {dcid_len} at {pos}: {} must be dropped ({why}), reader yields {got:?}",
                        hex(&bytes[pos..])
                    );
                }
                ensure!(
                    got == want,
                    "datagram-mis-framed",
                    "dcid_len {dcid_len} at {pos}: {}: reader yields {got:?}, reference {want:?}",
                    hex(&bytes[pos..])
                );
                match (&p, &want) {
                    (Packet::Data(dp), RefPkt::Data { offset, total, .. }) => {
                        ensure!(
                            dp.bytes[..] == bytes[pos..pos + total],
                            "datagram-bytes",
                            "packet bytes differ from the datagram bytes at {pos}..{}",
                            pos + total
                        );
                        // what header-protection removal relies on (sample of 16 bytes at offset+4)
                        ensure!(dp.bytes.len() >= offset + 20, "datagram-sample", "fewer than 20 bytes behind the header");
                        pos += total;
                    }
                    _ => pos = bytes.len(),
                }
                obs.packets += 1;
            }
        }
    }
    if obs.label.is_empty() {
        obs.label = format!("packets:{}", obs.packets.min(4));
    }
    Ok(obs)
}

/// qtraversal::packet::be_header re-stated (trivial): which datagrams never reach the QUIC
/// reader whole. Returns 0 = QUIC, 1 = STUN, 2 = forward (header of `n` bytes to strip).
pub fn sniff(b: &[u8]) -> (u8, usize) {
    let Some(&first) = b.first() else { return (0, 0) };
    if first & 0b1111_1110 == 0b1100_0010 {
        if b.len() >= 5 && b[1..5] == [0, 0, 0, 0] && b.len() >= 9 {
            return (1, 9);
        }
        return (0, 0);
    }
    if first & 0b1110_0000 == 0b0110_0000 {
        let Some(&flag) = b.get(1) else { return (0, 0) };
        let fam = if flag & 0b100 != 0 { Family::V6 } else { Family::V4 };
        let Ok((rest, src)) = be_endpoint_addr(&b[2..], flag & 0b10, fam) else { return (0, 0) };
        let Ok((_, dst)) = be_endpoint_addr(rest, flag & 0b01, fam) else { return (0, 0) };
        // ForwardHeader::encoding_size(): 0 when the destination is a direct address
        let n = if flag & 0b01 == 0 { 0 } else { 2 + src.encoding_size() + dst.encoding_size() };
        return (2, n);
    }
    (0, 0)
}

fn endpoint_addr_check(bytes: &[u8]) -> Outcome {
    for relay in [0u8, 1, 2] {
        for fam in [Family::V4, Family::V6] {
            let unit = if fam == Family::V4 { 6 } else { 18 };
            let need = if relay != 0 { 2 * unit } else { unit };
            match guarded(|| Ok(be_endpoint_addr(bytes, relay, fam)))? {
                Ok((rest, ep)) => {
                    ensure!(bytes.len() >= need, "endpoint-addr-invented", "{} bytes decode as {ep:?}", bytes.len());
                    ensure_eq!(bytes.len() - rest.len(), need, "endpoint-addr-consumed", "relay {relay} {fam:?}");
                    let size = guarded(|| Ok(ep.encoding_size()))?;
                    ensure_eq!(size, need, "endpoint-addr-size", "encoding_size() of {ep:?}");
                }
                Err(_) => ensure!(bytes.len() < need, "endpoint-addr-rejected", "{} bytes, relay {relay} {fam:?}", bytes.len()),
            }
        }
    }
    Ok(())
}

fn run_datagram(case: &BytesCase, ctx: &mut CaseCtx) -> Outcome {
    let b = &case.bytes;
    endpoint_addr_check(b)?;
    let (route, n) = guarded(|| Ok(sniff(b)))?;
    ensure!(n <= b.len(), "forward-header-longer-than-datagram", "strip {n} of {} bytes", b.len());
    // forward datagrams reach the reader without their header; everything is also fed whole
    // (any byte string can be the inner packet of a forward datagram)
    let mut inputs: Vec<&[u8]> = vec![b];
    if route == 2 && n > 0 {
        inputs.push(&b[n..]);
    }
    ctx.class(["route:quic", "route:stun", "route:forward"][route as usize]);
    let mut best = 0;
    let mut deep = false;
    for (i, input) in inputs.iter().enumerate() {
        for dcid_len in 0..=20usize {
            let obs = datagram_with(input, dcid_len)?;
            best = best.max(obs.packets);
            deep |= obs.deep_drop;
            if i == 0 && dcid_len == 8 {
                ctx.class(format!("dcid8:{}", obs.label));
            }
        }
    }
    ctx.class(format!("src:{}", case.how));
    ctx.class(format!("best-packets:{}", best.min(4)));
    if best >= 1 || deep {
        ctx.nontrivial();
    }
    Ok(())
}

// ---------------------------------------------------------------------------
// transport-parameter oracle (RFC 9000 §18)
// ---------------------------------------------------------------------------

/// value classes: 0 varint, 1 duration (ms), 2 flag, 3 reset token, 4 connection id,
/// 5 preferred address, 6 opaque bytes
fn param_class(id: u64) -> Option<u8> {
    Some(match id {
        0x00 | 0x0f | 0x10 => 4,
        0x01 | 0x0b => 1,
        0x02 => 3,
        0x03..=0x0a | 0x0e | 0x20 => 0,
        0x0c | 0x2ab2 => 2,
        0x0d => 5,
        0xffee => 6,
        _ => return None,
    })
}

const PARAM_IDS: [u64; 20] = [
    0x00, 0x01, 0x02, 0x03, 0x04, 0x05, 0x06, 0x07, 0x08, 0x09, 0x0a, 0x0b, 0x0c, 0x0d, 0x0e, 0x0f, 0x10, 0x20,
    0x2ab2, 0xffee,
];

struct RefParams {
    /// id -> canonical value bytes (last occurrence wins, unknown ids dropped)
    map: BTreeMap<u64, Vec<u8>>,
    tlvs: usize,
}

fn ref_params(b: &[u8], server: bool, require: bool) -> Result<RefParams, (&'static str, usize)> {
    let mut r = Rd::new(b);
    let mut map = BTreeMap::new();
    let mut tlvs = 0usize;
    let fields = |r: &Rd| r.fields;
    while r.left() > 0 {
        let id = r.var().map_err(|_| ("truncated-id", fields(&r)))?;
        let len = r.var().map_err(|_| ("truncated-length", fields(&r)))?;
        let val = r.take(len).map_err(|_| ("truncated-value", fields(&r)))?;
        let Some(class) = param_class(id) else { continue };
        let server_only = matches!(id, 0x00 | 0x02 | 0x0d | 0x10);
        if (server_only && !server) || (id == 0xffee && server) {
            return Err(("wrong-role", r.fields));
        }
        let mut canon = vec![];
        match class {
            0 | 1 => {
                let mut vr = Rd::new(val);
                let v = vr.var().map_err(|_| ("value-not-a-varint", r.fields))?;
                if vr.left() != 0 {
                    return Err(("value-trailing-bytes", r.fields));
                }
                let ok = match id {
                    0x03 => (1200..=65527).contains(&v),
                    0x08 | 0x09 => v <= 1 << 60,
                    0x0a => v <= 20,
                    0x0b => v < 1 << 14,
                    0x0e => v >= 2,
                    _ => true,
                };
                if !ok {
                    return Err(("value-out-of-range", r.fields));
                }
                mv(&mut canon, v);
            }
            2 => {
                if !val.is_empty() {
                    return Err(("flag-with-value", r.fields));
                }
            }
            3 => {
                if val.len() != 16 {
                    return Err(("reset-token-length", r.fields));
                }
                canon.extend_from_slice(val);
            }
            4 => {
                if val.len() > 20 {
                    return Err(("cid-length>20", r.fields));
                }
                canon.extend_from_slice(val);
            }
            5 => {
                let ok = val.len() >= 25 && val[24] <= 20 && val.len() == 25 + val[24] as usize + 16;
                if !ok {
                    return Err(("preferred-address-layout", r.fields));
                }
                canon.extend_from_slice(val);
            }
            _ => canon.extend_from_slice(val),
        }
        map.insert(id, canon);
        tlvs += 1;
    }
    if require {
        let need: &[u64] = if server { &[0x0f, 0x00] } else { &[0x0f] };
        if need.iter().any(|id| !map.contains_key(id)) {
            return Err(("required-parameter-missing", r.fields));
        }
    }
    Ok(RefParams { map, tlvs })
}

fn read_tlvs(b: &[u8]) -> Result<BTreeMap<u64, Vec<u8>>, Fail> {
    let mut r = Rd::new(b);
    let mut out = BTreeMap::new();
    let bad = |_| Fail::new("params-reencode-malformed", format!("own encoding {} is not a TLV list", hex(b)));
    while r.left() > 0 {
        let id = r.var().map_err(bad)?;
        let len = r.var().map_err(bad)?;
        let val = r.take(len).map_err(bad)?;
        ensure!(out.insert(id, val.to_vec()).is_none(), "params-reencode-duplicate", "id {id:#x} written twice");
    }
    Ok(out)
}

/// `which`: 0 client, 1 server, 2 server remembered (0-RTT)
fn params_as(bytes: &[u8], which: u8) -> Result<(bool, bool), Fail> {
    use qbase::{cid::ConnectionId, param::preferred_address::PreferredAddress, token::ResetToken};
    let name = ["client", "server", "remembered"][which as usize];
    let want = ref_params(bytes, which != 0, which != 2);
    // returns the canonical TLV map of what was parsed, or the connection error
    let got: Result<BTreeMap<u64, Vec<u8>>, QuicError> = guarded(|| {
        macro_rules! finish {
            ($p:expr) => {{
                match $p {
                    Err(e) => Ok(Err(e)),
                    Ok(p) => {
                        // accessors used by the handshake code never panic on parsed values
                        for code in PARAM_IDS {
                            let id = ParameterId::try_from(VarInt::from_u64(code).unwrap())
                                .map_err(|e| Fail::new("harness", format!("{code:#x}: {e:?}")))?;
                            let present = p.contains(id);
                            let _ = p.get::<VarInt>(id);
                            let _ = p.get::<u64>(id);
                            let _ = p.get::<std::time::Duration>(id);
                            let _ = p.get::<ConnectionId>(id);
                            let _ = p.get::<ResetToken>(id);
                            let _ = p.get::<PreferredAddress>(id);
                            let _ = p.get::<String>(id);
                            let _ = p.get::<bool>(id);
                            let _ = present;
                        }
                        let mut enc = BytesMut::new();
                        enc.put_parameters(&p);
                        let tlvs = read_tlvs(&enc)?;
                        Ok(Ok(tlvs))
                    }
                }
            }};
        }
        match which {
            0 => {
                let p = ClientParameters::parse_from_bytes(bytes);
                if let Ok(p) = &p {
                    let mut enc = BytesMut::new();
                    enc.put_parameters(p);
                    ensure!(
                        ClientParameters::parse_from_bytes(&enc).as_ref() == Ok(p),
                        "params-reencode-roundtrip",
                        "{name}: {} does not parse back",
                        hex(&enc)
                    );
                }
                finish!(p)
            }
            1 => {
                let p = ServerParameters::parse_from_bytes(bytes);
                if let Ok(p) = &p {
                    let mut enc = BytesMut::new();
                    enc.put_parameters(p);
                    ensure!(
                        ServerParameters::parse_from_bytes(&enc).as_ref() == Ok(p),
                        "params-reencode-roundtrip",
                        "{name}: {} does not parse back",
                        hex(&enc)
                    );
                }
                finish!(p)
            }
            _ => {
                let p = ServerParameters::try_from_remembered_bytes(bytes);
                if let Ok(p) = &p {
                    let mut enc = BytesMut::new();
                    enc.put_parameters(p);
                    ensure!(
                        ServerParameters::try_from_remembered_bytes(&enc).as_ref() == Ok(p),
                        "params-reencode-roundtrip",
                        "{name}: {} does not parse back",
                        hex(&enc)
                    );
                }
                finish!(p)
            }
        }
    })?;
    match (got, want) {
        (Ok(tlvs), Ok(w)) => {
            ensure!(
                tlvs == w.map,
                "params-value-differs",
                "{name}: {} parsed to {tlvs:02x?}, reference says {:02x?}",
                hex(bytes),
                w.map
            );
            Ok((w.tlvs >= 1, false))
        }
        (Err(e), Err((why, fields))) => {
            ensure_eq!(e.kind(), ErrorKind::TransportParameter, "params-error-kind", "{name}: {why}: {e:?}");
            Ok((false, fields >= 2))
        }
        (Ok(tlvs), Err((why, _))) => fail!(
            format!("params-accepted-malformed:{why}"),
            "{name}: {} must be rejected ({why}), parsed to {tlvs:02x?}",
            hex(bytes)
        ),
        (Err(e), Ok(w)) => fail!(
            "params-rejected-wellformed",
            "{name}: {} is well-formed ({:02x?}), parser says {e:?}",
            hex(bytes),
            w.map
        ),
    }
}

fn run_params(case: &BytesCase, ctx: &mut CaseCtx) -> Outcome {
    let mut nt = false;
    for which in 0..3u8 {
        let (parsed, deep) = params_as(&case.bytes, which)?;
        ctx.class(format!(
            "{}:{}",
            ["client", "server", "remembered"][which as usize],
            if parsed { "parsed-with-known-ids" } else if deep { "rejected-deep" } else { "other" }
        ));
        nt |= parsed || deep;
    }
    ctx.class(format!("src:{}", case.how));
    if nt {
        ctx.nontrivial();
    }
    Ok(())
}

// ---------------------------------------------------------------------------
// valid encodings as token lists (reference encoder) and their mutations
// ---------------------------------------------------------------------------

#[derive(Debug, Clone, PartialEq)]
enum Tok {
    /// frame type varint / first byte of a packet
    Ty(u64),
    First(u8),
    /// plain varint field
    V(u64),
    /// length or count varint
    Len(u64),
    /// connection-id length byte
    CidLen(u8),
    /// raw bytes
    B(Vec<u8>),
}

/// token + forced varint width (0 = minimal)
type Toks = Vec<(Tok, u8)>;

fn ser(toks: &Toks) -> Vec<u8> {
    let mut out = vec![];
    for (t, w) in toks {
        match t {
            Tok::Ty(v) | Tok::V(v) | Tok::Len(v) => mvw(&mut out, *v, *w),
            Tok::First(b) | Tok::CidLen(b) => out.push(*b),
            Tok::B(b) => out.extend_from_slice(b),
        }
    }
    out
}

#[derive(Debug, Clone, Copy, Serialize, Deserialize, PartialEq)]
struct Addr {
    v6: bool,
    hi: u64,
    lo: u64,
    port: u16,
}

#[derive(Debug, Clone, Serialize, Deserialize, PartialEq)]
enum FSpec {
    Padding,
    Ping,
    Ack { largest: u64, delay: u64, first: u64, ranges: Vec<(u64, u64)>, ecn: Option<(u64, u64, u64)> },
    ResetStream { sid: u64, err: u64, fsize: u64 },
    StopSending { sid: u64, err: u64 },
    Crypto { off: u64, len: u32 },
    NewToken { len: u32 },
    Stream { sid: u64, off: u64, len: u32, has_off: bool, has_len: bool, fin: bool },
    MaxData { v: u64 },
    MaxStreamData { sid: u64, v: u64 },
    MaxStreams { uni: bool, v: u64 },
    DataBlocked { v: u64 },
    StreamDataBlocked { sid: u64, v: u64 },
    StreamsBlocked { uni: bool, v: u64 },
    NewCid { seq: u64, retire: u64, cid_len: u8, seed: u8 },
    RetireCid { seq: u64 },
    PathChallenge { data: [u8; 8] },
    PathResponse { data: [u8; 8] },
    CloseQuic { code: u64, fty: u64, reason: u32, utf8: bool },
    CloseApp { code: u64, reason: u32, utf8: bool },
    HandshakeDone,
    Datagram { has_len: bool, len: u32 },
    AddAddress { seq: u64, addr: Addr, tire: u64, nat: u64 },
    RemoveAddress { seq: u64 },
    PunchMeNow { local: u64, remote: u64, addr: Addr, tire: u64, nat: u64 },
    PunchHello { local: u64, remote: u64, probe: u64 },
    PunchDone { local: u64, remote: u64, probe: u64 },
}

const FTYPES: [u64; 40] = [
    0x00, 0x01, 0x02, 0x03, 0x04, 0x05, 0x06, 0x07, 0x08, 0x09, 0x0a, 0x0b, 0x0c, 0x0d, 0x0e, 0x0f,
    0x10, 0x11, 0x12, 0x13, 0x14, 0x15, 0x16, 0x17, 0x18, 0x19, 0x1a, 0x1b, 0x1c, 0x1d, 0x1e, 0x30,
    0x31, 0x3d7e90, 0x3d7e91, 0x3d7e92, 0x3d7e93, 0x3d7e94, 0x3d7e95, 0x3d7e96,
];

fn reason_bytes(n: usize, utf8: bool) -> Vec<u8> {
    (0..n)
        .map(|i| if !utf8 && i % 7 == 3 { 0xff } else { b'a' + (i % 26) as u8 })
        .collect()
}

fn addr_toks(t: &mut Toks, a: &Addr) {
    let mut b = a.port.to_be_bytes().to_vec();
    if a.v6 {
        b.extend_from_slice(&a.hi.to_be_bytes());
        b.extend_from_slice(&a.lo.to_be_bytes());
    } else {
        b.extend_from_slice(&(a.lo as u32).to_be_bytes());
    }
    t.push((Tok::B(b), 0));
}

fn frame_toks(s: &FSpec, t: &mut Toks) {
    let ty = |t: &mut Toks, c: u64| t.push((Tok::Ty(c), 0));
    let v = |t: &mut Toks, x: u64| t.push((Tok::V(x & VMAX), 0));
    let l = |t: &mut Toks, x: u64| t.push((Tok::Len(x), 0));
    let b = |t: &mut Toks, x: Vec<u8>| t.push((Tok::B(x), 0));
    match s {
        FSpec::Padding => ty(t, 0),
        FSpec::Ping => ty(t, 1),
        FSpec::HandshakeDone => ty(t, 0x1e),
        FSpec::Ack { largest, delay, first, ranges, ecn } => {
            ty(t, if ecn.is_some() { 3 } else { 2 });
            v(t, *largest);
            v(t, *delay);
            l(t, ranges.len() as u64);
            v(t, *first);
            for (g, a) in ranges {
                v(t, *g);
                v(t, *a);
            }
            if let Some((a, b2, c)) = ecn {
                v(t, *a);
                v(t, *b2);
                v(t, *c);
            }
        }
        FSpec::ResetStream { sid, err, fsize } => {
            ty(t, 4);
            v(t, *sid);
            v(t, *err);
            v(t, *fsize);
        }
        FSpec::StopSending { sid, err } => {
            ty(t, 5);
            v(t, *sid);
            v(t, *err);
        }
        FSpec::Crypto { off, len } => {
            ty(t, 6);
            v(t, (*off).min(VMAX - *len as u64));
            l(t, *len as u64);
            b(t, gens::content(0xC0, *off, *len as usize));
        }
        FSpec::NewToken { len } => {
            ty(t, 7);
            l(t, *len as u64);
            b(t, gens::content(0x70, 0, *len as usize));
        }
        FSpec::Stream { sid, off, len, has_off, has_len, fin } => {
            ty(t, 0x08 | if *has_off { 4 } else { 0 } | if *has_len { 2 } else { 0 } | *fin as u64);
            v(t, *sid);
            if *has_off {
                v(t, (*off).min(VMAX - *len as u64));
            }
            if *has_len {
                l(t, *len as u64);
            }
            b(t, gens::content(*sid ^ 0x55, *off, *len as usize));
        }
        FSpec::MaxData { v: x } => {
            ty(t, 0x10);
            v(t, *x);
        }
        FSpec::MaxStreamData { sid, v: x } => {
            ty(t, 0x11);
            v(t, *sid);
            v(t, *x);
        }
        FSpec::MaxStreams { uni, v: x } => {
            ty(t, 0x12 + *uni as u64);
            v(t, (*x).min(1 << 60));
        }
        FSpec::DataBlocked { v: x } => {
            ty(t, 0x14);
            v(t, *x);
        }
        FSpec::StreamDataBlocked { sid, v: x } => {
            ty(t, 0x15);
            v(t, *sid);
            v(t, *x);
        }
        FSpec::StreamsBlocked { uni, v: x } => {
            ty(t, 0x16 + *uni as u64);
            v(t, *x);
        }
        FSpec::NewCid { seq, retire, cid_len, seed } => {
            let n = (*cid_len).clamp(1, 20);
            ty(t, 0x18);
            v(t, *seq);
            v(t, (*retire).min(*seq));
            t.push((Tok::CidLen(n), 0));
            b(t, gens::content(0xC1D0 + *seed as u64, 0, n as usize));
            b(t, gens::content(0x7000 + *seed as u64, *seq, 16));
        }
        FSpec::RetireCid { seq } => {
            ty(t, 0x19);
            v(t, *seq);
        }
        FSpec::PathChallenge { data } => {
            ty(t, 0x1a);
            b(t, data.to_vec());
        }
        FSpec::PathResponse { data } => {
            ty(t, 0x1b);
            b(t, data.to_vec());
        }
        FSpec::CloseQuic { code, fty, reason, utf8 } => {
            ty(t, 0x1c);
            v(t, *code);
            v(t, *fty);
            l(t, *reason as u64);
            b(t, reason_bytes(*reason as usize, *utf8));
        }
        FSpec::CloseApp { code, reason, utf8 } => {
            ty(t, 0x1d);
            v(t, *code);
            l(t, *reason as u64);
            b(t, reason_bytes(*reason as usize, *utf8));
        }
        FSpec::Datagram { has_len, len } => {
            ty(t, 0x30 + *has_len as u64);
            if *has_len {
                l(t, *len as u64);
            }
            b(t, gens::content(0xDA, 0, *len as usize));
        }
        FSpec::AddAddress { seq, addr, tire, nat } => {
            ty(t, 0x3d7e90 + addr.v6 as u64);
            v(t, *seq);
            addr_toks(t, addr);
            v(t, *tire);
            v(t, *nat);
        }
        FSpec::RemoveAddress { seq } => {
            ty(t, 0x3d7e94);
            v(t, *seq);
        }
        FSpec::PunchMeNow { local, remote, addr, tire, nat } => {
            ty(t, 0x3d7e92 + addr.v6 as u64);
            v(t, *local);
            v(t, *remote);
            addr_toks(t, addr);
            v(t, *tire);
            v(t, *nat);
        }
        FSpec::PunchHello { local, remote, probe } | FSpec::PunchDone { local, remote, probe } => {
            ty(t, if matches!(s, FSpec::PunchHello { .. }) { 0x3d7e95 } else { 0x3d7e96 });
            v(t, *local);
            v(t, *remote);
            v(t, *probe);
        }
    }
}

fn lenless(s: &FSpec) -> bool {
    matches!(s, FSpec::Stream { has_len: false, .. } | FSpec::Datagram { has_len: false, .. })
}

// ---- packets

#[derive(Debug, Clone, Serialize, Deserialize, PartialEq)]
enum PSpec {
    /// kind 0 Initial, 1 0-RTT, 2 Handshake
    Long { kind: u8, low: u8, dcid: (u8, u8), scid: (u8, u8), token: u32, payload: u32 },
    Short { first: u8, dcid: (u8, u8), payload: u32 },
    VN { first: u8, dcid: (u8, u8), scid: (u8, u8), versions: Vec<u32> },
    Retry { low: u8, dcid: (u8, u8), scid: (u8, u8), token: u32 },
}

fn cid_toks(t: &mut Toks, c: &(u8, u8)) {
    let n = c.0.min(20);
    t.push((Tok::CidLen(n), 0));
    t.push((Tok::B(gens::content(0xC1D0 + c.1 as u64, 0, n as usize)), 0));
}

fn packet_toks(p: &PSpec, t: &mut Toks) {
    match p {
        PSpec::Long { kind, low, dcid, scid, token, payload } => {
            t.push((Tok::First(0xC0 | ((*kind % 3) << 4) | (low & 0x0f)), 0));
            t.push((Tok::B(1u32.to_be_bytes().to_vec()), 0));
            cid_toks(t, dcid);
            cid_toks(t, scid);
            if *kind % 3 == 0 {
                t.push((Tok::Len(*token as u64), 0));
                t.push((Tok::B(gens::content(0x70, 0, *token as usize)), 0));
            }
            t.push((Tok::Len(*payload as u64), 0));
            t.push((Tok::B(gens::content(0xBEEF, 0, *payload as usize)), 0));
        }
        PSpec::Short { first, dcid, payload } => {
            t.push((Tok::First(first & 0x7f), 0));
            t.push((Tok::B(gens::content(0xC1D0 + dcid.1 as u64, 0, dcid.0.min(20) as usize)), 0));
            t.push((Tok::B(gens::content(0xFEED, 0, *payload as usize)), 0));
        }
        PSpec::VN { first, dcid, scid, versions } => {
            t.push((Tok::First(0x80 | first), 0));
            t.push((Tok::B(vec![0; 4]), 0));
            cid_toks(t, dcid);
            cid_toks(t, scid);
            for v in versions {
                t.push((Tok::B(v.to_be_bytes().to_vec()), 0));
            }
        }
        PSpec::Retry { low, dcid, scid, token } => {
            t.push((Tok::First(0xF0 | (low & 0x0f)), 0));
            t.push((Tok::B(1u32.to_be_bytes().to_vec()), 0));
            cid_toks(t, dcid);
            cid_toks(t, scid);
            t.push((Tok::B(gens::content(0x7E, 0, *token as usize)), 0));
            t.push((Tok::B(gens::content(0x1E, 0, 16)), 0));
        }
    }
}

// ---- transport parameters: (id, value)

#[derive(Debug, Clone, Serialize, Deserialize, PartialEq)]
enum PVal {
    Var(u64),
    Flag,
    Bytes(u32),
    Cid(u8, u8),
    Token(u8),
    Preferred { cid: (u8, u8), seed: u8 },
}

#[derive(Debug, Clone, Serialize, Deserialize, PartialEq)]
struct PEntry {
    id: u64,
    val: PVal,
}

fn param_toks(e: &PEntry, t: &mut Toks) {
    t.push((Tok::V(e.id & VMAX), 0));
    match &e.val {
        PVal::Var(v) => {
            t.push((Tok::Len(vlen(*v & VMAX) as u64), 0));
            t.push((Tok::V(*v & VMAX), 0));
        }
        PVal::Flag => t.push((Tok::Len(0), 0)),
        PVal::Bytes(n) => {
            t.push((Tok::Len(*n as u64), 0));
            t.push((Tok::B(gens::content(0xCC, 0, *n as usize)), 0));
        }
        PVal::Cid(n, seed) => {
            let n = (*n).min(20);
            t.push((Tok::Len(n as u64), 0));
            t.push((Tok::B(gens::content(0xC1D0 + *seed as u64, 0, n as usize)), 0));
        }
        PVal::Token(seed) => {
            t.push((Tok::Len(16), 0));
            t.push((Tok::B(gens::content(0x5E + *seed as u64, 0, 16)), 0));
        }
        PVal::Preferred { cid, seed } => {
            let n = cid.0.min(20);
            t.push((Tok::Len(24 + 1 + n as u64 + 16), 0));
            t.push((Tok::B(gens::content(0x9A + *seed as u64, 0, 24)), 0));
            t.push((Tok::CidLen(n), 0));
            t.push((Tok::B(gens::content(0xC1D0 + cid.1 as u64, 0, n as usize)), 0));
            t.push((Tok::B(gens::content(0x9E + *seed as u64, 0, 16)), 0));
        }
    }
}

// ---- mutations

const BOUNDS: [u64; 8] = [0, 63, 64, 16383, 16384, (1 << 30) - 1, 1 << 30, VMAX];

#[derive(Debug, Clone, Serialize, Deserialize, PartialEq)]
enum Mut {
    /// set the i-th varint-like token to v
    SetVar { i: u16, v: u64 },
    /// set the i-th length/count token to v
    SetLen { i: u16, v: u64 },
    /// nudge the i-th length/count token by d
    NudgeLen { i: u16, d: i8 },
    /// force the width of the i-th varint-like token
    Widen { i: u16, w: u8 },
    CidLen { i: u16, v: u8 },
    /// xor the i-th type / first byte token
    FlipType { i: u16, mask: u8 },
    /// append bytes inside the i-th raw token
    Grow { i: u16, bytes: Vec<u8> },
    /// cut bytes off the end of the i-th raw token
    Shrink { i: u16, n: u8 },
    DropTok { i: u16 },
    DupTok { i: u16 },
    // --- on the serialised bytes
    Truncate { at: u16 },
    FlipBit { at: u16, bit: u8 },
    Append { bytes: Vec<u8> },
}

fn nth(toks: &Toks, i: u16, pred: impl Fn(&Tok) -> bool) -> Option<usize> {
    let idxs: Vec<usize> = toks.iter().enumerate().filter(|(_, (t, _))| pred(t)).map(|(k, _)| k).collect();
    if idxs.is_empty() { None } else { Some(idxs[gens::idx(i, idxs.len())]) }
}

fn is_var(t: &Tok) -> bool {
    matches!(t, Tok::Ty(_) | Tok::V(_) | Tok::Len(_))
}

fn apply_tok_mut(toks: &mut Toks, m: &Mut) {
    match m {
        Mut::SetVar { i, v } => {
            if let Some(k) = nth(toks, *i, is_var) {
                match &mut toks[k].0 {
                    Tok::Ty(x) | Tok::V(x) | Tok::Len(x) => *x = *v & VMAX,
                    _ => {}
                }
            }
        }
        Mut::SetLen { i, v } => {
            if let Some(k) = nth(toks, *i, |t| matches!(t, Tok::Len(_))) {
                toks[k].0 = Tok::Len(*v & VMAX);
            }
        }
        Mut::NudgeLen { i, d } => {
            if let Some(k) = nth(toks, *i, |t| matches!(t, Tok::Len(_))) {
                if let Tok::Len(x) = toks[k].0 {
                    toks[k].0 = Tok::Len(x.saturating_add_signed(*d as i64).min(VMAX));
                }
            }
        }
        Mut::Widen { i, w } => {
            if let Some(k) = nth(toks, *i, is_var) {
                toks[k].1 = *w;
            }
        }
        Mut::CidLen { i, v } => {
            if let Some(k) = nth(toks, *i, |t| matches!(t, Tok::CidLen(_))) {
                toks[k].0 = Tok::CidLen(*v);
            }
        }
        Mut::FlipType { i, mask } => {
            if let Some(k) = nth(toks, *i, |t| matches!(t, Tok::Ty(_) | Tok::First(_))) {
                match &mut toks[k].0 {
                    Tok::Ty(x) => *x ^= *mask as u64,
                    Tok::First(x) => *x ^= *mask,
                    _ => {}
                }
            }
        }
        Mut::Grow { i, bytes } => {
            if let Some(k) = nth(toks, *i, |t| matches!(t, Tok::B(_))) {
                if let Tok::B(b) = &mut toks[k].0 {
                    b.extend_from_slice(bytes);
                }
            }
        }
        Mut::Shrink { i, n } => {
            if let Some(k) = nth(toks, *i, |t| matches!(t, Tok::B(_))) {
                if let Tok::B(b) = &mut toks[k].0 {
                    let keep = b.len().saturating_sub(*n as usize);
                    b.truncate(keep);
                }
            }
        }
        Mut::DropTok { i } => {
            if !toks.is_empty() {
                let k = gens::idx(*i, toks.len());
                toks.remove(k);
            }
        }
        Mut::DupTok { i } => {
            if !toks.is_empty() {
                let k = gens::idx(*i, toks.len());
                let t = toks[k].clone();
                toks.insert(k, t);
            }
        }
        _ => {}
    }
}

fn apply_byte_mut(bytes: &mut Vec<u8>, m: &Mut) {
    match m {
        Mut::Truncate { at } => {
            let k = gens::idx(*at, bytes.len() + 1);
            bytes.truncate(k);
        }
        Mut::FlipBit { at, bit } => {
            if !bytes.is_empty() {
                let k = gens::idx(*at, bytes.len());
                bytes[k] ^= 1 << (bit & 7);
            }
        }
        Mut::Append { bytes: more } => bytes.extend_from_slice(more),
        _ => {}
    }
}

fn mutate(mut toks: Toks, muts: &[Mut]) -> Vec<u8> {
    for m in muts {
        apply_tok_mut(&mut toks, m);
    }
    let mut bytes = ser(&toks);
    for m in muts {
        apply_byte_mut(&mut bytes, m);
    }
    bytes
}

fn mut_label(muts: &[Mut]) -> &'static str {
    match muts.first() {
        None => "valid",
        Some(Mut::SetVar { .. }) => "set-varint",
        Some(Mut::SetLen { .. } | Mut::NudgeLen { .. }) => "set-length",
        Some(Mut::Widen { .. }) => "widen-varint",
        Some(Mut::CidLen { .. }) => "cid-length",
        Some(Mut::FlipType { .. }) => "flip-type",
        Some(Mut::Grow { .. } | Mut::Shrink { .. }) => "resize-field",
        Some(Mut::DropTok { .. } | Mut::DupTok { .. }) => "drop-dup-field",
        Some(Mut::Truncate { .. }) => "truncate",
        Some(Mut::FlipBit { .. }) => "flip-bit",
        Some(Mut::Append { .. }) => "append",
    }
}

// ---------------------------------------------------------------------------
// generators
// ---------------------------------------------------------------------------

fn vint() -> BoxedStrategy<u64> {
    gens::varint()
}

fn blen() -> BoxedStrategy<u32> {
    prop_oneof![
        3 => proptest::sample::select(vec![0u32, 1, 2, 62, 63, 64, 65]),
        6 => 0u32..40,
        2 => 0u32..300,
        1 => proptest::sample::select(vec![1199u32, 1200, 1472, 16383, 16384, 16385]),
    ]
    .boxed()
}

fn addr() -> BoxedStrategy<Addr> {
    (any::<bool>(), any::<u64>(), any::<u64>(), prop_oneof![Just(0u16), Just(443), any::<u16>()])
        .prop_map(|(v6, hi, lo, port)| Addr { v6, hi, lo, port })
        .boxed()
}

fn nat() -> BoxedStrategy<u64> {
    prop_oneof![8 => 0u64..6, 1 => 6u64..300, 1 => vint()].boxed()
}

fn fspec(kind: usize) -> BoxedStrategy<FSpec> {
    match kind {
        0 => Just(FSpec::Padding).boxed(),
        1 => Just(FSpec::Ping).boxed(),
        2 => {
            let ranges = prop_oneof![
                5 => proptest::collection::vec((vint(), vint()), 0..=3),
                3 => proptest::collection::vec((0u64..70, 0u64..70), 0..=20),
                1 => proptest::collection::vec((vint(), 0u64..3), 62..=66),
            ];
            (vint(), vint(), vint(), ranges, proptest::option::of((vint(), vint(), vint())))
                .prop_map(|(largest, delay, first, ranges, ecn)| FSpec::Ack { largest, delay, first, ranges, ecn })
                .boxed()
        }
        3 => (vint(), vint(), vint()).prop_map(|(sid, err, fsize)| FSpec::ResetStream { sid, err, fsize }).boxed(),
        4 => (vint(), vint()).prop_map(|(sid, err)| FSpec::StopSending { sid, err }).boxed(),
        5 => (vint(), blen()).prop_map(|(off, len)| FSpec::Crypto { off, len }).boxed(),
        6 => blen().prop_map(|len| FSpec::NewToken { len }).boxed(),
        7 => (vint(), prop_oneof![1 => Just(0u64), 3 => vint()], blen(), any::<bool>(), any::<bool>(), any::<bool>())
            .prop_map(|(sid, off, len, has_off, has_len, fin)| FSpec::Stream { sid, off, len, has_off, has_len, fin })
            .boxed(),
        8 => vint().prop_map(|v| FSpec::MaxData { v }).boxed(),
        9 => (vint(), vint()).prop_map(|(sid, v)| FSpec::MaxStreamData { sid, v }).boxed(),
        10 => (any::<bool>(), prop_oneof![1 => Just(1u64 << 60), 4 => vint()])
            .prop_map(|(uni, v)| FSpec::MaxStreams { uni, v })
            .boxed(),
        11 => vint().prop_map(|v| FSpec::DataBlocked { v }).boxed(),
        12 => (vint(), vint()).prop_map(|(sid, v)| FSpec::StreamDataBlocked { sid, v }).boxed(),
        13 => (any::<bool>(), vint()).prop_map(|(uni, v)| FSpec::StreamsBlocked { uni, v }).boxed(),
        14 => (vint(), any::<u16>(), 1u8..=20, any::<u8>())
            .prop_map(|(seq, r, cid_len, seed)| FSpec::NewCid {
                seq,
                retire: match r % 4 {
                    0 => 0,
                    1 => seq,
                    _ => gens::upto(r, seq),
                },
                cid_len,
                seed,
            })
            .boxed(),
        15 => vint().prop_map(|seq| FSpec::RetireCid { seq }).boxed(),
        16 => any::<[u8; 8]>().prop_map(|data| FSpec::PathChallenge { data }).boxed(),
        17 => any::<[u8; 8]>().prop_map(|data| FSpec::PathResponse { data }).boxed(),
        18 => (
            prop_oneof![6 => 0u64..=0x10, 3 => 0x100u64..=0x1ff, 1 => vint()],
            prop_oneof![8 => (0usize..FTYPES.len()).prop_map(|i| FTYPES[i]), 1 => vint()],
            blen(),
            prop::bool::weighted(0.85),
        )
            .prop_map(|(code, fty, reason, utf8)| FSpec::CloseQuic { code, fty, reason, utf8 })
            .boxed(),
        19 => (vint(), blen(), prop::bool::weighted(0.85))
            .prop_map(|(code, reason, utf8)| FSpec::CloseApp { code, reason, utf8 })
            .boxed(),
        20 => Just(FSpec::HandshakeDone).boxed(),
        21 => (any::<bool>(), blen()).prop_map(|(has_len, len)| FSpec::Datagram { has_len, len }).boxed(),
        22 => (vint(), addr(), vint(), nat()).prop_map(|(seq, addr, tire, nat)| FSpec::AddAddress { seq, addr, tire, nat }).boxed(),
        23 => vint().prop_map(|seq| FSpec::RemoveAddress { seq }).boxed(),
        24 => (vint(), vint(), addr(), vint(), nat())
            .prop_map(|(local, remote, addr, tire, nat)| FSpec::PunchMeNow { local, remote, addr, tire, nat })
            .boxed(),
        25 => (vint(), vint(), vint()).prop_map(|(local, remote, probe)| FSpec::PunchHello { local, remote, probe }).boxed(),
        _ => (vint(), vint(), vint()).prop_map(|(local, remote, probe)| FSpec::PunchDone { local, remote, probe }).boxed(),
    }
}

fn any_fspec() -> BoxedStrategy<FSpec> {
    let w = |k: usize| -> u32 {
        match k {
            0 | 1 | 20 => 2,
            2 | 7 | 18 => 6,
            5 | 6 | 14 | 19 | 21 | 22 | 24 => 4,
            _ => 3,
        }
    };
    let arms: Vec<(u32, BoxedStrategy<FSpec>)> = (0..27).map(|k| (w(k), fspec(k))).collect();
    proptest::strategy::Union::new_weighted(arms).boxed()
}

fn small_bytes() -> BoxedStrategy<Vec<u8>> {
    prop_oneof![
        3 => proptest::collection::vec(any::<u8>(), 1..=3),
        1 => proptest::collection::vec(any::<u8>(), 1..=20),
        1 => Just(vec![0u8]),
        1 => Just(vec![0xffu8; 8]),
    ]
    .boxed()
}

fn any_mut() -> BoxedStrategy<Mut> {
    let bound = prop_oneof![3 => proptest::sample::select(BOUNDS.to_vec()), 1 => vint()];
    prop_oneof![
        3 => (any::<u16>(), bound.clone()).prop_map(|(i, v)| Mut::SetVar { i, v }),
        4 => (any::<u16>(), bound).prop_map(|(i, v)| Mut::SetLen { i, v }),
        3 => (any::<u16>(), prop_oneof![Just(-1i8), Just(1i8), -3i8..=3]).prop_map(|(i, d)| Mut::NudgeLen { i, d }),
        2 => (any::<u16>(), proptest::sample::select(vec![1u8, 2, 4, 8])).prop_map(|(i, w)| Mut::Widen { i, w }),
        2 => (any::<u16>(), prop_oneof![Just(0u8), Just(20), Just(21), Just(255), any::<u8>()]).prop_map(|(i, v)| Mut::CidLen { i, v }),
        3 => (any::<u16>(), prop_oneof![(0u8..8).prop_map(|b| 1u8 << b), any::<u8>()]).prop_map(|(i, mask)| Mut::FlipType { i, mask }),
        2 => (any::<u16>(), small_bytes()).prop_map(|(i, bytes)| Mut::Grow { i, bytes }),
        2 => (any::<u16>(), 1u8..4).prop_map(|(i, n)| Mut::Shrink { i, n }),
        1 => any::<u16>().prop_map(|i| Mut::DropTok { i }),
        1 => any::<u16>().prop_map(|i| Mut::DupTok { i }),
        5 => any::<u16>().prop_map(|at| Mut::Truncate { at }),
        3 => (any::<u16>(), 0u8..8).prop_map(|(at, bit)| Mut::FlipBit { at, bit }),
        2 => small_bytes().prop_map(|bytes| Mut::Append { bytes }),
    ]
    .boxed()
}

fn muts() -> BoxedStrategy<Vec<Mut>> {
    prop_oneof![
        2 => Just(vec![]),
        6 => proptest::collection::vec(any_mut(), 1..=1),
        2 => proptest::collection::vec(any_mut(), 2..=3),
    ]
    .boxed()
}

fn random_bytes(max: usize) -> BoxedStrategy<Vec<u8>> {
    prop_oneof![
        3 => proptest::collection::vec(any::<u8>(), 0..=12),
        3 => proptest::collection::vec(any::<u8>(), 0..=80),
        1 => proptest::collection::vec(any::<u8>(), 0..=max),
        // varint-prefix heavy bytes
        2 => proptest::collection::vec(proptest::sample::select(vec![0u8, 1, 2, 0x3f, 0x40, 0x7f, 0x80, 0xbf, 0xc0, 0xff, 0x08, 0x10, 0x14]), 0..=40),
    ]
    .boxed()
}

fn frames_to_toks(frames: &[FSpec]) -> Toks {
    let mut frames = frames.to_vec();
    let n = frames.len();
    // a frame without length field can only end a packet
    for (i, f) in frames.iter_mut().enumerate() {
        if i + 1 < n {
            match f {
                FSpec::Stream { has_len, .. } | FSpec::Datagram { has_len, .. } => *has_len = true,
                _ => {}
            }
        }
    }
    let mut t = vec![];
    for f in &frames {
        frame_toks(f, &mut t);
    }
    t
}

fn payload_case() -> BoxedStrategy<BytesCase> {
    let structured = (proptest::collection::vec(any_fspec(), 1..=5), muts()).prop_map(|(frames, muts)| BytesCase {
        how: mut_label(&muts).into(),
        bytes: mutate(frames_to_toks(&frames), &muts),
    });
    // a known type code followed by random bytes
    let typed = ((0usize..FTYPES.len()), random_bytes(200)).prop_map(|(i, rest)| {
        let mut bytes = vec![];
        mv(&mut bytes, FTYPES[i]);
        bytes.extend_from_slice(&rest);
        BytesCase { how: "type+random".into(), bytes }
    });
    let random = random_bytes(1500).prop_map(|bytes| BytesCase { how: "random".into(), bytes });
    prop_oneof![10 => structured, 3 => typed, 2 => random].boxed()
}

fn cid_spec() -> BoxedStrategy<(u8, u8)> {
    (prop_oneof![1 => Just(0u8), 1 => Just(20u8), 2 => Just(8u8), 3 => 0u8..=20], any::<u8>()).boxed()
}

fn pspecs() -> BoxedStrategy<Vec<PSpec>> {
    let pay = || prop_oneof![2 => Just(20u32), 2 => 19u32..23, 1 => Just(63u32), 1 => Just(64u32), 3 => 20u32..200, 1 => 20u32..1400, 1 => Just(16384u32)];
    let long = (0u8..3, any::<u8>(), cid_spec(), cid_spec(), prop_oneof![Just(0u32), Just(64u32), 0u32..100], pay())
        .prop_map(|(kind, low, dcid, scid, token, payload)| PSpec::Long { kind, low, dcid, scid, token, payload });
    let short = (any::<u8>(), cid_spec(), pay()).prop_map(|(first, dcid, payload)| PSpec::Short { first, dcid, payload });
    let vn = (any::<u8>(), cid_spec(), cid_spec(), proptest::collection::vec(prop_oneof![any::<u32>(), Just(1u32)], 0..=8))
        .prop_map(|(first, dcid, scid, versions)| PSpec::VN { first: first & 0x7f, dcid, scid, versions });
    let retry = (any::<u8>(), cid_spec(), cid_spec(), 0u32..=120).prop_map(|(low, dcid, scid, token)| PSpec::Retry { low, dcid, scid, token });
    prop_oneof![
        6 => (proptest::collection::vec(long, 0..=3), proptest::option::of(short)).prop_map(|(mut l, s)| {
            l.extend(s);
            l
        }),
        1 => vn.prop_map(|p| vec![p]),
        1 => retry.prop_map(|p| vec![p]),
    ]
    .boxed()
}

fn datagram_case() -> BoxedStrategy<BytesCase> {
    let structured = (pspecs(), muts()).prop_map(|(ps, muts)| {
        let mut t = vec![];
        for p in &ps {
            packet_toks(p, &mut t);
        }
        BytesCase { how: mut_label(&muts).into(), bytes: mutate(t, &muts) }
    });
    // plausible first bytes (every header form, stun and forward look-alikes) + random bytes
    let typed = (
        prop_oneof![any::<u8>(), proptest::sample::select(vec![0xc0u8, 0xd0, 0xe0, 0xf0, 0x80, 0x40, 0x60, 0x68, 0xc2, 0xc3])],
        prop_oneof![Just(0u32), Just(1u32), any::<u32>()],
        random_bytes(300),
    )
        .prop_map(|(first, ver, rest)| {
            let mut bytes = vec![first];
            if first & 0x80 != 0 {
                bytes.extend_from_slice(&ver.to_be_bytes());
            }
            bytes.extend_from_slice(&rest);
            BytesCase { how: "first-byte+random".into(), bytes }
        });
    let random = random_bytes(1500).prop_map(|bytes| BytesCase { how: "random".into(), bytes });
    prop_oneof![10 => structured, 4 => typed, 1 => random].boxed()
}

fn pentry() -> BoxedStrategy<PEntry> {
    let known = (0usize..PARAM_IDS.len(), vint(), any::<u8>(), cid_spec(), blen()).prop_map(|(i, v, seed, cid, n)| {
        let id = PARAM_IDS[i];
        let val = match param_class(id).unwrap() {
            0 => PVal::Var(match id {
                0x03 => 1200 + v % 64328,
                0x08 | 0x09 => v.min(1 << 60),
                0x0a => v % 21,
                0x0e => v.max(2),
                _ => v,
            }),
            1 => PVal::Var(if id == 0x0b { v % (1 << 14) } else { v }),
            2 => PVal::Flag,
            3 => PVal::Token(seed),
            4 => PVal::Cid(cid.0, cid.1),
            5 => PVal::Preferred { cid, seed },
            _ => PVal::Bytes(n.min(300)),
        };
        PEntry { id, val }
    });
    // boundary-crossing values of the bounded parameters, and values of the wrong shape
    let edgy = (0usize..PARAM_IDS.len(), prop_oneof![proptest::sample::select(vec![0u64, 1, 2, 20, 21, 1199, 1200, 65527, 65528, 16383, 16384, 1 << 60, (1 << 60) + 1, VMAX]), vint()])
        .prop_map(|(i, v)| PEntry { id: PARAM_IDS[i], val: PVal::Var(v) });
    let unknown = (prop_oneof![(0u64..1000).prop_map(|n| 31 * n + 27), vint()], blen()).prop_map(|(id, n)| PEntry { id, val: PVal::Bytes(n.min(200)) });
    prop_oneof![8 => known, 2 => edgy, 2 => unknown].boxed()
}

fn params_case() -> BoxedStrategy<BytesCase> {
    let req = (cid_spec(), cid_spec(), any::<bool>(), any::<bool>());
    let structured = (proptest::collection::vec(pentry(), 0..=8), req, muts()).prop_map(|(mut es, (a, b, with_a, with_b), muts)| {
        // mostly carry the required ids so that complete sets are common
        if with_a {
            es.push(PEntry { id: 0x0f, val: PVal::Cid(a.0, a.1) });
        }
        if with_b {
            es.insert(0, PEntry { id: 0x00, val: PVal::Cid(b.0, b.1) });
        }
        let mut t = vec![];
        for e in &es {
            param_toks(e, &mut t);
        }
        BytesCase { how: mut_label(&muts).into(), bytes: mutate(t, &muts) }
    });
    let random = random_bytes(400).prop_map(|bytes| BytesCase { how: "random".into(), bytes });
    prop_oneof![10 => structured, 2 => random].boxed()
}

// ---------------------------------------------------------------------------
// exhaustive small-bound enumeration: every systematic mutation of a set of seeds
// ---------------------------------------------------------------------------

fn seed_frames() -> Vec<FSpec> {
    let a4 = Addr { v6: false, hi: 0, lo: 0x7f00_0001, port: 443 };
    let a6 = Addr { v6: true, hi: 0x2001_0db8_0000_0000, lo: 1, port: 65535 };
    let mut v = vec![
        FSpec::Padding,
        FSpec::Ping,
        FSpec::HandshakeDone,
        FSpec::Ack { largest: 1000, delay: 64, first: 3, ranges: vec![(0, 1), (70, 2)], ecn: None },
        FSpec::Ack { largest: 5, delay: 0, first: 5, ranges: vec![], ecn: Some((1, 64, 16384)) },
        FSpec::ResetStream { sid: 4, err: 64, fsize: 16384 },
        FSpec::StopSending { sid: 3, err: 1 << 30 },
        FSpec::Crypto { off: 0, len: 5 },
        FSpec::Crypto { off: 16384, len: 70 },
        FSpec::NewToken { len: 0 },
        FSpec::NewToken { len: 20 },
        FSpec::MaxData { v: 1 << 30 },
        FSpec::MaxStreamData { sid: 8, v: 65536 },
        FSpec::MaxStreams { uni: false, v: 1 << 60 },
        FSpec::MaxStreams { uni: true, v: 100 },
        FSpec::DataBlocked { v: 63 },
        FSpec::StreamDataBlocked { sid: 64, v: 64 },
        FSpec::StreamsBlocked { uni: false, v: 16383 },
        FSpec::StreamsBlocked { uni: true, v: 1 << 60 },
        FSpec::NewCid { seq: 5, retire: 2, cid_len: 8, seed: 1 },
        FSpec::NewCid { seq: 0, retire: 0, cid_len: 20, seed: 2 },
        FSpec::NewCid { seq: 70, retire: 70, cid_len: 1, seed: 3 },
        FSpec::RetireCid { seq: 9 },
        FSpec::PathChallenge { data: [1, 2, 3, 4, 5, 6, 7, 8] },
        FSpec::PathResponse { data: [0xff; 8] },
        FSpec::CloseQuic { code: 0x0a, fty: 0x06, reason: 12, utf8: true },
        FSpec::CloseQuic { code: 0x128, fty: 0x3d7e90, reason: 0, utf8: true },
        FSpec::CloseQuic { code: 0x07, fty: 0x00, reason: 9, utf8: false },
        FSpec::CloseApp { code: 77, reason: 3, utf8: true },
        FSpec::Datagram { has_len: true, len: 7 },
        FSpec::Datagram { has_len: false, len: 7 },
        FSpec::Datagram { has_len: false, len: 0 },
        FSpec::AddAddress { seq: 1, addr: a4, tire: 2, nat: 3 },
        FSpec::AddAddress { seq: 70, addr: a6, tire: 0, nat: 5 },
        FSpec::RemoveAddress { seq: 64 },
        FSpec::PunchMeNow { local: 1, remote: 2, addr: a4, tire: 3, nat: 0 },
        FSpec::PunchMeNow { local: 64, remote: 0, addr: a6, tire: 1, nat: 4 },
        FSpec::PunchHello { local: 1, remote: 64, probe: 16384 },
        FSpec::PunchDone { local: 0, remote: 0, probe: 0 },
    ];
    for bits in 0..8u8 {
        v.push(FSpec::Stream {
            sid: 4,
            off: if bits & 4 != 0 { 70 } else { 0 },
            len: 9,
            has_off: bits & 4 != 0,
            has_len: bits & 2 != 0,
            fin: bits & 1 != 0,
        });
    }
    v.push(FSpec::Stream { sid: 1, off: 0, len: 3, has_off: true, has_len: true, fin: false });
    v
}

/// every systematic mutation of one token list
fn enumerate_mutations(seed: &Toks, tail: &[u8], emit: &mut dyn FnMut(&'static str, Vec<u8>)) {
    let with_tail = |mut b: Vec<u8>| {
        b.extend_from_slice(tail);
        b
    };
    let base = ser(seed);
    emit("valid", with_tail(base.clone()));
    // truncation at every position (of the item itself, then with the tail present)
    let step = if base.len() > 160 { base.len() / 80 } else { 1 };
    let mut at = 0;
    while at < base.len() {
        emit("truncate", base[..at].to_vec());
        at += step;
    }
    let full = with_tail(base.clone());
    for at in base.len()..full.len() {
        emit("truncate", full[..at].to_vec());
    }
    for (k, (tok, _)) in seed.iter().enumerate() {
        let put = |t: Tok, w: u8| {
            let mut s = seed.clone();
            s[k] = (t, w);
            with_tail(ser(&s))
        };
        match tok {
            Tok::V(x) | Tok::Len(x) => {
                let is_len = matches!(tok, Tok::Len(_));
                let mk = |v: u64| if is_len { Tok::Len(v) } else { Tok::V(v) };
                for b in BOUNDS {
                    emit(if is_len { "set-length" } else { "set-varint" }, put(mk(b), 0));
                }
                if is_len {
                    emit("set-length", put(mk(x.saturating_sub(1)), 0));
                    emit("set-length", put(mk(x + 1), 0));
                    emit("set-length", put(mk(x + 2), 0));
                }
                for w in [1u8, 2, 4, 8] {
                    emit("widen-varint", put(mk(*x), w));
                }
            }
            Tok::Ty(x) => {
                // every type code sharing the upper bytes, and every width
                for low in 0..=255u64 {
                    emit("flip-type", put(Tok::Ty((*x & !0xff) | low), 0));
                }
                for w in [2u8, 4, 8] {
                    emit("widen-varint", put(Tok::Ty(*x), w));
                }
            }
            Tok::First(_) => {
                for b in 0..=255u8 {
                    emit("flip-type", put(Tok::First(b), 0));
                }
            }
            Tok::CidLen(_) => {
                for b in 0..=255u8 {
                    emit("cid-length", put(Tok::CidLen(b), 0));
                }
            }
            Tok::B(bytes) => {
                let mut longer = bytes.clone();
                longer.push(0xA5);
                emit("resize-field", put(Tok::B(longer), 0));
                if !bytes.is_empty() {
                    emit("resize-field", put(Tok::B(bytes[..bytes.len() - 1].to_vec()), 0));
                    let mut flipped = bytes.clone();
                    flipped[0] ^= 0x80;
                    emit("flip-bit", put(Tok::B(flipped), 0));
                }
            }
        }
    }
    for extra in [[0x00u8], [0x01], [0x40], [0xff]] {
        let mut b = full.clone();
        b.extend_from_slice(&extra);
        emit("append", b);
    }
}

fn seed_datagrams() -> Vec<Vec<PSpec>> {
    let long = |kind: u8, d: u8, s: u8, token: u32, payload: u32| PSpec::Long { kind, low: 0, dcid: (d, 1), scid: (s, 2), token, payload };
    vec![
        vec![long(0, 8, 8, 0, 20)],
        vec![long(0, 20, 0, 5, 30)],
        vec![long(1, 0, 20, 0, 21)],
        vec![long(2, 8, 4, 0, 64)],
        vec![long(0, 8, 8, 64, 25), long(2, 8, 8, 0, 22), PSpec::Short { first: 0x40, dcid: (8, 1), payload: 24 }],
        vec![PSpec::Short { first: 0x60, dcid: (8, 1), payload: 20 }],
        vec![PSpec::Short { first: 0x40, dcid: (0, 1), payload: 21 }],
        vec![PSpec::Short { first: 0x40, dcid: (20, 1), payload: 20 }],
        vec![PSpec::VN { first: 0, dcid: (8, 1), scid: (8, 2), versions: vec![1, 0x6b33_43cf] }],
        vec![PSpec::VN { first: 0x7f, dcid: (0, 1), scid: (0, 2), versions: vec![] }],
        vec![PSpec::Retry { low: 0, dcid: (8, 1), scid: (8, 2), token: 10 }],
        vec![PSpec::Retry { low: 0xf, dcid: (0, 1), scid: (20, 2), token: 0 }],
    ]
}

fn seed_params() -> Vec<Vec<PEntry>> {
    let e = |id: u64, val: PVal| PEntry { id, val };
    let req = || vec![e(0x00, PVal::Cid(8, 1)), e(0x0f, PVal::Cid(8, 2))];
    let mut full = req();
    full.extend([
        e(0x01, PVal::Var(30_000)),
        e(0x02, PVal::Token(1)),
        e(0x03, PVal::Var(1472)),
        e(0x04, PVal::Var(1 << 20)),
        e(0x08, PVal::Var(100)),
        e(0x0a, PVal::Var(3)),
        e(0x0b, PVal::Var(25)),
        e(0x0c, PVal::Flag),
        e(0x0d, PVal::Preferred { cid: (8, 3), seed: 1 }),
        e(0x0e, PVal::Var(2)),
        e(0x10, PVal::Cid(20, 4)),
        e(0x20, PVal::Var(65535)),
        e(0x2ab2, PVal::Flag),
        e(27 + 31 * 7, PVal::Bytes(3)),
    ]);
    let mut client = vec![e(0x0f, PVal::Cid(0, 2)), e(0xffee, PVal::Bytes(6)), e(0x05, PVal::Var(64)), e(0x09, PVal::Var(1 << 60))];
    client.push(e(0x0f, PVal::Cid(5, 9))); // duplicate id: the last one wins
    vec![req(), full, client, vec![]]
}

// ---------------------------------------------------------------------------
// entry point shared with the libFuzzer targets (/verif/fuzz): the same oracle
// ---------------------------------------------------------------------------

/// `target`: 0 datagram, 1 payload, 2 transport parameters. `Ok(nontrivial)`, or the failure
/// (failures listed in known-findings.jsonl are passed over).
#[allow(dead_code)]
pub fn fuzz_one(target: u8, data: &[u8]) -> Result<bool, Fail> {
    static KNOWN: std::sync::OnceLock<Vec<String>> = std::sync::OnceLock::new();
    let known = KNOWN.get_or_init(|| vcore::load_known_findings("C03").into_iter().map(|k| k.signature).collect());
    let listed = |sig: &str| known.iter().any(|k| k.strip_suffix('*').map(|p| sig.starts_with(p)).unwrap_or(k == sig));
    let case = BytesCase { how: "fuzz".into(), bytes: data.to_vec() };
    let mut ctx = CaseCtx::default();
    let r = guarded(|| match target {
        0 => run_datagram(&case, &mut ctx),
        1 => run_payload(&case, &mut ctx),
        _ => run_params(&case, &mut ctx),
    });
    match r {
        Err(f) if !listed(&f.signature) => return Err(f),
        _ => {}
    }
    if let Some(f) = ctx.known.iter().find(|f| !listed(&f.signature)) {
        return Err(f.clone());
    }
    Ok(ctx.nontrivial)
}

// ---------------------------------------------------------------------------
// main
// ---------------------------------------------------------------------------

/// valid encodings used as the libFuzzer seed corpus (`c03 seeds <dir>` writes them)
#[allow(dead_code)]
pub fn seed_corpus(target: u8) -> Vec<Vec<u8>> {
    let mut out = vec![];
    match target {
        0 => {
            for ps in seed_datagrams() {
                let mut t = vec![];
                for p in &ps {
                    packet_toks(p, &mut t);
                }
                out.push(ser(&t));
            }
            // a forward header in front of a short-header packet, and a STUN look-alike
            let mut f = vec![0x65, 0x0b];
            f.extend(gens::content(0xF0, 0, 24));
            let mut t = vec![];
            packet_toks(&PSpec::Short { first: 0x40, dcid: (8, 1), payload: 24 }, &mut t);
            f.extend(ser(&t));
            out.push(f);
            out.push(vec![0xc2, 0, 0, 0, 0, 0, 0, 0, 1, 0, 1]);
        }
        1 => {
            let frames = seed_frames();
            for spec in &frames {
                let mut t = vec![];
                frame_toks(spec, &mut t);
                out.push(ser(&t));
            }
            // a few multi-frame payloads
            for w in frames.chunks(4) {
                out.push(ser(&frames_to_toks(w)));
            }
        }
        _ => {
            for es in seed_params() {
                let mut t = vec![];
                for x in &es {
                    param_toks(x, &mut t);
                }
                out.push(ser(&t));
            }
        }
    }
    out
}

#[allow(dead_code)]
fn main() {
    let args: Vec<String> = std::env::args().collect();
    if args.get(1).map(String::as_str) == Some("seeds") {
        let dir = args.get(2).expect("seeds <dir>");
        for (t, name) in ["datagram", "payload", "params"].iter().enumerate() {
            let d = format!("{dir}/{name}");
            std::fs::create_dir_all(&d).expect("create seed dir");
            for (i, b) in seed_corpus(t as u8).iter().enumerate() {
                std::fs::write(format!("{d}/seed-{i:03}"), b).expect("write seed");
            }
        }
        return;
    }
    let mut check = Check::from_env("C03", "exploration");
    // the property promises termination ("decoding terminates ... never loops without consuming
    // input"): a case that burns 30 s of CPU on an input of at most a datagram (typical: microseconds)
    // is reported as a violation with the input as replay file
    check.hang_budget(30, true);
    check.assume("termination is decided by a CPU budget of 30 s per case on the case's own thread (typical case: microseconds)");
    check.rule(
        "case = one byte string fed to an entry point the way the stack does: datagram -> PacketReader for every dcid_len 0..=20 \
         (whole, and behind a forward header when it sniffs as one) + be_endpoint_addr; payload -> FrameReader in Initial, 0-RTT, \
         Handshake and 1-RTT (both spin values) until the first Err/None; parameters -> Client/ServerParameters::parse_from_bytes and \
         try_from_remembered_bytes. Bytes are random, a known type code + random, or a reference encoding of frames (all 26 kinds) / \
         coalesced packets (Initial, 0-RTT, Handshake, 1-RTT, VN, Retry) / parameter sets with 0-3 mutations (set any varint or \
         length/count to a boundary value, +-1 a length, non-minimal width, CID length byte, type bits, grow/shrink/drop/duplicate a \
         field, truncate, flip a bit, append); exhaustive stages apply every single systematic mutation to a fixed seed list. Every \
         step is compared with an independent RFC 9000 reference decoder (accept/reject, bytes consumed, canonical re-encoding, \
         data slice position, error kind). non-trivial = at least one item decoded completely in some mode, or rejected after >=1 \
         field of a known frame type (>=2 header / TLV fields). distinct = by hash of the case.",
    );
    check.assume("the reference decoder in c03.rs follows RFC 9000 §16-§19, RFC 9221 and, for the gm-quic extension frames (0x3d7e90..96), the field order of their encoders; validation it applies: CID length <= 20, NEW_CONNECTION_ID retire_prior_to <= sequence and CID 1..20, MAX_STREAMS <= 2^60, offset+length <= 2^62-1, NAT type 0..5, transport-parameter ranges of RFC 9000 §18.2");
    check.assume("CONNECTION_CLOSE with an error code outside RFC 9000 §20.1 or an unknown offending frame type is treated as invalid like the decoder does (the latter is C05's open finding quicclose-ext-frametype-no-roundtrip)");
    check.assume("a duplicated transport parameter is not an error (RFC 9000 §7.4: SHOULD); the last value wins");
    check.assume("overflow checks and debug assertions are on in this build; the qlog conversion of received frames (telemetry feature) is not exercised");

    // ---- exhaustive: systematic single mutations of seed encodings
    check.exhaustive::<BytesCase, _>("payload-systematic", true, |e| {
        e.case(&BytesCase { how: "empty".into(), bytes: vec![] }, run_payload);
        for spec in seed_frames() {
            let mut t = vec![];
            frame_toks(&spec, &mut t);
            // a valid frame behind the mutated one shows whether framing survived
            let tail: &[u8] = if lenless(&spec) { &[] } else { &[0x01, 0x00] };
            let mut stop = false;
            enumerate_mutations(&t, tail, &mut |how, bytes| {
                if !stop {
                    e.case(&BytesCase { how: how.into(), bytes }, run_payload);
                    stop = e.stopped();
                }
            });
            if stop {
                return;
            }
        }
        // every 1- and 2-byte prefix class: type code x one following byte
        for code in 0..=0x40u64 {
            for next in [0x00u8, 0x3f, 0x40, 0x80, 0xc0, 0xff] {
                let mut bytes = vec![];
                mv(&mut bytes, code);
                bytes.push(next);
                e.case(&BytesCase { how: "type+byte".into(), bytes }, run_payload);
            }
        }
    });
    check.exhaustive::<BytesCase, _>("datagram-systematic", true, |e| {
        e.case(&BytesCase { how: "empty".into(), bytes: vec![] }, run_datagram);
        for ps in seed_datagrams() {
            let mut t = vec![];
            for p in &ps {
                packet_toks(p, &mut t);
            }
            let mut stop = false;
            enumerate_mutations(&t, &[], &mut |how, bytes| {
                if !stop {
                    e.case(&BytesCase { how: how.into(), bytes }, run_datagram);
                    stop = e.stopped();
                }
            });
            if stop {
                return;
            }
        }
        // forward-header look-alikes: every flag byte, with every length around the header size
        for flag in 0..=255u8 {
            for n in [0usize, 1, 5, 6, 11, 12, 13, 23, 24, 25, 35, 36, 37, 60, 71, 72, 73, 100] {
                let mut bytes = vec![0x65, flag];
                bytes.extend(gens::content(0xF0, flag as u64, n));
                e.case(&BytesCase { how: "forward-lookalike".into(), bytes }, run_datagram);
            }
        }
        for first in [0xc2u8, 0xc3] {
            for n in 0..12usize {
                let mut bytes = vec![first];
                bytes.extend(std::iter::repeat_n(0u8, n));
                e.case(&BytesCase { how: "stun-lookalike".into(), bytes }, run_datagram);
            }
        }
    });
    check.exhaustive::<BytesCase, _>("params-systematic", true, |e| {
        for es in seed_params() {
            let mut t = vec![];
            for x in &es {
                param_toks(x, &mut t);
            }
            let mut stop = false;
            enumerate_mutations(&t, &[], &mut |how, bytes| {
                if !stop {
                    e.case(&BytesCase { how: how.into(), bytes }, run_params);
                    stop = e.stopped();
                }
            });
            if stop {
                return;
            }
        }
        // every known id with every value length 0..=44 (shape errors of each value class)
        for id in PARAM_IDS {
            for n in 0..=44usize {
                for fill in [0x00u8, 0x05, 0x40, 0xff] {
                    let mut bytes = vec![];
                    mv(&mut bytes, 0x0f);
                    bytes.push(0);
                    mv(&mut bytes, id);
                    mv(&mut bytes, n as u64);
                    bytes.extend(std::iter::repeat_n(fill, n));
                    e.case(&BytesCase { how: "id+length".into(), bytes }, run_params);
                }
            }
        }
    });

    // ---- random stages
    let n = check.pick(400_000, 10_000_000);
    check.stage("payload-random", n, 16, payload_case, run_payload);
    let n = check.pick(200_000, 5_000_000);
    check.stage("datagram-random", n, 16, datagram_case, run_datagram);
    let n = check.pick(200_000, 5_000_000);
    check.stage("params-random", n, 16, params_case, run_params);
    check.finish();
}
