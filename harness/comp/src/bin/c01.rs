//! C01 — stream data is delivered reliably, in order, exactly once.
//!
//! Frame-level two-endpoint harness (DESIGN §2.2): two real `DataStreams` + `FlowController`
//! (client role and server role, constructed and "handshaken" the way qconnection/src/builder.rs
//! does), joined by a frame network owned by the case. Packets are produced with
//! `ArcReliableFrameDeque::try_load_frames_into` + `DataStreams::try_load_data_into` into a
//! `BufMut + RecordFrame` target of generated capacity, re-parsed with `FrameReader`, then
//! delivered / dropped / held / duplicated / re-cut per the generated schedule; acks and loss
//! reports are fed back per packet like `AckDataSpace` / `DataTracker` do. The applications are
//! tiny hand-polled tasks with flag wakers (no executor).

use std::{
    collections::BTreeMap,
    future::Future,
    pin::Pin,
    sync::{
        Arc,
        atomic::{AtomicBool, AtomicU64, Ordering},
    },
    task::{Context, Poll, Wake, Waker},
};

use bytes::{BufMut, Bytes, buf::UninitSlice};
use proptest::prelude::*;
use qbase::{
    cid::ConnectionId,
    flow::FlowController,
    frame::{
        Frame, FrameReader, GetFrameType, ReliableFrame, StreamCtlFrame, StreamFrame,
        io::{ReceiveFrame, SendFrame},
    },
    net::tx::ArcSendWakers,
    packet::{
        SpinBit,
        io::RecordFrame,
        r#type::{Type, short::OneRtt},
    },
    param::{ArcParameters, ClientParameters, ParameterId, Parameters, ServerParameters},
    role::Role,
    sid::{Dir, StreamId, handy::ConsistentConcurrency},
    util::ContinuousData,
};
use qrecovery::{
    recv::{Reader, StopSending},
    reliable::ArcReliableFrameDeque,
    send::{CancelStream, Writer},
    streams::{DataStreams, Ext, error::StreamError},
};
use serde::{Deserialize, Serialize};
use serde_json::json;
use tokio::io::{AsyncRead, AsyncWrite, ReadBuf};
use vcore::{CaseCtx, Check, Fail, Outcome, ensure, ensure_eq, fail, gens};

type Tx = ArcReliableFrameDeque<ReliableFrame>;
type Streams = DataStreams<Tx>;
type Rd = Reader<Ext<Tx>>;
type Wr = Writer<Ext<Tx>>;

// ---------------------------------------------------------------------------
// case
// ---------------------------------------------------------------------------

#[derive(Debug, Clone, Serialize, Deserialize, PartialEq)]
enum Item {
    /// one write of the next `len` content bytes; `direct` = `Writer::write` (never blocks),
    /// otherwise `AsyncWrite::poll_write` (blocks on the stream window)
    Write { len: u32, direct: bool },
    /// await `poll_flush`
    Flush,
}

#[derive(Debug, Clone, Serialize, Deserialize, PartialEq)]
enum End {
    /// never shut down: no end-of-stream
    Open,
    /// await `poll_shutdown`
    Fin,
    Cancel { code: u32 },
    /// `poll_shutdown` once, then `cancel(code)`
    FinThenCancel { code: u32 },
}

#[derive(Debug, Clone, Serialize, Deserialize)]
struct Script {
    items: Vec<Item>,
    end: End,
}

#[derive(Debug, Clone, Serialize, Deserialize)]
struct StreamSpec {
    by_server: bool,
    bidi: bool,
    /// initiator -> responder
    fwd: Script,
    /// responder -> initiator (bidirectional streams only)
    back: Script,
}

#[derive(Debug, Clone, Serialize, Deserialize, PartialEq)]
enum Op {
    /// poll the writer task of flow `f` once (one script item)
    W { f: u16 },
    /// poll the reader of flow `f` once: `AsyncRead` with an `n`-byte buffer, or `Stream::poll_next`
    R { f: u16, n: u16, next: bool },
    /// `Reader::stop(code)`
    Stop { f: u16, code: u32 },
    /// endpoint (`srv` = server) assembles one packet of `cap` bytes
    Send { srv: bool, cap: u16 },
    /// up to `n` packets of `cap` bytes
    Flight { srv: bool, n: u8, cap: u16 },
    /// deliver the `i`-th in-transit packet sent by `srv`; `keep` leaves a copy in transit
    /// (duplicate), `cuts` re-cut every STREAM frame, `rev` reverses the frame order
    Deliver { srv: bool, i: u16, keep: bool, cuts: Vec<u16>, rev: bool },
    Drop { srv: bool, i: u16 },
    /// acknowledge a delivered, not yet acknowledged packet of `srv`
    Ack { srv: bool, i: u16 },
    /// report a not yet acknowledged packet of `srv` lost (delivered or not)
    Loss { srv: bool, i: u16 },
    /// every in-transit packet of `srv`, in order, gets fate fates[k % len]:
    /// 0 deliver, 1 drop, 2 deliver twice, 3 hold, 4 deliver reversed
    Net { srv: bool, fates: Vec<u8> },
    /// every unacknowledged packet of `srv`, in order, gets modes[k % len]: 0 nothing, 1 ack (if delivered), 2 loss
    Feedback { srv: bool, modes: Vec<u8> },
}

/// The finite fair suffix: `lossy` rounds still apply `fates` (0 deliver, 1 drop, 2 duplicate,
/// 3 hold until the next round, 4 deliver but lose the ack -> spurious loss report), then the
/// network is clean and everything runs to quiescence.
#[derive(Debug, Clone, Serialize, Deserialize)]
struct Tail {
    caps: Vec<u16>,
    fates: Vec<u8>,
    lossy: u8,
    read_n: u16,
    next: bool,
}

#[derive(Debug, Clone, Serialize, Deserialize)]
struct Case {
    /// initial_max_stream_data_* of both endpoints
    win: u32,
    streams: Vec<StreamSpec>,
    ops: Vec<Op>,
    tail: Tail,
}

// ---------------------------------------------------------------------------
// wakers / tasks
// ---------------------------------------------------------------------------

#[derive(Default)]
struct Flag {
    woken: AtomicBool,
    count: AtomicU64,
}

impl Wake for Flag {
    fn wake(self: Arc<Self>) {
        self.wake_by_ref()
    }
    fn wake_by_ref(self: &Arc<Self>) {
        self.woken.store(true, Ordering::SeqCst);
        self.count.fetch_add(1, Ordering::SeqCst);
    }
}

struct Task {
    flag: Arc<Flag>,
    waker: Waker,
    /// the last poll returned Pending (a waker is registered)
    parked: bool,
}

impl Task {
    fn new() -> Self {
        let flag = Arc::new(Flag::default());
        Self { waker: Waker::from(flag.clone()), flag, parked: false }
    }
    fn runnable(&self) -> bool {
        !self.parked || self.flag.woken.load(Ordering::SeqCst)
    }
    fn woken(&self) -> bool {
        self.parked && self.flag.woken.load(Ordering::SeqCst)
    }
    /// call right before a poll
    fn arm(&mut self) -> Waker {
        self.flag.woken.store(false, Ordering::SeqCst);
        self.waker.clone()
    }
}

// ---------------------------------------------------------------------------
// packet target
// ---------------------------------------------------------------------------

/// What the sent-packet journal of the data space keeps (`GuaranteedFrame`).
#[derive(Debug, Clone)]
enum GFrame {
    Stream(StreamFrame),
    Reliable(ReliableFrame),
    Other,
}

struct Packet {
    buf: Vec<u8>,
    cap: usize,
    rec: Vec<GFrame>,
}

impl Packet {
    fn new(cap: usize) -> Self {
        Self { buf: Vec::with_capacity(cap), cap, rec: vec![] }
    }
}

unsafe impl BufMut for Packet {
    fn remaining_mut(&self) -> usize {
        self.cap - self.buf.len()
    }
    unsafe fn advance_mut(&mut self, cnt: usize) {
        assert!(cnt <= self.remaining_mut(), "packet overflow");
        let n = self.buf.len() + cnt;
        unsafe { self.buf.set_len(n) };
    }
    fn chunk_mut(&mut self) -> &mut UninitSlice {
        let len = self.buf.len();
        let cap = self.cap;
        if self.buf.capacity() < cap {
            self.buf.reserve(cap - len);
        }
        let spare = &mut self.buf.spare_capacity_mut()[..cap - len];
        UninitSlice::uninit(spare)
    }
}

impl<D: ContinuousData> RecordFrame<Frame<D>, D> for Packet {
    fn record_frame(&mut self, frame: &Frame<D>) {
        // same classification as qconnection's `GuaranteedFrame::try_from(&Frame)`
        match ReliableFrame::try_from(frame) {
            Ok(r) => self.rec.push(GFrame::Reliable(r)),
            Err(Frame::Stream(f, _)) => self.rec.push(GFrame::Stream(*f)),
            Err(_) => self.rec.push(GFrame::Other),
        }
    }
}

// ---------------------------------------------------------------------------
// interval set
// ---------------------------------------------------------------------------

#[derive(Default, Debug, Clone)]
struct Cover(Vec<(u64, u64)>);

impl Cover {
    fn add(&mut self, s: u64, e: u64) {
        if s >= e {
            return;
        }
        let mut ns = s;
        let mut ne = e;
        let mut out = Vec::with_capacity(self.0.len() + 1);
        let mut placed = false;
        for &(a, b) in &self.0 {
            if b < ns {
                out.push((a, b));
            } else if a > ne {
                if !placed {
                    out.push((ns, ne));
                    placed = true;
                }
                out.push((a, b));
            } else {
                ns = ns.min(a);
                ne = ne.max(b);
            }
        }
        if !placed {
            out.push((ns, ne));
        }
        self.0 = out;
    }
    /// length of the contiguous prefix from 0
    fn prefix(&self) -> u64 {
        match self.0.first() {
            Some(&(0, e)) => e,
            _ => 0,
        }
    }
    fn covers(&self, s: u64, e: u64) -> bool {
        s >= e || self.0.iter().any(|&(a, b)| a <= s && e <= b)
    }
    fn overlaps(&self, s: u64, e: u64) -> bool {
        s < e && self.0.iter().any(|&(a, b)| a < e && s < b)
    }
}

// ---------------------------------------------------------------------------
// world
// ---------------------------------------------------------------------------

#[derive(Clone, Copy, PartialEq, Debug)]
enum PktState {
    Flight,
    Lost,
    Acked,
}

struct SentPkt {
    frames: Vec<GFrame>,
    wire: Vec<Frame>,
    delivered: u32,
    in_transit: bool,
    state: PktState,
    /// delivered in a lossy tail round whose ack is withheld until the clean phase
    no_ack: bool,
}

struct Endpoint {
    role: Role,
    tx: Tx,
    streams: Streams,
    flow: FlowController<Tx>,
    params: ArcParameters,
    sent: Vec<SentPkt>,
    transit: Vec<usize>,
    /// packets whose fate is not final yet
    open: Vec<usize>,
    acc_bi: Task,
    acc_uni: Task,
}

#[derive(Clone, Copy, PartialEq, Debug)]
enum WDone {
    Open,
    Fin,
    Cancelled,
    Stopped(u64),
}

#[derive(Clone, Copy, PartialEq, Debug)]
enum REnd {
    Eof,
    Reset(u64),
}

struct Flow {
    stream: usize,
    back: bool,
    tx_ep: usize,
    rx_ep: usize,
    key: u64,
    script: Script,
    sid: Option<StreamId>,
    // ---- writer side
    writer: Option<Wr>,
    wtask: Task,
    pc: usize,
    end_stage: u8,
    written: u64,
    fin_called: bool,
    w_done: Option<WDone>,
    cancel_code: Option<u64>,
    write_blocked: bool,
    // ---- reader side
    reader: Option<Rd>,
    rtask: Task,
    got: u64,
    r_end: Option<REnd>,
    stop_code: Option<u64>,
    // ---- wire / network bookkeeping
    sent_frames: u64,
    max_sent_end: u64,
    fin_frames: u64,
    fin_only_frames: u64,
    lost: Cover,
    fin_lost: bool,
    retx_after_loss: bool,
    fin_resent: bool,
    delivered: Cover,
    fin_delivered: bool,
    reset_delivered: Option<u64>,
    stop_delivered: Option<u64>,
    acked: Cover,
    fin_acked: bool,
    ooo: bool,
    dup: bool,
    split: bool,
}

#[derive(Default)]
struct Stats {
    packets: u64,
    dropped: u64,
    spurious_loss: u64,
    ack_after_loss: u64,
    late_delivery: u64,
    rounds: u64,
    reset_before_accept: bool,
}

struct World {
    ep: [Endpoint; 2],
    flows: Vec<Flow>,
    specs: Vec<(bool, bool)>, // (by_server, bidi)
    fwd_of: Vec<usize>,
    back_of: Vec<Option<usize>>,
    opened: Vec<bool>,
    /// a frame naming the stream reached the endpoint that did not open it
    known: Vec<bool>,
    sids: BTreeMap<StreamId, usize>,
    stats: Stats,
    trace: bool,
}

macro_rules! tr {
    ($w:expr, $($arg:tt)*) => {
        if $w.trace {
            eprintln!($($arg)*);
        }
    };
}

fn harness<E: std::fmt::Debug>(what: &'static str) -> impl FnOnce(E) -> Fail {
    move |e| Fail::new("harness", format!("{what}: {e:?}"))
}

fn build_world(case: &Case) -> Result<World, Fail> {
    let odcid = ConnectionId::from_slice(&[9, 9, 9, 9, 9, 9, 9, 9]);
    let c_scid = ConnectionId::from_slice(&[1, 1, 1, 1, 1, 1, 1, 1]);
    let s_scid = ConnectionId::from_slice(&[2, 2, 2, 2, 2, 2, 2, 2]);
    let mut cp = ClientParameters::new();
    let mut sp = ServerParameters::new();
    const CONN_WIN: u32 = 1 << 30;
    const MAX_STREAMS: u32 = 64;
    macro_rules! both {
        ($id:expr, $v:expr) => {
            cp.set($id, $v).map_err(harness("client param"))?;
            sp.set($id, $v).map_err(harness("server param"))?;
        };
    }
    both!(ParameterId::InitialMaxData, CONN_WIN);
    both!(ParameterId::InitialMaxStreamDataBidiLocal, case.win);
    both!(ParameterId::InitialMaxStreamDataBidiRemote, case.win);
    both!(ParameterId::InitialMaxStreamDataUni, case.win);
    both!(ParameterId::InitialMaxStreamsBidi, MAX_STREAMS);
    both!(ParameterId::InitialMaxStreamsUni, MAX_STREAMS);
    cp.set(ParameterId::InitialSourceConnectionId, c_scid).map_err(harness("client scid"))?;
    sp.set(ParameterId::InitialSourceConnectionId, s_scid).map_err(harness("server scid"))?;
    sp.set(ParameterId::OriginalDestinationConnectionId, odcid).map_err(harness("odcid"))?;

    // -- construction as in qconnection/src/builder.rs: remote parameters unknown (defaults) ...
    let mk = |role: Role| -> Endpoint {
        let wakers = ArcSendWakers::default();
        let tx: Tx = ArcReliableFrameDeque::with_capacity_and_wakers(8, wakers.clone());
        let ctrl = Box::new(ConsistentConcurrency::new(MAX_STREAMS as u64, MAX_STREAMS as u64));
        let (streams, flow, params) = match role {
            Role::Client => {
                let remote = ServerParameters::default();
                (
                    DataStreams::new(role, &cp, &remote, ctrl, tx.clone(), wakers.clone(), None),
                    FlowController::new(
                        remote.get(ParameterId::InitialMaxData).unwrap(),
                        cp.get(ParameterId::InitialMaxData).unwrap(),
                        tx.clone(),
                        wakers.clone(),
                    ),
                    ArcParameters::from(Parameters::new_client(cp.clone(), None, odcid)),
                )
            }
            Role::Server => {
                let remote = ClientParameters::default();
                (
                    DataStreams::new(role, &sp, &remote, ctrl, tx.clone(), wakers.clone(), None),
                    FlowController::new(
                        remote.get(ParameterId::InitialMaxData).unwrap(),
                        sp.get(ParameterId::InitialMaxData).unwrap(),
                        tx.clone(),
                        wakers.clone(),
                    ),
                    ArcParameters::from(Parameters::new_server(sp.clone())),
                )
            }
        };
        Endpoint {
            role,
            tx,
            streams,
            flow,
            params,
            sent: vec![],
            transit: vec![],
            open: vec![],
            acc_bi: Task::new(),
            acc_uni: Task::new(),
        }
    };
    let client = mk(Role::Client);
    let server = mk(Role::Server);
    // -- ... then the handshake completes: parameters are authenticated and applied
    //    (tls_fin_handler/apply_parameters, zero_rtt_rejected = false)
    {
        let mut g = client.params.lock_guard().map_err(harness("client params"))?;
        g.initial_scid_from_peer_need_equal(s_scid).map_err(harness("client scid check"))?;
        g.recv_remote_params(sp.clone()).map_err(harness("client recv params"))?;
        ensure!(g.is_remote_params_ready(), "harness", "client parameters not ready");
    }
    client.streams.revise_params(false, &sp);
    client.flow.sender.revise_max_data(false, sp.get(ParameterId::InitialMaxData).unwrap());
    {
        let mut g = server.params.lock_guard().map_err(harness("server params"))?;
        g.initial_scid_from_peer_need_equal(c_scid).map_err(harness("server scid check"))?;
        g.recv_remote_params(cp.clone()).map_err(harness("server recv params"))?;
        ensure!(g.is_remote_params_ready(), "harness", "server parameters not ready");
    }
    server.streams.revise_params(false, &cp);
    server.flow.sender.revise_max_data(false, cp.get(ParameterId::InitialMaxData).unwrap());

    let mut flows = vec![];
    let mut fwd_of = vec![];
    let mut back_of = vec![];
    let mut specs = vec![];
    for (s, spec) in case.streams.iter().enumerate() {
        let init = spec.by_server as usize;
        specs.push((spec.by_server, spec.bidi));
        fwd_of.push(flows.len());
        flows.push(new_flow(s, false, init, 1 - init, flows.len() as u64 + 1, spec.fwd.clone()));
        if spec.bidi {
            back_of.push(Some(flows.len()));
            flows.push(new_flow(s, true, 1 - init, init, flows.len() as u64 + 1, spec.back.clone()));
        } else {
            back_of.push(None);
        }
    }
    let n = case.streams.len();
    Ok(World {
        ep: [client, server],
        flows,
        specs,
        fwd_of,
        back_of,
        opened: vec![false; n],
        known: vec![false; n],
        sids: BTreeMap::new(),
        stats: Stats::default(),
        trace: std::env::var_os("C01_TRACE").is_some(),
    })
}

fn new_flow(stream: usize, back: bool, tx_ep: usize, rx_ep: usize, key: u64, script: Script) -> Flow {
    Flow {
        stream,
        back,
        tx_ep,
        rx_ep,
        key,
        script,
        sid: None,
        writer: None,
        wtask: Task::new(),
        pc: 0,
        end_stage: 0,
        written: 0,
        fin_called: false,
        w_done: None,
        cancel_code: None,
        write_blocked: false,
        reader: None,
        rtask: Task::new(),
        got: 0,
        r_end: None,
        stop_code: None,
        sent_frames: 0,
        max_sent_end: 0,
        fin_frames: 0,
        fin_only_frames: 0,
        lost: Cover::default(),
        fin_lost: false,
        retx_after_loss: false,
        fin_resent: false,
        delivered: Cover::default(),
        fin_delivered: false,
        reset_delivered: None,
        stop_delivered: None,
        acked: Cover::default(),
        fin_acked: false,
        ooo: false,
        dup: false,
        split: false,
    }
}

// ---------------------------------------------------------------------------
// application side: open / accept
// ---------------------------------------------------------------------------

fn noop_cx<R>(f: impl FnOnce(&mut Context<'_>) -> R) -> R {
    let waker = futures::task::noop_waker();
    let mut cx = Context::from_waker(&waker);
    f(&mut cx)
}

fn open_stream(w: &mut World, s: usize) -> Outcome {
    if w.opened[s] {
        return Ok(());
    }
    let (by_server, bidi) = w.specs[s];
    let init = by_server as usize;
    let ep = &w.ep[init];
    let ff = w.fwd_of[s];
    let sid;
    if bidi {
        let r = noop_cx(|cx| {
            let mut fut = ep.streams.open_bi(&ep.params);
            Pin::new(&mut fut).poll(cx)
        });
        match r {
            Poll::Ready(Ok(Some((id, (rd, wr))))) => {
                sid = id;
                let bf = w.back_of[s].unwrap();
                w.flows[ff].writer = Some(wr);
                w.flows[bf].reader = Some(rd);
                w.flows[bf].sid = Some(id);
            }
            Poll::Ready(Ok(None)) => fail!("harness", "open_bi: stream ids exhausted"),
            Poll::Ready(Err(e)) => fail!("open-error", "open_bi failed: {e:?}"),
            Poll::Pending => fail!("open-pending", "open_bi pending although parameters are ready and {} streams are allowed", 64),
        }
        ensure!(sid.dir() == Dir::Bi, "open-sid", "open_bi returned {sid}");
    } else {
        let r = noop_cx(|cx| {
            let mut fut = ep.streams.open_uni(&ep.params);
            Pin::new(&mut fut).poll(cx)
        });
        match r {
            Poll::Ready(Ok(Some((id, wr)))) => {
                sid = id;
                w.flows[ff].writer = Some(wr);
            }
            Poll::Ready(Ok(None)) => fail!("harness", "open_uni: stream ids exhausted"),
            Poll::Ready(Err(e)) => fail!("open-error", "open_uni failed: {e:?}"),
            Poll::Pending => fail!("open-pending", "open_uni pending although parameters are ready"),
        }
        ensure!(sid.dir() == Dir::Uni, "open-sid", "open_uni returned {sid}");
    }
    ensure!(sid.role() == w.ep[init].role, "open-sid", "stream {sid} opened by {:?}", w.ep[init].role);
    ensure!(w.sids.insert(sid, s).is_none(), "open-sid", "stream id {sid} handed out twice");
    w.flows[ff].sid = Some(sid);
    w.opened[s] = true;
    tr!(w, "open stream#{s} {sid}");
    Ok(())
}

/// Accept every stream the listener of endpoint `e` has; `force` polls even without a wake-up.
/// Returns how many were accepted.
fn accept_all(w: &mut World, e: usize, force: bool) -> Result<usize, Fail> {
    let mut n = 0;
    // bidirectional
    if force || w.ep[e].acc_bi.runnable() {
        loop {
            let waker = w.ep[e].acc_bi.arm();
            let mut cx = Context::from_waker(&waker);
            let r = {
                let ep = &w.ep[e];
                let mut fut = ep.streams.accept_bi(&ep.params);
                Pin::new(&mut fut).poll(&mut cx)
            };
            match r {
                Poll::Ready(Ok((sid, (rd, wr)))) => {
                    let Some(&s) = w.sids.get(&sid) else {
                        fail!("accept-unknown-stream", "endpoint {e} accepted {sid}, which the peer never opened");
                    };
                    let (by_server, bidi) = w.specs[s];
                    ensure!(bidi && by_server as usize != e && sid.dir() == Dir::Bi, "accept-wrong-kind", "endpoint {e} accepted {sid} as a peer-initiated bidirectional stream");
                    let (ff, bf) = (w.fwd_of[s], w.back_of[s].unwrap());
                    ensure!(w.flows[ff].reader.is_none(), "accept-twice", "{sid} accepted twice");
                    if w.flows[ff].reset_delivered.is_some() {
                        w.stats.reset_before_accept = true;
                    }
                    w.flows[ff].reader = Some(rd);
                    w.flows[bf].writer = Some(wr);
                    w.flows[bf].sid = Some(sid);
                    w.ep[e].acc_bi.parked = false;
                    n += 1;
                    tr!(w, "ep{e} accept {sid}");
                }
                Poll::Ready(Err(err)) => fail!("accept-error", "accept_bi at endpoint {e}: {err:?}"),
                Poll::Pending => {
                    w.ep[e].acc_bi.parked = true;
                    break;
                }
            }
        }
    }
    if force || w.ep[e].acc_uni.runnable() {
        loop {
            let waker = w.ep[e].acc_uni.arm();
            let mut cx = Context::from_waker(&waker);
            let r = {
                let ep = &w.ep[e];
                let mut fut = ep.streams.accept_uni();
                Pin::new(&mut fut).poll(&mut cx)
            };
            match r {
                Poll::Ready(Ok((sid, rd))) => {
                    let Some(&s) = w.sids.get(&sid) else {
                        fail!("accept-unknown-stream", "endpoint {e} accepted {sid}, which the peer never opened");
                    };
                    let (by_server, bidi) = w.specs[s];
                    ensure!(!bidi && by_server as usize != e && sid.dir() == Dir::Uni, "accept-wrong-kind", "endpoint {e} accepted {sid} as a peer-initiated unidirectional stream");
                    let ff = w.fwd_of[s];
                    ensure!(w.flows[ff].reader.is_none(), "accept-twice", "{sid} accepted twice");
                    if w.flows[ff].reset_delivered.is_some() {
                        w.stats.reset_before_accept = true;
                    }
                    w.flows[ff].reader = Some(rd);
                    w.ep[e].acc_uni.parked = false;
                    n += 1;
                    tr!(w, "ep{e} accept {sid}");
                }
                Poll::Ready(Err(err)) => fail!("accept-error", "accept_uni at endpoint {e}: {err:?}"),
                Poll::Pending => {
                    w.ep[e].acc_uni.parked = true;
                    break;
                }
            }
        }
    }
    Ok(n)
}

fn ensure_writer(w: &mut World, f: usize) -> Outcome {
    if w.flows[f].writer.is_some() {
        return Ok(());
    }
    if !w.flows[f].back {
        open_stream(w, w.flows[f].stream)
    } else {
        let e = w.flows[f].tx_ep;
        accept_all(w, e, true).map(|_| ())
    }
}

fn ensure_reader(w: &mut World, f: usize) -> Outcome {
    if w.flows[f].reader.is_some() {
        return Ok(());
    }
    if w.flows[f].back {
        open_stream(w, w.flows[f].stream)
    } else {
        let e = w.flows[f].rx_ep;
        accept_all(w, e, true).map(|_| ())
    }
}

fn stream_err(e: std::io::Error) -> Result<StreamError, Fail> {
    e.get_ref()
        .and_then(|x| x.downcast_ref::<StreamError>())
        .cloned()
        .ok_or_else(|| Fail::new("harness", format!("io error without StreamError inside: {e:?}")))
}

// ---------------------------------------------------------------------------
// application side: writer task
// ---------------------------------------------------------------------------

#[derive(Debug, PartialEq, Clone, Copy)]
enum Step {
    Advanced,
    Pending,
    Done,
    Absent,
}

fn flow_name(fl: &Flow) -> String {
    format!(
        "flow(stream#{}{} {})",
        fl.stream,
        if fl.back { " back" } else { "" },
        fl.sid.map(|s| s.to_string()).unwrap_or_else(|| "unopened".into())
    )
}

/// The peer's STOP_SENDING is the only legitimate source of a writer-side error here.
fn writer_error(fl: &mut Flow, what: &str, e: StreamError) -> Result<Step, Fail> {
    match e {
        StreamError::Reset(r) if fl.stop_delivered == Some(r.error_code()) => {
            fl.w_done = Some(WDone::Stopped(r.error_code()));
            Ok(Step::Done)
        }
        other => fail!(
            "writer-unexpected-error",
            "{}: {what} failed with {other:?} (STOP_SENDING delivered: {:?}, own cancel: {:?})",
            flow_name(fl),
            fl.stop_delivered,
            fl.cancel_code
        ),
    }
}

fn writer_step(w: &mut World, f: usize) -> Result<Step, Fail> {
    if w.flows[f].w_done.is_some() {
        return Ok(Step::Done);
    }
    ensure_writer(w, f)?;
    let trace = w.trace;
    let fl = &mut w.flows[f];
    if fl.writer.is_none() {
        return Ok(Step::Absent);
    }
    let waker = fl.wtask.arm();
    let mut cx = Context::from_waker(&waker);
    fl.wtask.parked = false;
    let item = fl.script.items.get(fl.pc).cloned();
    let writer = fl.writer.as_mut().unwrap();
    match item {
        Some(Item::Write { len, direct }) => {
            let data = gens::content(fl.key, fl.written, len as usize);
            let r = if direct {
                Poll::Ready(writer.write(Bytes::from(data)))
            } else {
                match AsyncWrite::poll_write(Pin::new(writer), &mut cx, &data) {
                    Poll::Pending => Poll::Pending,
                    Poll::Ready(Ok(n)) => {
                        ensure_eq!(n, len as usize, "write-len", "{}: poll_write accepted", flow_name(fl));
                        Poll::Ready(Ok(()))
                    }
                    Poll::Ready(Err(e)) => Poll::Ready(Err(stream_err(e)?)),
                }
            };
            match r {
                Poll::Pending => {
                    fl.wtask.parked = true;
                    fl.write_blocked = true;
                    Ok(Step::Pending)
                }
                Poll::Ready(Ok(())) => {
                    if trace {
                        eprintln!("{} write {len} at {}", flow_name(fl), fl.written);
                    }
                    fl.written += len as u64;
                    fl.pc += 1;
                    Ok(Step::Advanced)
                }
                Poll::Ready(Err(e)) => writer_error(fl, "write", e),
            }
        }
        Some(Item::Flush) => match AsyncWrite::poll_flush(Pin::new(writer), &mut cx) {
            Poll::Pending => {
                fl.wtask.parked = true;
                Ok(Step::Pending)
            }
            Poll::Ready(Ok(())) => {
                ensure!(
                    fl.acked.prefix() >= fl.written,
                    "flush-early",
                    "{}: poll_flush completed but only [0,{}) of {} written bytes were acknowledged",
                    flow_name(fl),
                    fl.acked.prefix(),
                    fl.written
                );
                fl.pc += 1;
                Ok(Step::Advanced)
            }
            Poll::Ready(Err(e)) => {
                let e = stream_err(e)?;
                writer_error(fl, "flush", e)
            }
        },
        None => match fl.script.end.clone() {
            End::Open => {
                fl.w_done = Some(WDone::Open);
                Ok(Step::Done)
            }
            End::Cancel { code } => {
                writer.cancel(code as u64);
                fl.cancel_code = Some(code as u64);
                fl.w_done = Some(WDone::Cancelled);
                if trace {
                    eprintln!("{} cancel({code})", flow_name(fl));
                }
                Ok(Step::Done)
            }
            End::FinThenCancel { code } if fl.end_stage == 1 => {
                writer.cancel(code as u64);
                fl.cancel_code = Some(code as u64);
                fl.w_done = Some(WDone::Cancelled);
                if trace {
                    eprintln!("{} cancel({code}) after shutdown", flow_name(fl));
                }
                Ok(Step::Done)
            }
            end @ (End::Fin | End::FinThenCancel { .. }) => {
                let r = AsyncWrite::poll_shutdown(Pin::new(writer), &mut cx);
                if !fl.fin_called && trace {
                    eprintln!("{} shutdown at {}", flow_name(fl), fl.written);
                }
                match r {
                    Poll::Pending => {
                        fl.fin_called = true;
                        if matches!(end, End::FinThenCancel { .. }) {
                            fl.end_stage = 1;
                            Ok(Step::Advanced)
                        } else {
                            fl.wtask.parked = true;
                            Ok(Step::Pending)
                        }
                    }
                    Poll::Ready(Ok(())) => {
                        fl.fin_called = true;
                        ensure!(
                            fl.acked.prefix() >= fl.written && fl.fin_acked,
                            "shutdown-early",
                            "{}: poll_shutdown completed but acknowledged prefix is {} of {} bytes, FIN acknowledged: {}",
                            flow_name(fl),
                            fl.acked.prefix(),
                            fl.written,
                            fl.fin_acked
                        );
                        fl.w_done = Some(WDone::Fin);
                        Ok(Step::Done)
                    }
                    Poll::Ready(Err(e)) => {
                        let e = stream_err(e)?;
                        writer_error(fl, "shutdown", e)
                    }
                }
            }
        },
    }
}

// ---------------------------------------------------------------------------
// application side: reader
// ---------------------------------------------------------------------------

#[derive(Debug, PartialEq, Clone, Copy)]
enum ReadOut {
    Data(usize),
    Eof,
    Reset(u64),
    Pending,
    Absent,
}

fn reader_step(w: &mut World, f: usize, n: usize, next: bool) -> Result<ReadOut, Fail> {
    ensure_reader(w, f)?;
    let trace = w.trace;
    let fl = &mut w.flows[f];
    if fl.reader.is_none() {
        return Ok(ReadOut::Absent);
    }
    let waker = fl.rtask.arm();
    let mut cx = Context::from_waker(&waker);
    fl.rtask.parked = false;
    let reader = fl.reader.as_mut().unwrap();
    // raw outcome: Ok(Some(bytes)) data, Ok(None) end of stream, Err(e)
    let raw: Poll<Result<Option<Vec<u8>>, StreamError>> = if next {
        match Pin::new(reader).poll_next(&mut cx) {
            Poll::Pending => Poll::Pending,
            Poll::Ready(None) => Poll::Ready(Ok(None)),
            Poll::Ready(Some(Ok(b))) => {
                ensure!(!b.is_empty(), "next-empty-chunk", "{}: poll_next returned an empty chunk", flow_name(fl));
                Poll::Ready(Ok(Some(b.to_vec())))
            }
            Poll::Ready(Some(Err(e))) => Poll::Ready(Err(e)),
        }
    } else {
        let mut buf = vec![0u8; n.max(1)];
        let mut rb = ReadBuf::new(&mut buf);
        match AsyncRead::poll_read(Pin::new(reader), &mut cx, &mut rb) {
            Poll::Pending => Poll::Pending,
            Poll::Ready(Ok(())) => {
                let k = rb.filled().len();
                if k == 0 {
                    Poll::Ready(Ok(None))
                } else {
                    Poll::Ready(Ok(Some(rb.filled().to_vec())))
                }
            }
            Poll::Ready(Err(e)) => Poll::Ready(Err(stream_err(e)?)),
        }
    };
    let name = flow_name(fl);
    let final_size = fl.written;
    let complete = fl.fin_called && fl.fin_delivered && fl.delivered.prefix() >= final_size;
    match raw {
        Poll::Pending => {
            fl.rtask.parked = true;
            ensure!(fl.r_end.is_none(), "pending-after-end", "{name}: Pending after the reader already reported {:?}", fl.r_end);
            ensure!(
                fl.reset_delivered.is_none(),
                "read-pending-after-reset",
                "{name}: Pending although RESET_STREAM({:?}) was delivered ({} bytes read)",
                fl.reset_delivered,
                fl.got
            );
            ensure!(
                fl.delivered.prefix() <= fl.got,
                "read-pending-with-data",
                "{name}: Pending with {} bytes read although bytes [0,{}) were delivered",
                fl.got,
                fl.delivered.prefix()
            );
            ensure!(
                !(complete && fl.got == final_size),
                "read-pending-at-eof",
                "{name}: Pending although all {final_size} bytes and the FIN were delivered and read"
            );
            Ok(ReadOut::Pending)
        }
        Poll::Ready(Ok(Some(bytes))) => {
            let k = bytes.len();
            ensure!(fl.r_end.is_none(), "data-after-end", "{name}: {k} bytes returned after {:?}", fl.r_end);
            ensure!(
                fl.got + k as u64 <= fl.written,
                "read-beyond-written",
                "{name}: read {k} bytes at {} but only {} were written",
                fl.got,
                fl.written
            );
            let want = gens::content(fl.key, fl.got, k);
            if bytes != want {
                let at = bytes.iter().zip(&want).position(|(a, b)| a != b).unwrap_or(0);
                fail!(
                    "read-bytes",
                    "{name}: {k} bytes read at offset {} differ from what was written (first difference at stream offset {})",
                    fl.got,
                    fl.got + at as u64
                );
            }
            ensure!(
                fl.got + k as u64 <= fl.delivered.prefix(),
                "read-undelivered",
                "{name}: read up to {} but only [0,{}) was delivered",
                fl.got + k as u64,
                fl.delivered.prefix()
            );
            fl.got += k as u64;
            if trace {
                eprintln!("{name} read {k} -> {}", fl.got);
            }
            Ok(ReadOut::Data(k))
        }
        Poll::Ready(Ok(None)) => {
            ensure!(
                !matches!(fl.r_end, Some(REnd::Reset(_))),
                "eof-after-reset",
                "{name}: end of stream reported after {:?}",
                fl.r_end
            );
            ensure!(
                complete && fl.got == final_size,
                "eof-early",
                "{name}: end of stream reported after {} bytes; written {} bytes, shutdown called: {}, FIN delivered: {}, delivered prefix {}",
                fl.got,
                fl.written,
                fl.fin_called,
                fl.fin_delivered,
                fl.delivered.prefix()
            );
            if trace && fl.r_end.is_none() {
                eprintln!("{name} EOF at {}", fl.got);
            }
            fl.r_end = Some(REnd::Eof);
            Ok(ReadOut::Eof)
        }
        Poll::Ready(Err(StreamError::Reset(r))) => {
            let code = r.error_code();
            ensure!(
                fl.r_end.is_none() || fl.r_end == Some(REnd::Reset(code)),
                "reset-after-end",
                "{name}: Reset({code}) reported after {:?}",
                fl.r_end
            );
            ensure!(
                fl.reset_delivered == Some(code),
                "reset-unexpected",
                "{name}: reader reports Reset({code}) but the delivered RESET_STREAM is {:?}",
                fl.reset_delivered
            );
            if trace && fl.r_end.is_none() {
                eprintln!("{name} RESET({code}) at {}", fl.got);
            }
            fl.r_end = Some(REnd::Reset(code));
            Ok(ReadOut::Reset(code))
        }
        Poll::Ready(Err(e)) => fail!("reader-unexpected-error", "{name}: read failed with {e:?}"),
    }
}

fn reader_stop(w: &mut World, f: usize, code: u64) -> Outcome {
    ensure_reader(w, f)?;
    let fl = &mut w.flows[f];
    if fl.stop_code.is_some() {
        return Ok(());
    }
    if let Some(r) = fl.reader.as_mut() {
        r.stop(code);
        fl.stop_code = Some(code);
        tr!(w, "{} stop({code})", flow_name(&w.flows[f]));
    }
    Ok(())
}

// ---------------------------------------------------------------------------
// transport side: packets
// ---------------------------------------------------------------------------

/// The flow on which endpoint `e` sends (`sending`) or receives data of stream `sid`.
fn flow_of(w: &World, sid: StreamId, e: usize, sending: bool) -> Result<usize, Fail> {
    let Some(&s) = w.sids.get(&sid) else {
        fail!("unknown-stream-on-wire", "frame for {sid}, which no application opened");
    };
    let init = w.specs[s].0 as usize;
    let fwd = (init == e) == sending;
    if fwd {
        Ok(w.fwd_of[s])
    } else {
        w.back_of[s].ok_or_else(|| {
            Fail::new("wrong-direction-on-wire", format!("endpoint {e} {} unidirectional {sid} against its direction", if sending { "sends on" } else { "receives on" }))
        })
    }
}

/// Assemble one packet at endpoint `e` the way the 1-RTT space does (reliable frames first,
/// then stream data), check what is on the wire, and put it in transit. Returns false when
/// there was nothing to send.
fn send_packet(w: &mut World, e: usize, cap: usize) -> Result<bool, Fail> {
    let mut pkt = Packet::new(cap);
    {
        let ep = &w.ep[e];
        let _ = ep.tx.try_load_frames_into(&mut pkt);
        let _ = ep.streams.try_load_data_into(&mut pkt, &ep.flow.sender, false);
    }
    if pkt.buf.is_empty() {
        ensure!(pkt.rec.is_empty(), "harness", "frames recorded but no bytes written");
        return Ok(false);
    }
    ensure!(pkt.buf.len() <= cap, "packet-overflow", "{} bytes in a packet of {cap}", pkt.buf.len());
    let raw = Bytes::from(std::mem::take(&mut pkt.buf));
    let mut wire = vec![];
    for item in FrameReader::new(raw, Type::Short(OneRtt(SpinBit::Zero))) {
        match item {
            Ok((Frame::Padding(_), _)) => {}
            Ok((frame, _)) => wire.push(frame),
            Err(err) => fail!("wire-unparseable", "packet assembled by endpoint {e} does not parse: {err:?}"),
        }
    }
    let rec: Vec<GFrame> = pkt.rec.iter().filter(|g| !matches!(g, GFrame::Other)).cloned().collect();
    ensure_eq!(wire.len(), rec.len(), "wire-mismatch", "endpoint {e}: frames parsed from the packet vs frames recorded");
    let pn = w.ep[e].sent.len();
    for (fr, g) in wire.iter().zip(&rec) {
        match (fr, g) {
            (Frame::Stream(pf, data), GFrame::Stream(rf)) => {
                ensure!(
                    pf.stream_id() == rf.stream_id() && pf.offset() == rf.offset() && pf.len() == rf.len() && pf.is_fin() == rf.is_fin() && data.len() == pf.len(),
                    "wire-mismatch",
                    "endpoint {e}: recorded {rf:?}, parsed {pf:?} with {} data bytes",
                    data.len()
                );
                let f = flow_of(w, pf.stream_id(), e, true)?;
                let fl = &mut w.flows[f];
                let name = flow_name(fl);
                let (s, end) = (pf.offset(), pf.offset() + pf.len() as u64);
                ensure!(end <= fl.written, "wire-beyond-written", "{name}: frame [{s},{end}) but only {} bytes were written", fl.written);
                ensure!(
                    data[..] == gens::content(fl.key, s, pf.len())[..],
                    "wire-bytes",
                    "{name}: frame [{s},{end}) does not carry the bytes written at these offsets"
                );
                ensure!(
                    fl.cancel_code.is_none() && fl.stop_delivered.is_none(),
                    "wire-data-after-reset",
                    "{name}: STREAM frame [{s},{end}) assembled after the stream was reset"
                );
                let want_fin = fl.fin_called && end == fl.written;
                ensure_eq!(
                    pf.is_fin(),
                    want_fin,
                    "wire-fin-flag",
                    "{name}: FIN bit of frame [{s},{end}) (shutdown called: {}, written {})",
                    fl.fin_called,
                    fl.written
                );
                ensure!(pf.len() > 0 || pf.is_fin(), "wire-empty-frame", "{name}: empty STREAM frame without FIN at {s}");
                fl.sent_frames += 1;
                if fl.lost.overlaps(s, end) {
                    fl.retx_after_loss = true;
                }
                if pf.is_fin() {
                    if fl.fin_lost && fl.fin_frames > 0 {
                        fl.fin_resent = true;
                    }
                    fl.fin_frames += 1;
                    if pf.len() == 0 {
                        fl.fin_only_frames += 1;
                    }
                }
                fl.max_sent_end = fl.max_sent_end.max(end);
                tr!(w, "ep{e} pn{pn} STREAM {} [{s},{end}){}", pf.stream_id(), if pf.is_fin() { " FIN" } else { "" });
            }
            (Frame::StreamCtl(ctl), GFrame::Reliable(ReliableFrame::StreamCtl(rc))) => {
                ensure!(ctl == rc, "wire-mismatch", "endpoint {e}: recorded {rc:?}, parsed {ctl:?}");
                if let StreamCtlFrame::ResetStream(r) = ctl {
                    let f = flow_of(w, r.stream_id(), e, true)?;
                    let fl = &w.flows[f];
                    let name = flow_name(fl);
                    let code = r.app_error_code();
                    ensure!(
                        fl.cancel_code == Some(code) || fl.stop_delivered == Some(code),
                        "reset-code",
                        "{name}: RESET_STREAM with code {code}; cancel: {:?}, STOP_SENDING delivered: {:?}",
                        fl.cancel_code,
                        fl.stop_delivered
                    );
                    ensure!(
                        r.final_size() >= fl.max_sent_end && r.final_size() <= fl.written,
                        "reset-final-size",
                        "{name}: RESET_STREAM final size {} but data up to {} was sent and {} written",
                        r.final_size(),
                        fl.max_sent_end,
                        fl.written
                    );
                }
                if let StreamCtlFrame::StopSending(sf) = ctl {
                    let f = flow_of(w, sf.stream_id(), e, false)?;
                    let fl = &w.flows[f];
                    ensure!(
                        fl.stop_code == Some(sf.app_err_code()),
                        "stop-code",
                        "{}: STOP_SENDING with code {} but the reader called stop({:?})",
                        flow_name(fl),
                        sf.app_err_code(),
                        fl.stop_code
                    );
                }
                tr!(w, "ep{e} pn{pn} {ctl:?}");
            }
            (Frame::MaxData(_), GFrame::Reliable(ReliableFrame::MaxData(_)))
            | (Frame::DataBlocked(_), GFrame::Reliable(ReliableFrame::DataBlocked(_))) => {
                tr!(w, "ep{e} pn{pn} {fr:?}");
            }
            (a, b) => fail!("wire-mismatch", "endpoint {e}: parsed {a:?} but recorded {b:?}"),
        }
    }
    w.stats.packets += 1;
    let ep = &mut w.ep[e];
    ep.sent.push(SentPkt { frames: rec, wire, delivered: 0, in_transit: true, state: PktState::Flight, no_ack: false });
    ep.transit.push(pn);
    ep.open.push(pn);
    Ok(true)
}

fn split_frame(f: &StreamFrame, data: &Bytes, cuts: &[u16]) -> Vec<(StreamFrame, Bytes)> {
    let len = data.len();
    if cuts.is_empty() || len == 0 {
        return vec![(*f, data.clone())];
    }
    let mut points: Vec<usize> = cuts.iter().map(|c| gens::upto(*c, len as u64) as usize).collect();
    points.sort();
    points.dedup();
    let fin_separate = f.is_fin() && points.contains(&len);
    let mut edges = vec![0usize];
    edges.extend(points.iter().copied().filter(|p| *p > 0 && *p < len));
    edges.push(len);
    let mut out = vec![];
    let last = edges.len() - 2;
    for (k, win) in edges.windows(2).enumerate() {
        let (a, b) = (win[0], win[1]);
        let mut piece = StreamFrame::new(f.stream_id(), f.offset() + a as u64, b - a);
        piece.set_eos_flag(k == last && f.is_fin() && !fin_separate);
        out.push((piece, data.slice(a..b)));
    }
    if fin_separate {
        let mut piece = StreamFrame::new(f.stream_id(), f.offset() + len as u64, 0);
        piece.set_eos_flag(true);
        out.push((piece, Bytes::new()));
    }
    out
}

fn conn_error<E: std::fmt::Debug>(e: usize, what: String) -> impl FnOnce(E) -> Fail {
    move |err| Fail::new("conn-error", format!("endpoint {e} treats {what} from its (genuine) peer as a connection error: {err:?}"))
}

/// Deliver packet `pn` sent by endpoint `from` to the other endpoint (dispatch as in
/// qconnection/src/space/data.rs + FlowControlledDataStreams).
fn deliver(w: &mut World, from: usize, pn: usize, cuts: &[u16], rev: bool) -> Outcome {
    let to = 1 - from;
    let mut frames: Vec<Frame> = vec![];
    let mut was_split = false;
    for fr in &w.ep[from].sent[pn].wire {
        match fr {
            Frame::Stream(f, data) => {
                let pieces = split_frame(f, data, cuts);
                was_split |= pieces.len() > 1;
                frames.extend(pieces.into_iter().map(|(f, d)| Frame::Stream(f, d)));
            }
            other => frames.push(other.clone()),
        }
    }
    if rev {
        frames.reverse();
    }
    if w.ep[from].sent[pn].state == PktState::Lost && w.ep[from].sent[pn].delivered == 0 {
        w.stats.late_delivery += 1;
    }
    w.ep[from].sent[pn].delivered += 1;
    tr!(w, "deliver ep{from} pn{pn} ({} frames{})", frames.len(), if rev { ", reversed" } else { "" });
    for fr in frames {
        let sid = match &fr {
            Frame::Stream(f, _) => Some(f.stream_id()),
            Frame::StreamCtl(StreamCtlFrame::ResetStream(f)) => Some(f.stream_id()),
            Frame::StreamCtl(StreamCtlFrame::StopSending(f)) => Some(f.stream_id()),
            Frame::StreamCtl(StreamCtlFrame::MaxStreamData(f)) => Some(f.stream_id()),
            Frame::StreamCtl(StreamCtlFrame::StreamDataBlocked(f)) => Some(f.stream_id()),
            _ => None,
        };
        if let Some(sid) = sid {
            if let Some(&s) = w.sids.get(&sid) {
                // a frame naming a peer-initiated stream makes it (and every lower one) exist at `to`
                if w.specs[s].0 as usize != to {
                    w.known[s] = true;
                }
            }
        }
        match fr {
            Frame::Stream(f, data) => {
                let fi = flow_of(w, f.stream_id(), to, false)?;
                {
                    let fl = &mut w.flows[fi];
                    let (s, e) = (f.offset(), f.offset() + f.len() as u64);
                    if s < e {
                        if fl.delivered.covers(s, e) {
                            fl.dup = true;
                        }
                        if s > fl.delivered.prefix() {
                            fl.ooo = true;
                        }
                        fl.delivered.add(s, e);
                    }
                    if f.is_fin() {
                        fl.fin_delivered = true;
                    }
                    fl.split |= was_split;
                }
                let what = format!("{f:?}");
                let ep = &w.ep[to];
                let n = ep.streams.recv_data((f, data)).map_err(conn_error(to, what.clone()))?;
                ep.flow.on_new_rcvd(f.frame_type(), n).map_err(conn_error(to, what))?;
            }
            Frame::StreamCtl(ctl) => {
                match &ctl {
                    StreamCtlFrame::ResetStream(r) => {
                        let fi = flow_of(w, r.stream_id(), to, false)?;
                        let fl = &mut w.flows[fi];
                        if fl.reset_delivered.is_none() {
                            fl.reset_delivered = Some(r.app_error_code());
                        }
                    }
                    StreamCtlFrame::StopSending(s) => {
                        let fi = flow_of(w, s.stream_id(), to, true)?;
                        let fl = &mut w.flows[fi];
                        if fl.stop_delivered.is_none() {
                            fl.stop_delivered = Some(s.app_err_code());
                        }
                    }
                    StreamCtlFrame::MaxStreamData(m) => {
                        flow_of(w, m.stream_id(), to, true)?;
                    }
                    _ => {}
                }
                let what = format!("{ctl:?}");
                let ep = &w.ep[to];
                let n = ep.streams.recv_stream_control(ctl).map_err(conn_error(to, what.clone()))?;
                ep.flow.on_new_rcvd(ctl.frame_type(), n).map_err(conn_error(to, what))?;
            }
            Frame::MaxData(f) => {
                w.ep[to].flow.sender.recv_frame(f).map_err(conn_error(to, format!("{f:?}")))?;
            }
            Frame::DataBlocked(f) => {
                w.ep[to].flow.recver.recv_frame(f).map_err(conn_error(to, format!("{f:?}")))?;
            }
            other => fail!("harness", "unexpected frame in transit: {other:?}"),
        }
    }
    Ok(())
}

fn untransit(w: &mut World, from: usize, pn: usize) {
    let ep = &mut w.ep[from];
    ep.transit.retain(|p| *p != pn);
    ep.sent[pn].in_transit = false;
}

/// The peer acknowledged packet `pn` of endpoint `e` (AckDataSpace::recv_frame).
fn ack_packet(w: &mut World, e: usize, pn: usize) -> Outcome {
    let st = w.ep[e].sent[pn].state;
    ensure!(st != PktState::Acked && w.ep[e].sent[pn].delivered > 0, "harness", "ack of packet {pn} in state {st:?}");
    if st == PktState::Lost {
        w.stats.ack_after_loss += 1;
    }
    w.ep[e].sent[pn].state = PktState::Acked;
    tr!(w, "ack ep{e} pn{pn}");
    for g in w.ep[e].sent[pn].frames.clone() {
        match g {
            GFrame::Stream(f) => {
                let fi = flow_of(w, f.stream_id(), e, true)?;
                let fl = &mut w.flows[fi];
                fl.acked.add(f.offset(), f.offset() + f.len() as u64);
                if f.is_fin() {
                    fl.fin_acked = true;
                }
                w.ep[e].streams.on_data_acked(f);
            }
            GFrame::Reliable(ReliableFrame::StreamCtl(StreamCtlFrame::ResetStream(r))) => {
                w.ep[e].streams.on_reset_acked(r);
            }
            _ => {}
        }
    }
    Ok(())
}

/// Packet `pn` of endpoint `e` is declared lost (DataTracker::may_loss).
fn lose_packet(w: &mut World, e: usize, pn: usize) -> Outcome {
    let st = w.ep[e].sent[pn].state;
    ensure!(st != PktState::Acked, "harness", "loss of acknowledged packet {pn}");
    if w.ep[e].sent[pn].delivered > 0 {
        w.stats.spurious_loss += 1;
    }
    w.ep[e].sent[pn].state = PktState::Lost;
    tr!(w, "loss ep{e} pn{pn}");
    for g in w.ep[e].sent[pn].frames.clone() {
        match g {
            GFrame::Stream(f) => {
                let fi = flow_of(w, f.stream_id(), e, true)?;
                let fl = &mut w.flows[fi];
                fl.lost.add(f.offset(), f.offset() + f.len() as u64);
                if f.is_fin() {
                    fl.fin_lost = true;
                }
                w.ep[e].streams.may_loss_data(&f);
            }
            GFrame::Reliable(fr) => w.ep[e].tx.send_frame([fr]),
            GFrame::Other => {}
        }
    }
    Ok(())
}

// ---------------------------------------------------------------------------
// interpreter: generated prefix
// ---------------------------------------------------------------------------

fn pick<T: Copy>(list: &[T], i: u16) -> Option<T> {
    if list.is_empty() { None } else { Some(list[gens::idx(i, list.len())]) }
}

fn apply_fate(w: &mut World, e: usize, pn: usize, fate: u8) -> Outcome {
    match fate {
        1 => {
            untransit(w, e, pn);
            w.stats.dropped += 1;
            tr!(w, "drop ep{e} pn{pn}");
        }
        2 => {
            deliver(w, e, pn, &[], false)?;
            deliver(w, e, pn, &[], false)?;
            untransit(w, e, pn);
        }
        3 => {}
        4 => {
            deliver(w, e, pn, &[], true)?;
            untransit(w, e, pn);
        }
        _ => {
            deliver(w, e, pn, &[], false)?;
            untransit(w, e, pn);
        }
    }
    Ok(())
}

fn apply_op(w: &mut World, op: &Op) -> Outcome {
    let nflows = w.flows.len();
    match op {
        Op::W { f } => {
            writer_step(w, gens::idx(*f, nflows))?;
        }
        Op::R { f, n, next } => {
            reader_step(w, gens::idx(*f, nflows), *n as usize, *next)?;
        }
        Op::Stop { f, code } => reader_stop(w, gens::idx(*f, nflows), *code as u64)?,
        Op::Send { srv, cap } => {
            send_packet(w, *srv as usize, *cap as usize)?;
        }
        Op::Flight { srv, n, cap } => {
            for _ in 0..*n {
                if !send_packet(w, *srv as usize, *cap as usize)? {
                    break;
                }
            }
        }
        Op::Deliver { srv, i, keep, cuts, rev } => {
            let e = *srv as usize;
            if let Some(pn) = pick(&w.ep[e].transit, *i) {
                // at most 3 copies of one packet
                let keep = *keep && w.ep[e].sent[pn].delivered < 2;
                deliver(w, e, pn, cuts, *rev)?;
                if !keep {
                    untransit(w, e, pn);
                }
            }
        }
        Op::Drop { srv, i } => {
            let e = *srv as usize;
            if let Some(pn) = pick(&w.ep[e].transit, *i) {
                apply_fate(w, e, pn, 1)?;
            }
        }
        Op::Ack { srv, i } => {
            let e = *srv as usize;
            let list: Vec<usize> = w.ep[e].open.iter().copied().filter(|p| w.ep[e].sent[*p].state != PktState::Acked && w.ep[e].sent[*p].delivered > 0).collect();
            if let Some(pn) = pick(&list, *i) {
                ack_packet(w, e, pn)?;
            }
        }
        Op::Loss { srv, i } => {
            let e = *srv as usize;
            let list: Vec<usize> = w.ep[e].open.iter().copied().filter(|p| w.ep[e].sent[*p].state != PktState::Acked).collect();
            if let Some(pn) = pick(&list, *i) {
                lose_packet(w, e, pn)?;
            }
        }
        Op::Net { srv, fates } => {
            let e = *srv as usize;
            if !fates.is_empty() {
                for (k, pn) in w.ep[e].transit.clone().into_iter().enumerate() {
                    apply_fate(w, e, pn, fates[k % fates.len()])?;
                }
            }
        }
        Op::Feedback { srv, modes } => {
            let e = *srv as usize;
            if !modes.is_empty() {
                let list: Vec<usize> = w.ep[e].open.iter().copied().filter(|p| w.ep[e].sent[*p].state != PktState::Acked).collect();
                for (k, pn) in list.into_iter().enumerate() {
                    match modes[k % modes.len()] {
                        1 if w.ep[e].sent[pn].delivered > 0 => ack_packet(w, e, pn)?,
                        2 => lose_packet(w, e, pn)?,
                        _ => {}
                    }
                }
            }
        }
    }
    prune_open(w);
    Ok(())
}

/// forget packets whose fate is final: acknowledged, or lost for good (reported lost, never
/// delivered, no copy in transit)
fn prune_open(w: &mut World) {
    for ep in &mut w.ep {
        let sent = &ep.sent;
        ep.open.retain(|p| {
            let s = &sent[*p];
            !(s.state == PktState::Acked || (s.state == PktState::Lost && s.delivered == 0 && !s.in_transit))
        });
    }
}

// ---------------------------------------------------------------------------
// interpreter: fair suffix, quiescence, final verdicts
// ---------------------------------------------------------------------------

fn any_woken(w: &World) -> bool {
    w.ep.iter().any(|ep| ep.acc_bi.woken() || ep.acc_uni.woken())
        || w.flows.iter().any(|fl| (fl.w_done.is_none() && fl.writer.is_some() && fl.wtask.woken()) || (fl.r_end.is_none() && fl.reader.is_some() && fl.rtask.woken()))
}

fn run_tail(w: &mut World, case: &Case) -> Outcome {
    let tail = &case.tail;
    let items: usize = w.flows.iter().map(|f| f.script.items.len() + 2).sum();
    let budget = 40 + tail.lossy as usize + 3 * items + 8 * w.flows.len();
    for s in 0..w.opened.len() {
        open_stream(w, s)?;
    }
    let caps: Vec<usize> = if tail.caps.is_empty() { vec![1200] } else { tail.caps.iter().map(|c| *c as usize).collect() };
    let fates: Vec<u8> = if tail.fates.is_empty() { vec![0] } else { tail.fates.clone() };
    let read_n = (tail.read_n as usize).max(1);
    let mut force = true;
    let mut kc = 0usize;
    let mut kf = 0usize;
    let mut round = 0usize;
    loop {
        ensure!(
            round < budget,
            "no-quiescence",
            "still active after {round} rounds of a clean network (budget {budget} for {} flows, {items} script items): {}",
            w.flows.len(),
            summary(w)
        );
        let lossy = round < tail.lossy as usize;
        let mut active = false;
        tr!(w, "-- round {round}{}", if lossy { " (lossy)" } else { "" });
        // ---- applications (an executor: a task is polled again only after its waker fired)
        for e in 0..2 {
            active |= accept_all(w, e, force)? > 0;
        }
        for f in 0..w.flows.len() {
            if w.flows[f].w_done.is_none() && w.flows[f].writer.is_some() && (force || w.flows[f].wtask.runnable()) {
                loop {
                    match writer_step(w, f)? {
                        Step::Advanced => active = true,
                        Step::Done => {
                            active = true;
                            break;
                        }
                        Step::Pending | Step::Absent => break,
                    }
                }
            }
        }
        for f in 0..w.flows.len() {
            if w.flows[f].r_end.is_none() && w.flows[f].reader.is_some() && (force || w.flows[f].rtask.runnable()) {
                loop {
                    match reader_step(w, f, read_n, tail.next)? {
                        ReadOut::Data(_) => active = true,
                        ReadOut::Eof | ReadOut::Reset(_) => {
                            active = true;
                            break;
                        }
                        ReadOut::Pending | ReadOut::Absent => break,
                    }
                }
            }
        }
        force = false;
        // ---- both endpoints send everything they have
        for e in 0..2 {
            let mut n = 0usize;
            loop {
                let cap = caps[kc % caps.len()];
                kc += 1;
                if !send_packet(w, e, cap)? {
                    break;
                }
                active = true;
                n += 1;
                ensure!(n < 50_000, "send-storm", "endpoint {e} assembled {n} packets in one round: {}", summary(w));
            }
        }
        // ---- network
        for e in 0..2 {
            for pn in w.ep[e].transit.clone() {
                let fate = if lossy {
                    kf += 1;
                    fates[(kf - 1) % fates.len()]
                } else {
                    0
                };
                active = true;
                match fate {
                    1 | 2 | 3 => apply_fate(w, e, pn, fate)?,
                    4 => {
                        // delivered, but the acknowledgement is lost: the sender will call it lost
                        w.ep[e].sent[pn].no_ack = true;
                        apply_fate(w, e, pn, 0)?;
                    }
                    _ => apply_fate(w, e, pn, 0)?,
                }
            }
            // feedback
            for pn in w.ep[e].open.clone() {
                let (state, delivered, no_ack, in_transit) = {
                    let p = &w.ep[e].sent[pn];
                    (p.state, p.delivered, p.no_ack, p.in_transit)
                };
                if state == PktState::Acked {
                    continue;
                }
                if delivered > 0 && !(lossy && no_ack) {
                    ack_packet(w, e, pn)?;
                    active = true;
                } else if state == PktState::Flight && !in_transit {
                    lose_packet(w, e, pn)?;
                    active = true;
                }
            }
        }
        prune_open(w);
        round += 1;
        if !active && !any_woken(w) {
            break;
        }
    }
    w.stats.rounds = round as u64;
    Ok(())
}

fn summary(w: &World) -> String {
    let mut s = String::new();
    for fl in &w.flows {
        s.push_str(&format!(
            "[{} written {} pc {}/{} w_done {:?} acked {} fin_acked {} | delivered {} fin_delivered {} got {} r_end {:?} reset {:?} stop {:?}] ",
            flow_name(fl),
            fl.written,
            fl.pc,
            fl.script.items.len(),
            fl.w_done,
            fl.acked.prefix(),
            fl.fin_acked,
            fl.delivered.prefix(),
            fl.fin_delivered,
            fl.got,
            fl.r_end,
            fl.reset_delivered,
            fl.stop_delivered
        ));
    }
    for (e, ep) in w.ep.iter().enumerate() {
        s.push_str(&format!("ep{e}: {} sent, {} in transit, {} open; ", ep.sent.len(), ep.transit.len(), ep.open.len()));
    }
    s
}

/// At quiescence: nothing may be Pending that a direct poll finds Ready (lost wake-up),
/// and every flow must have reached the outcome the property promises.
fn final_verdict(w: &mut World, case: &Case) -> Outcome {
    // ---- lost wake-ups
    for e in 0..2 {
        let n = accept_all(w, e, true)?;
        ensure!(n == 0, "lost-wakeup-accept", "endpoint {e}: {n} stream(s) waiting in the listener although the accept waker never fired");
    }
    for f in 0..w.flows.len() {
        if w.flows[f].w_done.is_none() && w.flows[f].writer.is_some() && w.flows[f].wtask.parked {
            let before = (w.flows[f].pc, w.flows[f].end_stage);
            let step = writer_step(w, f)?;
            ensure!(
                step == Step::Pending,
                "lost-wakeup-writer",
                "{}: writer task parked at script position {:?} without a wake-up, but a direct poll makes progress ({step:?})",
                flow_name(&w.flows[f]),
                before
            );
        }
        if w.flows[f].r_end.is_none() && w.flows[f].reader.is_some() && w.flows[f].rtask.parked {
            let out = reader_step(w, f, (case.tail.read_n as usize).max(1), case.tail.next)?;
            ensure!(
                out == ReadOut::Pending,
                "lost-wakeup-reader",
                "{}: reader parked without a wake-up, but a direct poll returns {out:?}",
                flow_name(&w.flows[f])
            );
        }
    }
    // ---- per-flow outcome
    for f in 0..w.flows.len() {
        let s = w.flows[f].stream;
        if !w.opened[s] {
            continue;
        }
        // the responder's half exists as soon as any frame naming this or a higher stream of its kind arrived
        let known = (0..w.opened.len()).any(|t| w.specs[t] == w.specs[s] && w.known[t] && w.opened[t] && w.flows[w.fwd_of[t]].sid >= w.flows[w.fwd_of[s]].sid);
        let fl = &mut w.flows[f];
        let name = flow_name(fl);
        let interfered = fl.cancel_code.is_some() || fl.stop_code.is_some();
        // writer
        if fl.writer.is_none() {
            ensure!(fl.back && !known, "accept-missing", "{name}: the peer's frames created the stream but it never came out of accept()");
        } else {
            ensure!(
                fl.w_done.is_some(),
                "writer-stuck",
                "{name}: writer did not finish its script at quiescence of a clean network (position {} of {}, written {}, acknowledged prefix {}, FIN acknowledged {}, shutdown called {}, interfered {interfered})",
                fl.pc,
                fl.script.items.len(),
                fl.written,
                fl.acked.prefix(),
                fl.fin_acked,
                fl.fin_called
            );
            // flush of a stream left open must complete once everything is acknowledged
            if fl.w_done == Some(WDone::Open) {
                let waker = fl.wtask.arm();
                let mut cx = Context::from_waker(&waker);
                let r = AsyncWrite::poll_flush(Pin::new(fl.writer.as_mut().unwrap()), &mut cx);
                match r {
                    Poll::Ready(Ok(())) => ensure!(fl.acked.prefix() >= fl.written, "flush-early", "{name}: final flush completed with acknowledged prefix {} of {}", fl.acked.prefix(), fl.written),
                    Poll::Pending => fail!("flush-stuck", "{name}: poll_flush still Pending at quiescence ({} written, acknowledged prefix {})", fl.written, fl.acked.prefix()),
                    Poll::Ready(Err(e)) => {
                        let e = stream_err(e)?;
                        ensure!(
                            matches!(&e, StreamError::Reset(r) if fl.stop_delivered == Some(r.error_code())),
                            "writer-unexpected-error",
                            "{name}: final flush failed with {e:?}"
                        );
                    }
                }
            }
        }
        // reader
        if fl.reader.is_none() {
            ensure!(!fl.back && !known, "accept-missing", "{name}: frames of the stream were delivered but it never came out of accept()");
            continue;
        }
        if !interfered {
            ensure_eq!(fl.got, fl.written, "bytes-missing", "{name}: bytes read vs bytes written at quiescence of a clean network");
            if fl.fin_called {
                ensure!(fl.r_end == Some(REnd::Eof), "eof-missing", "{name}: all {} bytes read, writer shut down ({:?}), but the reader never saw the end of the stream ({:?})", fl.written, fl.w_done, fl.r_end);
                ensure!(fl.w_done == Some(WDone::Fin), "writer-stuck", "{name}: shutdown did not complete: {:?}", fl.w_done);
            } else {
                ensure!(fl.r_end.is_none(), "eof-early", "{name}: reader reports {:?} on a stream that was never shut down", fl.r_end);
            }
        } else {
            ensure!(
                fl.r_end.is_some(),
                "reader-stuck",
                "{name}: stream was cancelled ({:?}) / stopped ({:?}) but the reader reached neither end of stream nor a reset ({} of {} bytes read, RESET delivered {:?})",
                fl.cancel_code,
                fl.stop_code,
                fl.got,
                fl.written,
                fl.reset_delivered
            );
        }
    }
    Ok(())
}

// ---------------------------------------------------------------------------
// one case
// ---------------------------------------------------------------------------

fn history(w: &mut World, case: &Case) -> Outcome {
    for op in &case.ops {
        apply_op(w, op)?;
    }
    run_tail(w, case)?;
    final_verdict(w, case)
}

fn classify(w: &World, case: &Case, ctx: &mut CaseCtx) {
    let mut nontrivial = false;
    let any = |c: &str, on: bool, ctx: &mut CaseCtx| {
        if on {
            ctx.class(c);
        }
    };
    let fl = &w.flows;
    for f in fl {
        if f.sent_frames >= 2 && ((f.retx_after_loss && f.lost.0.iter().any(|&(a, b)| f.delivered.covers(a, b))) || f.ooo || f.dup) {
            nontrivial = true;
        }
    }
    any("stream-frame-lost-and-retransmitted", fl.iter().any(|f| f.retx_after_loss), ctx);
    any("stream-frame-out-of-order", fl.iter().any(|f| f.ooo), ctx);
    any("stream-frame-duplicate", fl.iter().any(|f| f.dup), ctx);
    any("stream-frame-recut", fl.iter().any(|f| f.split), ctx);
    any("fin-only-frame", fl.iter().any(|f| f.fin_only_frames > 0), ctx);
    any("fin-resent-after-loss", fl.iter().any(|f| f.fin_resent), ctx);
    any("cancelled", fl.iter().any(|f| f.cancel_code.is_some()), ctx);
    any("stopped", fl.iter().any(|f| f.stop_code.is_some()), ctx);
    any("reader-saw-reset", fl.iter().any(|f| matches!(f.r_end, Some(REnd::Reset(_)))), ctx);
    any("writer-saw-stop", fl.iter().any(|f| matches!(f.w_done, Some(WDone::Stopped(_)))), ctx);
    any("eof-despite-cancel-or-stop", fl.iter().any(|f| (f.cancel_code.is_some() || f.stop_code.is_some()) && f.r_end == Some(REnd::Eof)), ctx);
    any("reset-before-accept", w.stats.reset_before_accept, ctx);
    any("write-blocked-on-window", fl.iter().any(|f| f.write_blocked), ctx);
    any("no-fin-stream", fl.iter().any(|f| f.sid.is_some() && !f.fin_called && f.cancel_code.is_none() && f.written > 0), ctx);
    any("empty-stream-with-fin", fl.iter().any(|f| f.fin_called && f.written == 0), ctx);
    any("spurious-loss-report", w.stats.spurious_loss > 0, ctx);
    any("ack-after-loss-report", w.stats.ack_after_loss > 0, ctx);
    any("late-delivery-after-loss-report", w.stats.late_delivery > 0, ctx);
    any("packet-dropped", w.stats.dropped > 0, ctx);
    any("bidi", w.specs.iter().any(|s| s.1), ctx);
    any("server-initiated", w.specs.iter().any(|s| s.0), ctx);
    ctx.class(format!("streams={}", w.specs.len()));
    let frames: u64 = fl.iter().map(|f| f.sent_frames).sum();
    ctx.class(match frames {
        0..=1 => "frames<=1",
        2..=9 => "frames<=9",
        10..=99 => "frames<=99",
        _ => "frames>=100",
    });
    ctx.class(if case.win >= 1 << 20 { "window-generous" } else { "window-small" });
    if nontrivial {
        ctx.class("NONTRIVIAL");
        ctx.nontrivial();
        ctx.note(json!({
            "packets": w.stats.packets,
            "stream_frames": frames,
            "dropped": w.stats.dropped,
            "rounds_to_quiescence": w.stats.rounds,
            "bytes": fl.iter().map(|f| f.written).sum::<u64>(),
        }));
    }
}

fn run_case(case: &Case, ctx: &mut CaseCtx) -> Outcome {
    ensure!(!case.streams.is_empty() && case.streams.len() <= 8, "harness", "1..=8 streams");
    let mut world = build_world(case)?;
    // A panic inside the stack poisons its mutexes and Reader/Writer::drop lock them: dropping
    // the world while unwinding would abort the process. Leak it in that case instead.
    let r = std::panic::catch_unwind(std::panic::AssertUnwindSafe(|| history(&mut world, case)));
    match r {
        Ok(outcome) => {
            if outcome.is_ok() {
                classify(&world, case, ctx);
            }
            outcome
        }
        Err(payload) => {
            std::mem::forget(world);
            std::panic::resume_unwind(payload)
        }
    }
}

// ---------------------------------------------------------------------------
// generators
// ---------------------------------------------------------------------------

fn script_strategy(max_items: usize, max_total: u32) -> BoxedStrategy<Script> {
    let len = prop_oneof![
        1 => Just(0u32),
        3 => 1u32..=20,
        3 => 1u32..=300,
        3 => 1u32..=5000,
    ];
    let item = prop_oneof![
        12 => (len, prop_oneof![3 => Just(false), 1 => Just(true)]).prop_map(|(len, direct)| Item::Write { len, direct }),
        1 => Just(Item::Flush),
    ];
    let end = prop_oneof![
        4 => Just(End::Open),
        20 => Just(End::Fin),
        1 => (0u32..1000).prop_map(|code| End::Cancel { code }),
        1 => (0u32..1000).prop_map(|code| End::FinThenCancel { code }),
    ];
    let n = prop_oneof![2 => 0..=3usize, 3 => 0..=max_items.min(12), 1 => 0..=max_items];
    (n.prop_flat_map(move |n| proptest::collection::vec(item.clone(), n)), end)
        .prop_map(move |(mut items, end)| {
            // cap the stream's total size
            let mut total = 0u32;
            items.retain(|it| match it {
                Item::Write { len, .. } => {
                    if total + len > max_total {
                        false
                    } else {
                        total += len;
                        true
                    }
                }
                Item::Flush => true,
            });
            Script { items, end }
        })
        .boxed()
}

fn stream_strategy(max_items: usize, max_total: u32) -> BoxedStrategy<StreamSpec> {
    (any::<bool>(), any::<bool>(), script_strategy(max_items, max_total), script_strategy(max_items, max_total))
        .prop_map(|(by_server, bidi, fwd, back)| StreamSpec { by_server, bidi, fwd, back })
        .boxed()
}

fn cap_strategy() -> BoxedStrategy<u16> {
    prop_oneof![
        1 => 0u16..=29,
        4 => 30u16..=60,
        3 => 30u16..=300,
        3 => 300u16..=1500,
        2 => Just(1200u16),
    ]
    .boxed()
}

fn op_strategy() -> BoxedStrategy<Op> {
    let fates = proptest::collection::vec(prop_oneof![5 => Just(0u8), 2 => Just(1u8), 1 => Just(2u8), 2 => Just(3u8), 1 => Just(4u8)], 1..=6);
    let modes = proptest::collection::vec(prop_oneof![2 => Just(0u8), 4 => Just(1u8), 2 => Just(2u8)], 1..=6);
    let cuts = prop_oneof![
        4 => Just(vec![]),
        2 => proptest::collection::vec(any::<u16>(), 1..=3),
        1 => Just(vec![u16::MAX]),
    ];
    prop_oneof![
        40 => any::<u16>().prop_map(|f| Op::W { f }),
        20 => (any::<u16>(), prop_oneof![1u16..=8, 1u16..=4096], any::<bool>()).prop_map(|(f, n, next)| Op::R { f, n, next }),
        1 => (any::<u16>(), 0u32..1000).prop_map(|(f, code)| Op::Stop { f, code }),
        28 => (any::<bool>(), cap_strategy()).prop_map(|(srv, cap)| Op::Send { srv, cap }),
        12 => (any::<bool>(), 1u8..=12, cap_strategy()).prop_map(|(srv, n, cap)| Op::Flight { srv, n, cap }),
        28 => (any::<bool>(), any::<u16>(), prop_oneof![5 => Just(false), 1 => Just(true)], cuts, prop_oneof![4 => Just(false), 1 => Just(true)])
            .prop_map(|(srv, i, keep, cuts, rev)| Op::Deliver { srv, i, keep, cuts, rev }),
        8 => (any::<bool>(), any::<u16>()).prop_map(|(srv, i)| Op::Drop { srv, i }),
        16 => (any::<bool>(), any::<u16>()).prop_map(|(srv, i)| Op::Ack { srv, i }),
        12 => (any::<bool>(), any::<u16>()).prop_map(|(srv, i)| Op::Loss { srv, i }),
        12 => (any::<bool>(), fates).prop_map(|(srv, fates)| Op::Net { srv, fates }),
        12 => (any::<bool>(), modes).prop_map(|(srv, modes)| Op::Feedback { srv, modes }),
    ]
    .boxed()
}

fn tail_strategy() -> BoxedStrategy<Tail> {
    (
        proptest::collection::vec(prop_oneof![2 => 25u16..=60, 2 => 60u16..=400, 3 => 400u16..=1500], 1..=4),
        proptest::collection::vec(prop_oneof![6 => Just(0u8), 3 => Just(1u8), 1 => Just(2u8), 2 => Just(3u8), 1 => Just(4u8)], 1..=8),
        prop_oneof![1 => Just(0u8), 3 => 1u8..=6],
        prop_oneof![1 => 1u16..=16, 3 => 64u16..=8192],
        any::<bool>(),
    )
        .prop_map(|(caps, fates, lossy, read_n, next)| Tail { caps, fates, lossy, read_n, next })
        .boxed()
}

fn case_strategy(max_streams: usize, max_items: usize, max_total: u32, max_ops: usize) -> BoxedStrategy<Case> {
    let win = prop_oneof![
        5 => Just(1u32 << 20),
        1 => 1u32..=200,
        2 => 200u32..=5000,
        2 => 5000u32..=70_000,
    ];
    let nstreams = prop_oneof![3 => 1..=2usize, 2 => 1..=max_streams.min(4), 1 => 1..=max_streams];
    (
        win,
        nstreams.prop_flat_map(move |n| proptest::collection::vec(stream_strategy(max_items, max_total), n)),
        proptest::collection::vec(op_strategy(), 0..=max_ops),
        tail_strategy(),
    )
        .prop_map(|(win, streams, ops, mut tail)| {
            // keep tiny packets for small transfers (the number of packets is bytes / capacity)
            let bytes: u64 = streams
                .iter()
                .flat_map(|s| s.fwd.items.iter().chain(if s.bidi { s.back.items.iter() } else { [].iter() }))
                .map(|it| match it {
                    Item::Write { len, .. } => *len as u64,
                    _ => 0,
                })
                .sum();
            if bytes > 60_000 {
                for c in &mut tail.caps {
                    *c = (*c).max(300);
                }
            }
            Case { win, streams, ops, tail }
        })
        .boxed()
}

// ---------------------------------------------------------------------------
// exhaustive small tier: every fate pattern and delivery order of the first transmissions
// ---------------------------------------------------------------------------

/// smallest i with gens::idx(i, n) == p
fn inv_idx(p: usize, n: usize) -> u16 {
    let i = ((p << 16) + n - 1) / n;
    debug_assert_eq!(gens::idx(i as u16, n), p);
    i as u16
}

fn permutations(n: usize) -> Vec<Vec<usize>> {
    fn rec(cur: &mut Vec<usize>, used: &mut Vec<bool>, out: &mut Vec<Vec<usize>>) {
        if cur.len() == used.len() {
            out.push(cur.clone());
            return;
        }
        for i in 0..used.len() {
            if !used[i] {
                used[i] = true;
                cur.push(i);
                rec(cur, used, out);
                cur.pop();
                used[i] = false;
            }
        }
    }
    let mut out = vec![];
    rec(&mut vec![], &mut vec![false; n], &mut out);
    out
}

/// Two short client streams (one unidirectional, one bidirectional whose responder answers
/// with an empty stream), `rounds` packets each carrying one frame of both streams, FIN either
/// on the last data frames (`fin_with_data`) or in frames of its own in an extra packet.
/// Packet fates: 0 delivered+acked, 1 lost, 2 delivered but reported lost, 3 delivered twice.
fn small_case(rounds: usize, fin_with_data: bool, fates: &[u8], order: &[usize]) -> Case {
    let w = |len| Item::Write { len, direct: false };
    let streams = vec![
        StreamSpec {
            by_server: false,
            bidi: false,
            fwd: Script { items: (0..rounds).map(|_| w(3)).collect(), end: End::Fin },
            back: Script { items: vec![], end: End::Open },
        },
        StreamSpec {
            by_server: false,
            bidi: true,
            fwd: Script { items: (0..rounds).map(|_| w(2)).collect(), end: End::Fin },
            back: Script { items: vec![], end: End::Fin },
        },
    ];
    // flows: 0 = uni fwd, 1 = bidi fwd, 2 = bidi back
    let (f0, f1) = (inv_idx(0, 3), inv_idx(1, 3));
    let mut ops = vec![];
    for k in 0..rounds {
        ops.push(Op::W { f: f0 });
        ops.push(Op::W { f: f1 });
        if k + 1 == rounds && fin_with_data {
            ops.push(Op::W { f: f0 });
            ops.push(Op::W { f: f1 });
        }
        ops.push(Op::Send { srv: false, cap: 80 });
    }
    if !fin_with_data {
        ops.push(Op::W { f: f0 });
        ops.push(Op::W { f: f1 });
        ops.push(Op::Send { srv: false, cap: 80 });
    }
    let npk = fates.len();
    // deliveries in the given order (packet numbers), dropped ones are dropped first
    let mut transit: Vec<usize> = (0..npk).collect();
    for pn in 0..npk {
        if fates[pn] == 1 {
            let p = transit.iter().position(|x| *x == pn).unwrap();
            ops.push(Op::Drop { srv: false, i: inv_idx(p, transit.len()) });
            transit.remove(p);
        }
    }
    for &pn in order {
        if fates[pn] == 1 {
            continue;
        }
        let p = transit.iter().position(|x| *x == pn).unwrap();
        let i = inv_idx(p, transit.len());
        if fates[pn] == 3 {
            ops.push(Op::Deliver { srv: false, i, keep: true, cuts: vec![], rev: false });
        }
        ops.push(Op::Deliver { srv: false, i, keep: false, cuts: vec![], rev: false });
        transit.remove(p);
    }
    // feedback in packet-number order
    ops.push(Op::Feedback {
        srv: false,
        modes: fates.iter().map(|f| match f {
            0 | 3 => 1,
            _ => 2,
        }).collect(),
    });
    Case {
        win: 1 << 20,
        streams,
        ops,
        tail: Tail { caps: vec![80], fates: vec![0], lossy: 0, read_n: 64, next: false },
    }
}

fn main() {
    let mut check = Check::from_env("C01", "exploration");
    check.rule(
        "case = stream window + 1..6 streams (uni/bidi, either initiator; per direction a write script: chunks 0..5000 bytes via \
         AsyncWrite::poll_write or Writer::write, optional flush, then open / shutdown / cancel(code) / shutdown+cancel) + a schedule \
         of ops over {writer step, reader step (AsyncRead n bytes | Stream::poll_next), stop(code), assemble packet(capacity 0..1500), \
         deliver in-transit packet (optionally keeping a copy = duplicate, re-cutting its STREAM frames, reversing frame order), drop, \
         ack (delivered packets only), loss report (any unacked packet, repeatable), bulk fate patterns} + a finite tail: `lossy` rounds \
         that still drop/duplicate/hold/lose-acks by pattern, then a clean network run to quiescence with the applications driven as \
         wake-driven tasks. Two real DataStreams+FlowController (client, server) are joined by this frame network. \
         non-trivial = some stream with >=2 STREAM frames had a frame reported lost whose bytes were sent again and delivered, or a frame \
         delivered beyond a gap (out of order), or a frame delivered whose bytes had all been delivered before (duplicate). \
         distinct = by hash of the serialised case. exhaustive-small = every assignment of {delivered+acked, lost, delivered-but-reported-lost, \
         delivered twice} to the first-transmission packets of two short streams (one frame of each per packet) x every delivery order, \
         FIN on the last data frame or in a frame of its own.",
    );
    check.assume("acknowledgements are only produced for packets that were delivered (a genuine peer); loss reports may be spurious and repeated, never after the ack of the same packet (SentJournal semantics)");
    check.assume("flow-control limits are generous (connection 2^30, 64 streams); the stream window varies only to exercise blocked writers (C11 narrows the limits)");
    check.assume("the written bytes are a fixed position- and stream-dependent pattern, so any wrong, shifted or cross-stream byte is recognised");
    check.assume("no 0-RTT, no connection errors injected: any connection error raised by an endpoint against its genuine peer is reported");

    // ---- exhaustive small tier
    let max_rounds = if check.quick() { 3usize } else { 5 };
    check.exhaustive::<Case, _>("exhaustive-small", true, |e| {
        for rounds in 2..=max_rounds {
            for fin_with_data in [true, false] {
                if rounds == 5 && !fin_with_data {
                    continue; // 6 packets: 4^6 x 720 histories, left out
                }
                let npk = rounds + if fin_with_data { 0 } else { 1 };
                let perms = permutations(npk);
                let mut fates = vec![0u8; npk];
                loop {
                    for order in &perms {
                        // dropped packets are dropped up front: orders that differ only in their position are one history
                        let ndrop = fates.iter().filter(|f| **f == 1).count();
                        let canonical = order[..ndrop].iter().all(|p| fates[*p] == 1) && order[..ndrop].windows(2).all(|w| w[0] < w[1]);
                        if !canonical {
                            continue;
                        }
                        let case = small_case(rounds, fin_with_data, &fates, order);
                        e.case(&case, run_case);
                        if e.stopped() {
                            return;
                        }
                    }
                    // next fate vector (base 4)
                    let mut k = 0;
                    loop {
                        if k == npk {
                            break;
                        }
                        fates[k] += 1;
                        if fates[k] < 4 {
                            break;
                        }
                        fates[k] = 0;
                        k += 1;
                    }
                    if k == npk {
                        break;
                    }
                }
            }
        }
    });

    // ---- random model-based stages
    let n = check.pick(60_000, 1_500_000);
    check.stage("random-small", n, 16, || case_strategy(6, 8, 2_000, 80), run_case);
    let n = check.pick(16_000, 400_000);
    check.stage("random-medium", n, 16, || case_strategy(6, 20, 65_536, 120), run_case);
    if !check.quick() || check.is_replay() {
        let n = check.pick(0, 20_000);
        check.stage("random-large", n, 16, || case_strategy(4, 250, 1_048_576, 160), run_case);
    }
    check.finish();
}
