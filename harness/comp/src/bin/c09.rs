//! C09 — the send buffer keeps every unacknowledged byte and offers it for resending.
//!
//! Oracle: per-byte colour array {Pending, Flighting, Lost, Recved} + the written bytes
//! (reference model), compared with `SendBuf` after every operation through its public
//! API (`pick_up` result, `written`, `sent`, `is_all_rcvd`, `remaining_mut`, …) and, when
//! the read-only hook `SendBuf::verif_colour_map()` exists, byte-for-byte against the real
//! colour map after every operation. The same histories are driven through the crypto
//! stream's sending half (`CryptoStreamWriter` / `CryptoStreamOutgoing`, frames captured by
//! a `BufMut` packet target) and through the stream sender (`Writer` / `DataStreams`).

use std::{
    ops::Range,
    pin::Pin,
    sync::{Arc, Mutex},
    task::{Context, Poll},
};

use bytes::{BufMut, Bytes, buf::UninitSlice};
use proptest::prelude::*;
use qbase::{
    cid::ConnectionId,
    flow::ArcSendControler,
    frame::{
        CryptoFrame, DataBlockedFrame, EncodeSize, Frame, GetFrameType, MaxDataFrame, MaxStreamDataFrame,
        STREAM_FRAME_MAX_ENCODING_SIZE, StreamCtlFrame, StreamFrame, io::SendFrame,
    },
    net::tx::Signals,
    packet::io::RecordFrame,
    param::{ArcParameters, ClientParameters, ParameterId, Parameters, ServerParameters},
    role::Role,
    sid::{StreamId, handy::ConsistentConcurrency},
    varint::VarInt,
};
use qrecovery::{
    crypto::CryptoStream,
    send::{SendBuf, Writer},
    streams::{DataStreams, Ext},
};
use std::future::Future;
use serde::{Deserialize, Serialize};
use serde_json::json;
use tokio::io::AsyncWrite;
use vcore::{CaseCtx, Check, Fail, Outcome, ensure, ensure_eq, fail, gens};

// ---------------------------------------------------------------------------
// optional hook: `SendBuf::verif_colour_map()` / `verif_base()`
// An inherent method wins over a trait method of the same name, so this file
// compiles (and says "no hook") when the hook is absent, and uses it when present.
// ---------------------------------------------------------------------------

#[allow(dead_code)]
trait NoColourHook {
    fn verif_colour_map(&self) -> Option<Vec<(u64, u8)>> {
        None
    }
    fn verif_base(&self) -> Option<u64> {
        None
    }
}
impl NoColourHook for SendBuf {}

trait IntoOpt<T> {
    fn into_opt(self) -> Option<T>;
}
impl<T> IntoOpt<T> for Option<T> {
    fn into_opt(self) -> Option<T> {
        self
    }
}
impl IntoOpt<Vec<(u64, u8)>> for Vec<(u64, u8)> {
    fn into_opt(self) -> Option<Vec<(u64, u8)>> {
        Some(self)
    }
}
impl IntoOpt<u64> for u64 {
    fn into_opt(self) -> Option<u64> {
        Some(self)
    }
}

fn hook_map(buf: &SendBuf) -> Option<Vec<(u64, u8)>> {
    buf.verif_colour_map().into_opt()
}
fn hook_base(buf: &SendBuf) -> Option<u64> {
    buf.verif_base().into_opt()
}

// ---------------------------------------------------------------------------
// case
// ---------------------------------------------------------------------------

/// How an ack / loss report chooses its range among the ranges picked so far.
#[derive(Debug, Clone, Serialize, Deserialize, PartialEq)]
enum Sel {
    /// exactly a previously picked range (what the real callers report: one frame);
    /// `recent` > 0 restricts the choice to the last `recent` picks
    Exact { i: u16, recent: u8 },
    /// a non-empty sub-range of a previously picked range
    Sub { i: u16, recent: u8, a: u16, b: u16 },
    /// from the start of one picked range to the end of another (all of it sent before)
    Span { i: u16, j: u16 },
}

#[derive(Debug, Clone, Serialize, Deserialize, PartialEq)]
enum Op {
    Write { len: u32 },
    /// extend(max_data + by)
    Extend { by: u32 },
    /// pick_up(|_| pred, flow)
    Pick { pred: Option<u32>, flow: u32 },
    Ack(Sel),
    Loss(Sel),
    ResendFlighting,
}

#[derive(Debug, Clone, Serialize, Deserialize)]
struct Case {
    /// initial max_data
    cap: u32,
    ops: Vec<Op>,
}

// ---------------------------------------------------------------------------
// reference model
// ---------------------------------------------------------------------------

const P: u8 = 0;
const F: u8 = 1;
const L: u8 = 2;
const R: u8 = 3;

const STREAM: u64 = 9;
/// step number used in messages for the final drain that follows every history
const DRAIN: usize = 1_000_000;

#[derive(Clone)]
struct Model {
    written: u64,
    max_data: u64,
    /// colour of byte i, for i < min(written, max_data) (bytes beyond the window are not tracked yet)
    col: Vec<u8>,
    /// every range ever returned by a pick, in order
    picked: Vec<(u64, u64)>,
    /// picks with a smaller index happened before forget_sent_state()
    stale_from: usize,
}

impl Model {
    fn new(cap: u64) -> Self {
        Self { written: 0, max_data: cap, col: vec![], picked: vec![], stale_from: 0 }
    }
    fn size(&self) -> u64 {
        self.col.len() as u64
    }
    fn grow(&mut self) {
        let size = self.written.min(self.max_data) as usize;
        if size > self.col.len() {
            self.col.resize(size, P);
        }
    }
    fn write(&mut self, len: u64) {
        self.written += len;
        self.grow();
    }
    fn extend(&mut self, max_data: u64) {
        self.max_data = max_data;
        self.grow();
    }
    /// first byte that was never offered
    fn sent(&self) -> u64 {
        let pending = self.col.iter().rev().take_while(|c| **c == P).count();
        (self.col.len() - pending) as u64
    }
    /// first byte not acknowledged
    fn base(&self) -> u64 {
        self.col.iter().take_while(|c| **c == R).count() as u64
    }
    fn all_rcvd(&self) -> bool {
        self.base() == self.written
    }
    /// lowest offset that may be offered now
    fn eligible(&self, flow: u64) -> Option<u64> {
        self.col
            .iter()
            .position(|c| *c == L || (*c == P && flow > 0))
            .map(|p| p as u64)
    }
    fn run_end(&self, start: u64) -> u64 {
        let c = self.col[start as usize];
        let mut e = start as usize;
        while e < self.col.len() && self.col[e] == c {
            e += 1;
        }
        e as u64
    }
    fn ack(&mut self, r: &Range<u64>) {
        for c in &mut self.col[r.start as usize..r.end as usize] {
            *c = R;
        }
    }
    fn loss(&mut self, r: &Range<u64>) {
        for c in &mut self.col[r.start as usize..r.end as usize] {
            if *c == F {
                *c = L;
            }
        }
    }
    fn resend_flighting(&mut self) {
        for c in &mut self.col {
            if *c == F {
                *c = L;
            }
        }
    }
    /// number of maximal colour runs among the bytes not yet released
    fn runs(&self) -> usize {
        let b = self.base() as usize;
        let s = &self.col[b..];
        if s.is_empty() {
            return 0;
        }
        1 + s.windows(2).filter(|w| w[0] != w[1]).count()
    }
    /// the range a report refers to, and whether it was picked before forget_sent_state()
    fn select(&self, sel: &Sel) -> Option<(Range<u64>, bool)> {
        if self.picked.is_empty() {
            return None;
        }
        let n = self.picked.len();
        let choose = |i: u16, recent: u8| {
            let k = if recent == 0 { n } else { n.min(recent as usize) };
            let at = n - k + gens::idx(i, k);
            (self.picked[at], at < self.stale_from)
        };
        let r = match sel {
            Sel::Exact { i, recent } => {
                let ((s, e), stale) = choose(*i, *recent);
                (s..e, stale)
            }
            Sel::Sub { i, recent, a, b } => {
                let ((s, e), stale) = choose(*i, *recent);
                let s2 = s + gens::upto(*a, e - s - 1);
                let e2 = s2 + 1 + gens::upto(*b, e - s2 - 1);
                (s2..e2, stale)
            }
            Sel::Span { i, j } => {
                let (a, b) = (gens::idx(*i, n), gens::idx(*j, n));
                let (x, y) = (self.picked[a], self.picked[b]);
                (x.0.min(y.0)..x.1.max(y.1), a < self.stale_from || b < self.stale_from)
            }
        };
        Some(r)
    }
}

fn expand_hook_map(map: &[(u64, u8)]) -> Result<Vec<u8>, String> {
    // map = boundaries (offset, colour) in order + terminating (size, 0xff)
    let (size, term) = *map.last().ok_or("empty hook map")?;
    if term != 0xff {
        return Err("hook map without terminator".into());
    }
    let mut col = vec![R; size as usize]; // bytes before the first boundary were released as Recved
    let states = &map[..map.len() - 1];
    for (k, (off, c)) in states.iter().enumerate() {
        let end = states.get(k + 1).map(|s| s.0).unwrap_or(size);
        if *off > end || end > size {
            return Err(format!("boundaries out of order or beyond size: {map:?}"));
        }
        if k == 0 && *off > 0 {
            // leading part implicit Recved
        }
        for x in &mut col[*off as usize..end as usize] {
            *x = *c;
        }
    }
    Ok(col)
}

fn colour_name(c: u8) -> &'static str {
    match c {
        P => "Pending",
        F => "Flighting",
        L => "Lost",
        R => "Recved",
        _ => "?",
    }
}

fn runs_of(col: &[u8]) -> String {
    let mut out = String::new();
    let mut i = 0;
    while i < col.len() {
        let s = i;
        while i < col.len() && col[i] == col[s] {
            i += 1;
        }
        out.push_str(&format!("[{s}..{i}:{}]", colour_name(col[s])));
    }
    out
}

/// Observable state of the buffer vs the model (public API, plus the hook when present).
fn compare(buf: &SendBuf, m: &Model, step: usize, what: &str) -> Outcome {
    ensure_eq!(buf.written(), m.written, "written", "step {step} ({what}): written()");
    ensure_eq!(buf.max_data(), m.max_data, "max_data", "step {step} ({what}): max_data()");
    ensure_eq!(buf.sent(), m.sent(), "sent", "step {step} ({what}): sent()");
    ensure_eq!(
        buf.is_all_rcvd(),
        m.all_rcvd(),
        "is_all_rcvd",
        "step {step} ({what}): is_all_rcvd() with {} of {} written bytes acknowledged in order",
        m.base(),
        m.written
    );
    ensure_eq!(buf.is_empty(), m.all_rcvd(), "is_empty", "step {step} ({what}): is_empty()");
    ensure_eq!(
        buf.remaining_mut(),
        m.max_data.saturating_sub(m.written),
        "remaining_mut",
        "step {step} ({what}): remaining_mut()"
    );
    ensure_eq!(
        buf.has_remaining_mut(),
        m.max_data > m.written,
        "has_remaining_mut",
        "step {step} ({what}): has_remaining_mut()"
    );
    if let Some(map) = hook_map(buf) {
        let real = expand_hook_map(&map)
            .map_err(|e| Fail::new("colour-map-malformed", format!("step {step} ({what}): {e}")))?;
        ensure_eq!(
            real.len() as u64,
            m.size(),
            "colour-map-size",
            "step {step} ({what}): size of the colour map"
        );
        if real != m.col {
            let at = real.iter().zip(&m.col).position(|(a, b)| a != b).unwrap();
            fail!(
                "colour-map",
                "step {step} ({what}): colour map diverges at byte {at}: real {} model {}; real={} model={}",
                colour_name(real[at]),
                colour_name(m.col[at]),
                runs_of(&real),
                runs_of(&m.col)
            );
        }
        if let Some(base) = hook_base(buf) {
            ensure_eq!(base, m.base(), "base", "step {step} ({what}): data base offset");
        }
    }
    Ok(())
}

/// Validate one `pick_up` outcome against the model and apply it.
/// `allow` = the predicate's answer for the offset the model expects.
#[allow(clippy::too_many_arguments)]
fn check_pick(
    m: &mut Model,
    result: Result<(Range<u64>, bool, Vec<u8>), Signals>,
    allow: Option<u64>,
    flow: u64,
    step: usize,
    stats: &mut Stats,
) -> Outcome {
    let eligible = m.eligible(flow);
    match result {
        Err(_signals) => {
            if let (Some(at), Some(n)) = (eligible, allow) {
                fail!(
                    "pick-starved",
                    "step {step}: pick_up(Some({n}), flow {flow}) = Err although byte {at} is {} and inside the window; model={}",
                    colour_name(m.col[at as usize]),
                    runs_of(&m.col)
                );
            }
            Ok(())
        }
        Ok((range, fresh, data)) => {
            let Some(at) = eligible else {
                fail!(
                    "pick-nothing-eligible",
                    "step {step}: pick_up returned {range:?} fresh={fresh} although no byte is Lost (or Pending with flow {flow}); model={}",
                    runs_of(&m.col)
                );
            };
            let Some(n) = allow else {
                fail!("pick-ignores-predicate", "step {step}: pick_up returned {range:?} although the predicate said None");
            };
            ensure!(range.start < range.end, "pick-empty", "step {step} (1000000 = final drain): pick_up returned the empty range {range:?}");
            ensure!(
                range.end <= m.size() && range.end <= m.max_data,
                "pick-beyond-window",
                "step {step}: picked {range:?} but window/max_data is {} and {} bytes are written",
                m.max_data,
                m.written
            );
            let c = m.col[range.start as usize];
            let uniform = m.col[range.start as usize..range.end as usize].iter().all(|x| *x == c);
            ensure!(
                (c == P || c == L) && uniform,
                "pick-colour",
                "step {step}: picked {range:?} (fresh={fresh}) covers bytes that are not uniformly Pending or Lost: model={}",
                runs_of(&m.col)
            );
            ensure_eq!(
                range.start,
                at,
                "pick-priority",
                "step {step}: picked {range:?} but the lowest offerable byte is {at}; model={}",
                runs_of(&m.col)
            );
            ensure_eq!(
                fresh,
                c == P,
                "pick-fresh",
                "step {step}: picked {range:?}: is_fresh flag vs first offer of these bytes"
            );
            let len = range.end - range.start;
            let allowance = if c == P { n.min(flow) } else { n };
            ensure!(
                len <= allowance,
                "pick-allowance",
                "step {step}: picked {len} bytes {range:?} (fresh={fresh}) but predicate allows {n}, flow limit {flow}"
            );
            let want = gens::content(STREAM, range.start, len as usize);
            ensure!(
                data == want,
                "pick-data",
                "step {step}: data of {range:?} differs from what was written (got {} bytes, want {})",
                data.len(),
                want.len()
            );
            let run_end = m.run_end(range.start);
            if range.end == run_end.min(range.start + allowance) {
                stats.pick_maximal += 1;
            } else {
                stats.pick_short += 1;
            }
            for x in &mut m.col[range.start as usize..range.end as usize] {
                *x = F;
            }
            m.picked.push((range.start, range.end));
            if c == L {
                stats.retransmit += 1;
                if range.end < run_end {
                    stats.split_lost_run = true;
                    if stats.strict_sub_loss && m.runs() >= 4 {
                        stats.nontrivial = true;
                    }
                }
            }
            Ok(())
        }
    }
}

#[derive(Default)]
struct Stats {
    pick_maximal: u64,
    pick_short: u64,
    retransmit: u64,
    /// a loss report recoloured a strict part of a Flighting run
    strict_sub_loss: bool,
    split_lost_run: bool,
    ack_after_loss: bool,
    loss_after_ack: bool,
    repeated_ack: bool,
    ack_mixed: bool,
    max_runs: usize,
    over_window: bool,
    nontrivial: bool,
    noop: u64,
    stale_loss: bool,
    stale_loss_unsent: bool,
}

impl Stats {
    fn classify(&self, ctx: &mut CaseCtx) {
        ctx.class(format!("runs<={}", match self.max_runs {
            0..=1 => 1,
            2..=3 => 3,
            4..=7 => 7,
            _ => 99,
        }));
        if self.retransmit > 0 {
            ctx.class("retransmit");
        }
        if self.strict_sub_loss {
            ctx.class("loss-strict-part-of-flight-run");
        }
        if self.split_lost_run {
            ctx.class("pick-splits-lost-run");
        }
        if self.ack_after_loss {
            ctx.class("ack-after-loss");
        }
        if self.loss_after_ack {
            ctx.class("loss-after-ack");
        }
        if self.repeated_ack {
            ctx.class("repeated-ack");
        }
        if self.ack_mixed {
            ctx.class("ack-over>=3-runs");
        }
        if self.over_window {
            ctx.class("written>max_data");
        }
        if self.pick_short > 0 {
            ctx.class("pick-shorter-than-run");
        }
        if self.nontrivial {
            ctx.class("NONTRIVIAL");
            ctx.nontrivial();
        }
    }
    /// bookkeeping common to ack/loss reports, before the model is updated
    fn note_report(&mut self, m: &Model, r: &Range<u64>, is_ack: bool) {
        let s = &m.col[r.start as usize..r.end as usize];
        let runs = 1 + s.windows(2).filter(|w| w[0] != w[1]).count();
        if is_ack {
            if s.iter().any(|c| *c == L) {
                self.ack_after_loss = true;
            }
            if s.iter().all(|c| *c == R) {
                self.repeated_ack = true;
            }
            if runs >= 3 {
                self.ack_mixed = true;
            }
        } else {
            if s.iter().any(|c| *c == R) {
                self.loss_after_ack = true;
            }
            // strict part of a Flighting run: some F byte inside, and an F neighbour just outside
            let has_f = s.iter().any(|c| *c == F);
            let left = r.start > 0 && m.col[r.start as usize - 1] == F && s[0] == F;
            let right = (r.end as usize) < m.col.len() && m.col[r.end as usize] == F && s[s.len() - 1] == F;
            if has_f && (left || right) {
                self.strict_sub_loss = true;
            }
        }
    }
}

fn flatten(data: &[Bytes]) -> Vec<u8> {
    let mut v = vec![];
    for d in data {
        v.extend_from_slice(d);
    }
    v
}

// ---------------------------------------------------------------------------
// stage 1: SendBuf directly
// ---------------------------------------------------------------------------

/// Signature of the one known input class the unmodified tree mishandles (see the report).
const SIG_STALE_LOSS: &str = "zero-rtt-stale-loss-covers-unsent";

/// Apply one op to buffer and model, then compare. `Ok(false)` = the op was not applicable.
fn apply_op(buf: &mut SendBuf, m: &mut Model, st: &mut Stats, op: &Op, step: usize) -> Result<bool, Fail> {
    let what;
    match op {
        Op::Write { len } => {
            what = format!("write {len}");
            let data = gens::content(STREAM, m.written, *len as usize);
            buf.write(Bytes::from(data));
            m.write(*len as u64);
            if m.written > m.max_data {
                st.over_window = true;
            }
        }
        Op::Extend { by } => {
            let to = m.max_data + *by as u64;
            what = format!("extend {to}");
            buf.extend(to);
            m.extend(to);
        }
        Op::Pick { pred, flow } => {
            what = format!("pick_up({pred:?}, {flow})");
            let p = pred.map(|n| n as usize);
            let r = buf
                .pick_up(|_| p, *flow as usize)
                .map(|(range, fresh, data)| (range, fresh, flatten(&data)));
            check_pick(m, r, pred.map(|n| n as u64), *flow as u64, step, st)?;
        }
        Op::Ack(sel) | Op::Loss(sel) => {
            let is_ack = matches!(op, Op::Ack(_));
            let Some((r, stale)) = m.select(sel) else {
                st.noop += 1;
                return Ok(false);
            };
            if stale {
                // a frame sent in a 0-RTT packet that the server rejected: it is never
                // acknowledged, but the loss detector does report it lost later
                if is_ack {
                    st.noop += 1;
                    return Ok(false);
                }
                st.stale_loss = true;
                if r.end > m.sent() {
                    // known defect: the report covers bytes that are Pending again (or lie
                    // beyond the revised window). Expected: only re-sent bytes are affected.
                    st.stale_loss_unsent = true;
                    let res = vcore::guarded(|| {
                        buf.may_loss_data(&r);
                        Ok(())
                    });
                    let end = r.end.min(m.sent());
                    if r.start < end {
                        m.loss(&(r.start..end));
                    }
                    let detail = format!(
                        "step {step}: may_loss_data({r:?}) for a frame sent before forget_sent_state(), {} bytes offered since",
                        m.sent()
                    );
                    if let Err(f) = res {
                        return Err(Fail::new(SIG_STALE_LOSS, format!("{detail}: {}", f.msg)));
                    }
                    compare(buf, m, step, "stale loss")
                        .map_err(|f| Fail::new(SIG_STALE_LOSS, format!("{detail}: [{}] {}", f.signature, f.msg)))?;
                    return Ok(true);
                }
            }
            // precondition of both calls (and what callers guarantee): only bytes that were sent
            if r.end > m.sent() {
                st.noop += 1;
                return Ok(false);
            }
            what = format!("{} {r:?}", if is_ack { "ack" } else { "loss" });
            st.note_report(m, &r, is_ack);
            if is_ack {
                buf.on_data_acked(&r);
                m.ack(&r);
            } else {
                buf.may_loss_data(&r);
                m.loss(&r);
            }
        }
        Op::ResendFlighting => {
            what = "resend_flighting".to_string();
            buf.resend_flighting();
            m.resend_flighting();
        }
    }
    st.max_runs = st.max_runs.max(m.runs());
    compare(buf, m, step, &what)?;
    Ok(true)
}

fn run_sendbuf(case: &Case, ctx: &mut CaseCtx) -> Outcome {
    let mut m = Model::new(case.cap as u64);
    let mut buf = SendBuf::with_capacity(case.cap as u64);
    let mut st = Stats::default();
    compare(&buf, &m, 0, "new")?;
    for (i, op) in case.ops.iter().enumerate() {
        apply_op(&mut buf, &mut m, &mut st, op, i + 1)?;
    }
    drain(&mut buf, &mut m, &mut st)?;
    st.classify(ctx);
    Ok(())
}

// ---------------------------------------------------------------------------
// stage 1b: 0-RTT rejected — forget_sent_state() in the middle of a history
// ---------------------------------------------------------------------------

#[derive(Debug, Clone, Serialize, Deserialize)]
struct ZCase {
    /// remembered window used for 0-RTT
    cap: u32,
    /// before the rejection is known: writes, pick-ups, loss reports (nothing is acknowledged)
    pre: Vec<Op>,
    /// the window the server really grants
    new_max: u32,
    /// afterwards: everything, including loss reports for frames sent before
    post: Vec<Op>,
}

fn run_zero_rtt(case: &ZCase, ctx: &mut CaseCtx) -> Outcome {
    let mut m = Model::new(case.cap as u64);
    let mut buf = SendBuf::with_capacity(case.cap as u64);
    let mut st = Stats::default();
    let mut step = 0;
    for op in &case.pre {
        step += 1;
        if matches!(op, Op::Ack(_)) {
            continue; // rejected 0-RTT packets are never acknowledged
        }
        apply_op(&mut buf, &mut m, &mut st, op, step)?;
    }
    // what ReadySender/SendingSender::revise_max_stream_data(true, new_max) does
    step += 1;
    let offered_before = m.sent();
    buf.forget_sent_state();
    m.col.clear();
    m.max_data = 0;
    m.stale_from = m.picked.len();
    compare(&buf, &m, step, "forget_sent_state")?;
    if case.new_max as u64 > buf.max_data() {
        buf.extend(case.new_max as u64);
        m.extend(case.new_max as u64);
    }
    compare(&buf, &m, step, "extend after forget_sent_state")?;
    // once a stale report covering unsent bytes was delivered, later divergence has that root cause
    let taint = |st: &Stats, f: Fail| {
        if st.stale_loss_unsent && !f.signature.starts_with(SIG_STALE_LOSS) {
            Fail::new(format!("{SIG_STALE_LOSS}:{}", f.signature), f.msg)
        } else {
            f
        }
    };
    for op in &case.post {
        step += 1;
        if let Err(f) = apply_op(&mut buf, &mut m, &mut st, op, step) {
            return Err(taint(&st, f));
        }
    }
    if let Err(f) = drain(&mut buf, &mut m, &mut st) {
        return Err(taint(&st, f));
    }
    st.classify(ctx);
    if offered_before > 0 {
        ctx.class("forget-after-offering");
        if st.stale_loss {
            ctx.class("stale-loss");
            // non-trivial here: data was offered before the rejection, offered again afterwards,
            // and a loss report for an old frame arrived in between
            if st.retransmit > 0 || m.picked.len() > m.stale_from {
                ctx.nontrivial();
            }
        }
        if st.stale_loss_unsent {
            ctx.class("stale-loss-covers-unsent");
        }
    }
    Ok(())
}

/// Final drain: open the window, then alternate generous pick-ups and acknowledgements of
/// everything picked; completion must be reported exactly when the last byte is acknowledged.
fn drain(buf: &mut SendBuf, m: &mut Model, st: &mut Stats) -> Outcome {
    let step = DRAIN;
    if m.max_data < m.written {
        buf.extend(m.written);
        m.extend(m.written);
        compare(buf, m, step, "drain: extend")?;
    }
    buf.resend_flighting();
    m.resend_flighting();
    compare(buf, m, step, "drain: resend_flighting")?;
    let mut guard = 0;
    loop {
        guard += 1;
        ensure!(guard < 100_000, "drain-loop", "final drain does not terminate");
        let r = buf
            .pick_up(|_| Some(1500), usize::MAX)
            .map(|(range, fresh, data)| (range, fresh, flatten(&data)));
        let done = r.is_err();
        let picked = r.as_ref().ok().map(|x| x.0.clone());
        check_pick(m, r, Some(1500), u64::MAX, step, st)?;
        if done {
            break;
        }
        let range = picked.unwrap();
        ensure!(!buf.is_all_rcvd(), "is_all_rcvd", "drain: complete before {range:?} was acknowledged");
        buf.on_data_acked(&range);
        m.ack(&range);
        compare(buf, m, step, "drain: ack")?;
    }
    ensure!(
        m.all_rcvd() && buf.is_all_rcvd(),
        "drain-incomplete",
        "after offering and acknowledging everything: model complete={} buffer complete={} (written {}, acked prefix {})",
        m.all_rcvd(),
        buf.is_all_rcvd(),
        m.written,
        m.base()
    );
    Ok(())
}

// ---------------------------------------------------------------------------
// stage 2: crypto stream sender, frames captured from a BufMut packet target
// ---------------------------------------------------------------------------

/// One frame captured by the packet target.
#[derive(Debug, Clone)]
struct Rec {
    /// bytes already in the packet when the frame was recorded (after any pre-padding)
    pos: usize,
    off: u64,
    len: u64,
    data: Vec<u8>,
    /// the STREAM frame (None for CRYPTO)
    stream: Option<StreamFrame>,
}

/// A packet body with a hard capacity that records every frame put into it.
struct Packet {
    buf: Vec<u8>,
    cap: usize,
    frames: Vec<Rec>,
}

impl Packet {
    fn new(cap: usize) -> Self {
        Self { buf: Vec::with_capacity(cap), cap, frames: vec![] }
    }
}

unsafe impl BufMut for Packet {
    fn remaining_mut(&self) -> usize {
        self.cap - self.buf.len()
    }
    unsafe fn advance_mut(&mut self, cnt: usize) {
        assert!(cnt <= self.remaining_mut(), "packet overflow");
        let n = self.buf.len() + cnt;
        unsafe { self.buf.set_len(n) };
    }
    fn chunk_mut(&mut self) -> &mut UninitSlice {
        let len = self.buf.len();
        let cap = self.cap;
        if self.buf.capacity() < cap {
            self.buf.reserve(cap - len);
        }
        let spare = &mut self.buf.spare_capacity_mut()[..cap - len];
        UninitSlice::uninit(spare)
    }
}

impl<'a> RecordFrame<Frame<&'a [Bytes]>, &'a [Bytes]> for Packet {
    fn record_frame(&mut self, frame: &Frame<&'a [Bytes]>) {
        let pos = self.buf.len();
        match frame {
            Frame::Crypto(f, data) => {
                let r = f.range();
                self.frames.push(Rec { pos, off: r.start, len: r.end - r.start, data: flatten(data), stream: None });
            }
            Frame::Stream(f, data) => {
                let r = f.range();
                self.frames.push(Rec { pos, off: r.start, len: r.end - r.start, data: flatten(data), stream: Some(*f) });
            }
            other => panic!("unexpected frame recorded: {:?}", other.frame_type()),
        }
    }
}

fn noop_cx<Rv>(f: impl FnOnce(&mut Context<'_>) -> Rv) -> Rv {
    let waker = futures::task::noop_waker();
    let mut cx = Context::from_waker(&waker);
    f(&mut cx)
}

fn crypto_frame(r: &Range<u64>) -> CryptoFrame {
    CryptoFrame::new(
        VarInt::from_u64(r.start).unwrap(),
        VarInt::from_u64(r.end - r.start).unwrap(),
    )
}

#[derive(Debug, Clone, Serialize, Deserialize, PartialEq)]
enum COp {
    Write { len: u32 },
    /// try_load_data_into(packet of `room` bytes, force)
    Load { room: u32, force: bool },
    Ack(Sel),
    Loss(Sel),
}

#[derive(Debug, Clone, Serialize, Deserialize)]
struct CCase {
    ops: Vec<COp>,
}

fn run_crypto(case: &CCase, ctx: &mut CaseCtx) -> Outcome {
    // crypto streams have no window: capacity 2^62-1; the model only tracks written bytes
    let mut m = Model::new(gens::VARINT_MAX);
    let stream = CryptoStream::new(Default::default());
    let mut writer = stream.writer();
    let outgoing = stream.outgoing();
    let mut st = Stats::default();
    let mut frames_total = 0u64;
    let mut multi_frame_load = false;
    for (i, op) in case.ops.iter().enumerate() {
        let step = i + 1;
        match op {
            COp::Write { len } => {
                let data = gens::content(STREAM, m.written, *len as usize);
                let r = noop_cx(|cx| Pin::new(&mut writer).poll_write(cx, &data));
                match r {
                    Poll::Ready(Ok(n)) => ensure_eq!(n, data.len(), "crypto-write-len", "step {step}: poll_write accepted"),
                    other => fail!("crypto-write", "step {step}: poll_write({len}) = {other:?}"),
                }
                m.write(*len as u64);
            }
            COp::Load { room, force } => {
                let mut pkt = Packet::new(*room as usize);
                if *force {
                    m.resend_flighting();
                }
                let res = outgoing.try_load_data_into(&mut pkt, *force);
                // every frame is one pick_up(|off| estimate_max_capacity(remaining, off), usize::MAX)
                let nframes = pkt.frames.len();
                let mut used = 0usize;
                for Rec { pos, off, len, data, .. } in std::mem::take(&mut pkt.frames) {
                    ensure_eq!(pos, used, "crypto-harness", "step {step}: bytes in the packet before the frame");
                    let remaining = *room as usize - used;
                    let at = m.eligible(u64::MAX);
                    let allow = at.and_then(|a| CryptoFrame::estimate_max_capacity(remaining, a)).map(|n| n as u64);
                    // whether the bytes are new is not visible in a CRYPTO frame (no flow control there)
                    let fresh = m.col.get(off as usize) == Some(&P);
                    check_pick(&mut m, Ok((off..off + len, fresh, data)), allow, u64::MAX, step, &mut st)
                        .map_err(|f| Fail::new(format!("crypto-{}", f.signature), f.msg))?;
                    let enc = crypto_frame(&(off..off + len));
                    used += enc.encoding_size() + len as usize;
                    ensure!(used <= *room as usize, "crypto-packet-overflow", "step {step}: frames exceed the packet");
                }
                ensure_eq!(pkt.buf.len(), used, "crypto-encoded-size", "step {step}: bytes written into the packet vs frame sizes");
                ensure_eq!(res.is_ok(), nframes > 0, "crypto-load-result", "step {step}: Ok(()) iff at least one frame was loaded ({nframes} frames)");
                // no starvation: what is left must not fit
                let left = *room as usize - used;
                if let Some(at) = m.eligible(u64::MAX) {
                    if let Some(n) = CryptoFrame::estimate_max_capacity(left, at) {
                        fail!(
                            "crypto-pick-starved",
                            "step {step}: load into {room} bytes stopped with {left} bytes left although byte {at} is {} and {n} bytes would fit; model={}",
                            colour_name(m.col[at as usize]),
                            runs_of(&m.col)
                        );
                    }
                }
                frames_total += nframes as u64;
                if nframes >= 2 {
                    multi_frame_load = true;
                }
            }
            COp::Ack(sel) | COp::Loss(sel) => {
                let is_ack = matches!(op, COp::Ack(_));
                let Some((r, _)) = m.select(sel) else {
                    st.noop += 1;
                    continue;
                };
                if r.end > m.sent() {
                    st.noop += 1;
                    continue;
                }
                st.note_report(&m, &r, is_ack);
                let frame = crypto_frame(&r);
                if is_ack {
                    outgoing.on_data_acked(&frame);
                    m.ack(&r);
                } else {
                    outgoing.may_loss_data(&frame);
                    m.loss(&r);
                }
            }
        }
        st.max_runs = st.max_runs.max(m.runs());
        // completion is observable through poll_flush
        let flushed = noop_cx(|cx| Pin::new(&mut writer).poll_flush(cx));
        ensure_eq!(
            matches!(flushed, Poll::Ready(Ok(()))),
            m.all_rcvd(),
            "crypto-flush",
            "step {step}: poll_flush ready vs all {} written bytes acknowledged (acked prefix {})",
            m.written,
            m.base()
        );
    }
    // final drain
    let mut guard = 0;
    loop {
        guard += 1;
        ensure!(guard < 100_000, "crypto-drain-loop", "final drain does not terminate");
        let mut pkt = Packet::new(1200);
        m.resend_flighting();
        let res = outgoing.try_load_data_into(&mut pkt, true);
        if pkt.frames.is_empty() {
            ensure!(res.is_err(), "crypto-load-result", "drain: Ok(()) without frames");
            ensure!(
                m.eligible(u64::MAX).is_none(),
                "crypto-pick-starved",
                "drain: nothing loaded into an empty 1200-byte packet but model={}",
                runs_of(&m.col)
            );
            break;
        }
        let frames = std::mem::take(&mut pkt.frames);
        for Rec { pos, off, len, data, .. } in &frames {
            let at = m.eligible(u64::MAX);
            let allow = at.and_then(|a| CryptoFrame::estimate_max_capacity(1200 - *pos, a)).map(|n| n as u64);
            let fresh = m.col.get(*off as usize) == Some(&P);
            check_pick(&mut m, Ok((*off..*off + *len, fresh, data.clone())), allow, u64::MAX, DRAIN, &mut st)
                .map_err(|f| Fail::new(format!("crypto-{}", f.signature), f.msg))?;
        }
        for Rec { off, len, .. } in &frames {
            let flushed = noop_cx(|cx| Pin::new(&mut writer).poll_flush(cx));
            ensure!(!matches!(flushed, Poll::Ready(Ok(()))), "crypto-flush", "drain: flushed before {off}+{len} was acknowledged");
            let r = *off..*off + *len;
            outgoing.on_data_acked(&crypto_frame(&r));
            m.ack(&r);
        }
    }
    let flushed = noop_cx(|cx| Pin::new(&mut writer).poll_flush(cx));
    ensure!(
        matches!(flushed, Poll::Ready(Ok(()))) && m.all_rcvd(),
        "crypto-drain-incomplete",
        "after offering and acknowledging everything: flush={flushed:?} model complete={}",
        m.all_rcvd()
    );
    st.classify(ctx);
    if multi_frame_load {
        ctx.class("load>=2-frames");
    }
    ctx.note(json!({"frames": frames_total}));
    Ok(())
}


// ---------------------------------------------------------------------------
// stage 3: the stream sender (Writer / Outgoing / SendingSender / DataSentSender),
// reached through the public DataStreams API with one client-initiated bidi stream
// ---------------------------------------------------------------------------

#[derive(Clone, Default, Debug)]
struct CtlSink(Arc<Mutex<Vec<StreamCtlFrame>>>);

impl SendFrame<StreamCtlFrame> for CtlSink {
    fn send_frame<I: IntoIterator<Item = StreamCtlFrame>>(&self, iter: I) {
        self.0.lock().unwrap().extend(iter);
    }
}
impl SendFrame<DataBlockedFrame> for CtlSink {
    fn send_frame<I: IntoIterator<Item = DataBlockedFrame>>(&self, _iter: I) {}
}

#[derive(Debug, Clone, Serialize, Deserialize, PartialEq)]
enum SOp {
    Write { len: u32 },
    /// Writer::poll_shutdown (no more data; FIN wanted)
    Shutdown,
    /// MAX_STREAM_DATA(current + by)
    Window { by: u32 },
    /// MAX_DATA(current + by)
    ConnWindow { by: u32 },
    /// DataStreams::try_load_data_into(packet of `room` bytes)
    Load { room: u32 },
    /// report a previously sent frame (by index) acknowledged / lost
    Ack { i: u16, recent: u8 },
    Loss { i: u16, recent: u8 },
    /// (final drain only) acknowledge every frame not yet acknowledged by the drain
    AckAll,
    /// (final drain only) after a 0-RTT rejection the loss detector eventually declares every
    /// 0-RTT packet lost; report those frames whose bytes have all been offered again
    StaleLossAll,
}

/// The server rejects 0-RTT: `DataStreams::revise_params(true, ..)` before op number `at`
/// (mapped onto 0..=ops.len()); nothing sent before it is ever acknowledged.
#[derive(Debug, Clone, Serialize, Deserialize)]
struct Reject {
    at: u16,
    /// the initial_max_stream_data_bidi_remote the server really grants
    new_cap: u32,
}

#[derive(Debug, Clone, Serialize, Deserialize)]
struct SCase {
    /// peer's (remembered) initial_max_stream_data_bidi_remote
    cap: u32,
    /// peer's initial_max_data
    conn_cap: u32,
    reject: Option<Reject>,
    ops: Vec<SOp>,
}

/// What the history told the rig owner about known input classes (see the report).
#[derive(Default)]
struct StreamFlags {
    /// set while a loss report for a pre-rejection frame that covers unsent bytes is delivered
    stale_call: std::cell::RefCell<Option<String>>,
    /// such a report was delivered (and did not panic): later divergence has that root cause
    stale_delivered: std::cell::Cell<bool>,
    /// 0-RTT was rejected after the stream's FIN had been sent
    reject_after_fin: std::cell::Cell<bool>,
}

const SIG_REJECT_AFTER_FIN: &str = "zero-rtt-reject-after-fin";

const DEFAULT_TOKENS: usize = 4096;

fn run_stream(case: &SCase, ctx: &mut CaseCtx) -> Outcome {
    // -- set-up exactly like the client side of a connection that remembers the server's parameters
    let client_params = ClientParameters::new();
    let mut server_params = ServerParameters::new();
    let set = |p: &mut ServerParameters, id, v: u32| {
        p.set(id, v).map_err(|e| Fail::new("stream-harness", format!("set {id:?}: {e:?}")))
    };
    set(&mut server_params, ParameterId::InitialMaxStreamsBidi, 4)?;
    set(&mut server_params, ParameterId::InitialMaxStreamDataBidiRemote, case.cap)?;
    set(&mut server_params, ParameterId::InitialMaxData, case.conn_cap)?;
    let sink = CtlSink::default();
    let streams = DataStreams::new(
        Role::Client,
        &client_params,
        &server_params,
        Box::new(ConsistentConcurrency::new(4, 4)),
        sink.clone(),
        Default::default(),
        None,
    );
    let flow: ArcSendControler<CtlSink> = ArcSendControler::new(case.conn_cap as u64, sink.clone(), Default::default());
    let params: ArcParameters = Parameters::new_client(
        client_params.clone(),
        Some(server_params.clone()),
        ConnectionId::from_slice(&[1, 2, 3, 4, 5, 6, 7, 8]),
    )
    .into();
    let opened = noop_cx(|cx| {
        let mut fut = streams.open_bi(&params);
        Pin::new(&mut fut).poll(cx)
    });
    let (sid, (reader, mut writer)) = match opened {
        Poll::Ready(Ok(Some(x))) => x,
        Poll::Ready(Ok(None)) => fail!("stream-harness", "open_bi: no stream id"),
        Poll::Ready(Err(e)) => fail!("stream-harness", "open_bi failed: {e:?}"),
        Poll::Pending => fail!("stream-harness", "open_bi pending"),
    };
    // A panic inside the stack poisons its mutexes and `Writer::drop` locks one of them: dropping
    // the rig while unwinding would abort the process. Leak it in that case instead.
    let flags = StreamFlags::default();
    let r = std::panic::catch_unwind(std::panic::AssertUnwindSafe(|| {
        stream_history(case, ctx, &streams, &flow, sid, &mut writer, &flags)
    }));
    let attribute = |f: Fail| {
        let fin_symptom = matches!(f.signature.as_str(), "stream-empty-frame" | "stream-pick-starved");
        if flags.reject_after_fin.get() && (fin_symptom || !flags.stale_delivered.get()) {
            Fail::new(
                format!("{SIG_REJECT_AFTER_FIN}:{}", f.signature),
                format!("0-RTT rejected after the FIN was sent: {}", f.msg),
            )
        } else if flags.stale_delivered.get() {
            Fail::new(
                format!("{SIG_STALE_LOSS}:{}", f.signature),
                format!("after a loss report for a pre-rejection frame covering unsent bytes: {}", f.msg),
            )
        } else {
            f
        }
    };
    match r {
        Ok(outcome) => outcome.map_err(attribute),
        Err(payload) => {
            std::mem::forget((reader, writer, streams, flow, params));
            let msg = payload
                .downcast_ref::<&str>()
                .map(|s| s.to_string())
                .or_else(|| payload.downcast_ref::<String>().cloned())
                .unwrap_or_default();
            if let Some(detail) = flags.stale_call.borrow().clone() {
                return Err(Fail::new(SIG_STALE_LOSS, format!("{detail}: panicked: {msg}")));
            }
            if flags.stale_delivered.get() || flags.reject_after_fin.get() {
                return Err(attribute(Fail::new("panic", format!("panicked: {msg}"))));
            }
            std::panic::resume_unwind(payload)
        }
    }
}

fn stream_history(
    case: &SCase,
    ctx: &mut CaseCtx,
    streams: &DataStreams<CtlSink>,
    flow: &ArcSendControler<CtlSink>,
    sid: StreamId,
    writer: &mut Writer<Ext<CtlSink>>,
    flags: &StreamFlags,
) -> Outcome {
    let mut m = Model::new(case.cap as u64);
    let mut st = Stats::default();
    let mut frames: Vec<StreamFrame> = vec![];
    let mut shutdown = false;
    let mut fin_sent = false;
    let mut fin_acked = false;
    let mut fin_needs_resend = false;
    let mut done = false;
    let mut tokens: Option<usize> = None;
    let mut conn_max = case.conn_cap as u64;
    let mut conn_sent = 0u64;
    let mut fin_only_frames = 0u64;
    let mut fin_resent = false;
    let mut flow_blocked = false;

    let total = case.ops.len();
    let reject_pos = case.reject.as_ref().map(|r| gens::idx(r.at, total + 1));
    let mut rejected = false;
    let mut stale_frames = 0usize;
    let mut stale_loss = false;
    // the op list, then a final drain: shutdown, open the windows, then load + acknowledge until complete
    let mut pc = 0usize;
    let mut drain_phase = 0u32;
    let mut ack_from = 0usize;
    loop {
        if !rejected && reject_pos == Some(pc) && drain_phase == 0 {
            // what the client does when the handshake tells it that 0-RTT was rejected
            let new_cap = case.reject.as_ref().unwrap().new_cap;
            let mut granted = ServerParameters::new();
            for (id, v) in [
                (ParameterId::InitialMaxStreamsBidi, 4u32),
                (ParameterId::InitialMaxStreamDataBidiRemote, new_cap),
                (ParameterId::InitialMaxData, case.conn_cap),
            ] {
                granted.set(id, v).map_err(|e| Fail::new("stream-harness", format!("set {id:?}: {e:?}")))?;
            }
            streams.revise_params(true, &granted);
            rejected = true;
            flags.reject_after_fin.set(fin_sent);
            m.col.clear();
            m.max_data = 0;
            if new_cap > 0 {
                m.extend(new_cap as u64);
            }
            m.stale_from = m.picked.len();
            stale_frames = frames.len();
            ack_from = stale_frames;
        }
        let (op, step) = if pc < total {
            pc += 1;
            (case.ops[pc - 1].clone(), pc)
        } else {
            if done && drain_phase >= 3 {
                break;
            }
            let op = match drain_phase {
                0 => SOp::Shutdown,
                1 => SOp::Window { by: (m.written.saturating_sub(m.max_data)) as u32 },
                2 => SOp::ConnWindow { by: (m.written + 1) as u32 },
                n if n % 3 == 0 => SOp::StaleLossAll,
                n if n % 3 == 1 => SOp::Load { room: 1200 },
                _ => SOp::AckAll,
            };
            drain_phase += 1;
            ensure!(
                drain_phase < 5000,
                "stream-drain-incomplete",
                "stream not complete after repeated load + ack of everything: acked prefix {} of {}, fin_acked={fin_acked}, model={}",
                m.base(),
                m.written,
                runs_of(&m.col)
            );
            (op, DRAIN)
        };
        match &op {
            SOp::Write { len } => {
                let data = gens::content(STREAM, m.written, *len as usize);
                let r = writer.write(Bytes::from(data));
                if shutdown {
                    ensure!(r.is_err(), "stream-write-after-shutdown", "step {step}: write accepted after shutdown");
                } else {
                    ensure!(r.is_ok(), "stream-write", "step {step}: write({len}) = {r:?}");
                    m.write(*len as u64);
                    if m.written > m.max_data {
                        st.over_window = true;
                    }
                }
            }
            SOp::Shutdown => {
                if !done {
                    let r = noop_cx(|cx| writer.poll_shutdown(cx));
                    ensure!(r.is_pending(), "stream-shutdown-early", "step {step}: poll_shutdown = {r:?} before everything was acknowledged");
                }
                shutdown = true;
            }
            SOp::Window { by } => {
                let to = m.max_data + *by as u64;
                streams
                    .recv_stream_control(StreamCtlFrame::MaxStreamData(MaxStreamDataFrame::new(
                        sid,
                        VarInt::from_u64(to).unwrap(),
                    )))
                    .map_err(|e| Fail::new("stream-harness", format!("step {step}: MAX_STREAM_DATA rejected: {e:?}")))?;
                // (without a 0-RTT rejection nothing waits behind the window once the FIN was sent)
                if !done && to > m.max_data {
                    m.extend(to);
                }
            }
            SOp::ConnWindow { by } => {
                conn_max += *by as u64;
                use qbase::frame::io::ReceiveFrame;
                flow.recv_frame(MaxDataFrame::new(VarInt::from_u64(conn_max).unwrap()))
                    .map_err(|e| Fail::new("stream-harness", format!("step {step}: MAX_DATA rejected: {e:?}")))?;
            }
            SOp::Load { room } => {
                let room = *room as usize;
                let mut pkt = Packet::new(room);
                let res = streams.try_load_data_into(&mut pkt, flow, reject_pos.is_some() && !rejected);
                let recs = std::mem::take(&mut pkt.frames);
                let mut origin = room; // bytes left when the frame's pick-up ran
                for rec in &recs {
                    let f = rec.stream.ok_or_else(|| Fail::new("stream-harness", "CRYPTO frame from a stream"))?;
                    ensure!(!done, "stream-frame-after-completion", "step {step}: frame {f:?} after the stream completed");
                    ensure!(origin >= STREAM_FRAME_MAX_ENCODING_SIZE, "stream-load-small-room", "step {step}: frame {f:?} loaded with only {origin} bytes left");
                    ensure_eq!(f.stream_id(), sid, "stream-harness", "step {step}: stream id");
                    let conn_avail = conn_max - conn_sent;
                    let flow_limit = conn_avail.min(origin as u64);
                    let tk = match tokens {
                        None | Some(0) => DEFAULT_TOKENS,
                        Some(t) => t,
                    };
                    let range = rec.off..rec.off + rec.len;
                    let want_fin = shutdown && range.end == m.written;
                    if rec.len > 0 {
                        let at = m.eligible(flow_limit);
                        let allow = at
                            .and_then(|a| StreamFrame::estimate_max_capacity(origin, sid, a))
                            .map(|c| c.min(tk) as u64);
                        let fresh = m.col.get(rec.off as usize) == Some(&P);
                        check_pick(&mut m, Ok((range.clone(), fresh, rec.data.clone())), allow, flow_limit, step, &mut st)
                            .map_err(|f| Fail::new(format!("stream-{}", f.signature), f.msg))?;
                        if fresh {
                            conn_sent += rec.len;
                        }
                        ensure_eq!(
                            f.is_fin(),
                            want_fin,
                            "stream-fin-flag",
                            "step {step}: FIN bit of {range:?} (shutdown={shutdown}, written={})",
                            m.written
                        );
                    } else {
                        // FIN-only frame
                        ensure!(
                            f.is_fin() && want_fin && m.sent() == m.written,
                            "stream-empty-frame",
                            "step {step}: empty STREAM frame {f:?} (shutdown={shutdown}, written={}, offered up to {})",
                            m.written,
                            m.sent()
                        );
                        fin_only_frames += 1;
                    }
                    if f.is_fin() {
                        if fin_needs_resend {
                            fin_resent = true;
                        }
                        fin_sent = true;
                        fin_needs_resend = false;
                    }
                    tokens = Some(tk - rec.len as usize);
                    frames.push(f);
                    if rec.len == 0 {
                        // also reportable: ranges of FIN-only frames are empty
                        m.picked.push((rec.off, rec.off));
                    }
                    let end = rec.pos + f.encoding_size() + rec.len as usize;
                    ensure!(end <= room, "stream-packet-overflow", "step {step}: frames exceed the packet");
                    origin = room - end;
                }
                ensure_eq!(m.picked.len(), frames.len(), "stream-harness", "step {step}: frame history");
                ensure_eq!(res.is_ok(), !recs.is_empty(), "stream-load-result", "step {step}: Ok(()) iff at least one frame was loaded ({} frames)", recs.len());
                // no starvation: whatever is still offerable must not fit any more
                let left = room - pkt.buf.len();
                if left >= STREAM_FRAME_MAX_ENCODING_SIZE && !done {
                    let conn_avail = conn_max - conn_sent;
                    let flow_limit = conn_avail.min(left as u64);
                    if flow_limit == 0 && m.eligible(u64::MAX).is_some() && m.eligible(0).is_none() {
                        flow_blocked = true;
                    }
                    if let Some(at) = m.eligible(flow_limit) {
                        if let Some(c) = StreamFrame::estimate_max_capacity(left, sid, at) {
                            fail!(
                                "stream-pick-starved",
                                "step {step}: load into {room} bytes stopped with {left} bytes left although byte {at} is {} and {c} bytes would fit (connection credit {conn_avail}); model={}",
                                colour_name(m.col[at as usize]),
                                runs_of(&m.col)
                            );
                        }
                    } else if shutdown
                        && m.sent() == m.written
                        && !fin_acked
                        && (!fin_sent || fin_needs_resend)
                        && StreamFrame::estimate_max_capacity(left, sid, m.written).is_some()
                    {
                        fail!(
                            "stream-fin-starved",
                            "step {step}: load into {room} bytes stopped with {left} bytes left, all {} bytes were offered, shutdown requested, but no frame with FIN was {} (model={})",
                            m.written,
                            if fin_sent { "re-sent after its loss" } else { "sent" },
                            runs_of(&m.col)
                        );
                    }
                }
            }
            SOp::StaleLossAll => {
                for f in frames[..stale_frames].to_vec() {
                    let r = f.range();
                    if r.end <= m.sent() && !done {
                        stale_loss = true;
                        streams.may_loss_data(&f);
                        m.loss(&r);
                        if f.is_fin() && !fin_acked {
                            fin_needs_resend = true;
                        }
                    }
                }
            }
            SOp::AckAll => {
                // everything sent so far (first time), afterwards the frames sent since
                for f in frames[ack_from..].to_vec() {
                    let r = f.range();
                    streams.on_data_acked(f);
                    if !done {
                        m.ack(&r);
                        if f.is_fin() {
                            fin_acked = true;
                        }
                        done = m.all_rcvd() && fin_acked;
                    }
                }
                ack_from = frames.len();
            }
            SOp::Ack { i, recent } | SOp::Loss { i, recent } => {
                if frames.is_empty() {
                    st.noop += 1;
                    continue;
                }
                let n = frames.len();
                let k = if *recent == 0 { n } else { n.min(*recent as usize) };
                let at = n - k + gens::idx(*i, k);
                let f = frames[at];
                let r = f.range();
                let is_ack = matches!(op, SOp::Ack { .. });
                if is_ack && ((reject_pos.is_some() && !rejected) || at < stale_frames) {
                    // packets of a rejected 0-RTT attempt are never acknowledged
                    st.noop += 1;
                    continue;
                }
                if rejected && at < stale_frames {
                    stale_loss = true;
                    if r.end > m.sent() {
                        // known defect: the report covers bytes that are Pending again
                        let detail = format!(
                            "step {step}: may_loss_data({f:?}) for a frame sent before the 0-RTT rejection, {} bytes offered since",
                            m.sent()
                        );
                        *flags.stale_call.borrow_mut() = Some(detail);
                        streams.may_loss_data(&f);
                        *flags.stale_call.borrow_mut() = None;
                        flags.stale_delivered.set(true);
                        let end = r.end.min(m.sent());
                        if r.start < end {
                            m.loss(&(r.start..end));
                        }
                        if f.is_fin() && !fin_acked {
                            fin_needs_resend = true;
                        }
                        continue;
                    }
                }
                if !done && r.start < r.end {
                    st.note_report(&m, &r, is_ack);
                }
                if is_ack {
                    streams.on_data_acked(f);
                    if !done {
                        m.ack(&r);
                        if f.is_fin() {
                            fin_acked = true;
                        }
                    }
                } else {
                    streams.may_loss_data(&f);
                    if !done {
                        m.loss(&r);
                        if f.is_fin() && !fin_acked {
                            fin_needs_resend = true;
                        }
                    }
                }
                done = done || (m.all_rcvd() && fin_acked);
            }
        }
        st.max_runs = st.max_runs.max(m.runs());
        // completion as the application sees it
        if shutdown {
            let r = noop_cx(|cx| writer.poll_shutdown(cx));
            ensure_eq!(
                matches!(r, Poll::Ready(Ok(()))),
                done,
                "stream-completion",
                "step {step} ({op:?}): poll_shutdown={r:?} but acked prefix {} of {} written, FIN acked={fin_acked}",
                m.base(),
                m.written
            );
        } else {
            let r = noop_cx(|cx| writer.poll_flush(cx));
            ensure_eq!(
                matches!(r, Poll::Ready(Ok(()))),
                m.all_rcvd(),
                "stream-flush",
                "step {step} ({op:?}): poll_flush={r:?} but acked prefix {} of {} written",
                m.base(),
                m.written
            );
        }
        // bytes charged to the connection's flow control = bytes offered for the first time
        {
            let probe = flow
                .credit(usize::MAX)
                .map_err(|e| Fail::new("stream-harness", format!("credit: {e:?}")))?;
            ensure_eq!(
                probe.available() as u64,
                conn_max - conn_sent,
                "stream-new-data-accounting",
                "step {step} ({op:?}): connection credit left (limit {conn_max}, model says {conn_sent} new bytes were offered)"
            );
        }
    }
    ensure!(done, "stream-drain-incomplete", "stream not complete after the final drain");
    st.classify(ctx);
    if fin_only_frames > 0 {
        ctx.class("fin-only-frame");
    }
    if fin_resent {
        ctx.class("fin-resent-after-loss");
    }
    if flow_blocked {
        ctx.class("blocked-by-connection-credit");
    }
    if rejected {
        ctx.class(if flags.reject_after_fin.get() { "rejected-after-fin" } else { "rejected" });
        if stale_loss {
            ctx.class("stale-loss");
        }
        if flags.stale_delivered.get() {
            ctx.class("stale-loss-covers-unsent");
        }
    }
    Ok(())
}

fn stream_case_strategy(max_ops: usize) -> BoxedStrategy<SCase> {
    let write = prop_oneof![3 => 1u32..=20, 3 => 1u32..=300, 2 => 1u32..=3000].prop_map(|len| SOp::Write { len });
    let window = prop_oneof![1 => Just(0u32), 3 => 1u32..=50, 3 => 1u32..=3000].prop_map(|by| SOp::Window { by });
    let conn = prop_oneof![3 => 1u32..=50, 3 => 1u32..=3000].prop_map(|by| SOp::ConnWindow { by });
    let load = prop_oneof![
        1 => 0u32..=24,
        5 => 25u32..=60,
        3 => 25u32..=300,
        2 => 100u32..=1400,
    ]
    .prop_map(|room| SOp::Load { room });
    let rec = prop_oneof![Just(0u8), Just(1u8), Just(2u8), Just(4u8)];
    let ack = (any::<u16>(), rec.clone()).prop_map(|(i, recent)| SOp::Ack { i, recent });
    let loss = (any::<u16>(), rec).prop_map(|(i, recent)| SOp::Loss { i, recent });
    let op = prop_oneof![
        3 => write,
        1 => Just(SOp::Shutdown),
        2 => window,
        2 => conn,
        9 => load,
        5 => ack,
        6 => loss,
    ];
    (
        prop_oneof![1 => Just(0u32), 3 => 1u32..=100, 3 => 1u32..=5000],
        prop_oneof![1 => Just(0u32), 2 => 1u32..=100, 4 => 1000u32..=20_000],
        prop_oneof![
            3 => Just(None),
            1 => (any::<u16>(), prop_oneof![1 => Just(0u32), 3 => 1u32..=100, 3 => 1u32..=5000])
                .prop_map(|(at, new_cap)| Some(Reject { at, new_cap })),
        ],
        proptest::collection::vec(op, 0..=max_ops),
    )
        .prop_map(|(cap, conn_cap, reject, ops)| SCase { cap, conn_cap, reject, ops })
        .boxed()
}

// ---------------------------------------------------------------------------
// generators
// ---------------------------------------------------------------------------

fn sel_strategy(relaxed: bool) -> BoxedStrategy<Sel> {
    let exact = (any::<u16>(), prop_oneof![Just(0u8), Just(1u8), Just(2u8), Just(4u8)])
        .prop_map(|(i, recent)| Sel::Exact { i, recent });
    if !relaxed {
        return exact.boxed();
    }
    let sub = (any::<u16>(), prop_oneof![Just(0u8), Just(1u8), Just(3u8)], any::<u16>(), any::<u16>())
        .prop_map(|(i, recent, a, b)| Sel::Sub { i, recent, a, b });
    let span = (any::<u16>(), any::<u16>()).prop_map(|(i, j)| Sel::Span { i, j });
    prop_oneof![5 => exact, 3 => sub, 1 => span].boxed()
}

fn len_strategy(max: u32) -> BoxedStrategy<u32> {
    prop_oneof![
        3 => 1u32..=8,
        3 => 1u32..=max.min(100),
        2 => 1u32..=max,
    ]
    .boxed()
}

fn op_strategy(relaxed: bool, big: bool) -> BoxedStrategy<Op> {
    let maxlen = if big { 5000 } else { 40 };
    let limit = if big { 2000u32 } else { 24 };
    let write = len_strategy(maxlen).prop_map(|len| Op::Write { len });
    let extend = prop_oneof![1 => Just(0u32), 4 => len_strategy(maxlen)].prop_map(|by| Op::Extend { by });
    let pick = (
        prop_oneof![
            1 => Just(None),
            3 => (1u32..=4).prop_map(Some),
            4 => (1u32..=limit).prop_map(Some),
        ],
        prop_oneof![
            2 => Just(0u32),
            2 => 1u32..=4,
            5 => 1u32..=limit,
        ],
    )
        .prop_map(|(pred, flow)| Op::Pick { pred, flow });
    let ack = sel_strategy(relaxed).prop_map(Op::Ack);
    let loss = sel_strategy(relaxed).prop_map(Op::Loss);
    prop_oneof![
        3 => write,
        2 => extend,
        8 => pick,
        5 => ack,
        5 => loss,
        1 => Just(Op::ResendFlighting),
    ]
    .boxed()
}

fn case_strategy(relaxed: bool, big: bool, max_ops: usize) -> BoxedStrategy<Case> {
    let cap = if big {
        prop_oneof![1 => Just(0u32), 3 => 1u32..=200, 3 => 1u32..=20_000].boxed()
    } else {
        prop_oneof![1 => Just(0u32), 3 => 1u32..=30, 3 => 1u32..=300].boxed()
    };
    (cap, proptest::collection::vec(op_strategy(relaxed, big), 0..=max_ops))
        .prop_map(|(cap, ops)| Case { cap, ops })
        .boxed()
}

fn zero_rtt_case_strategy(max_ops: usize) -> BoxedStrategy<ZCase> {
    (
        prop_oneof![1 => Just(0u32), 3 => 1u32..=60, 3 => 1u32..=600],
        proptest::collection::vec(op_strategy(false, false), 0..=max_ops / 2),
        prop_oneof![1 => Just(0u32), 3 => 1u32..=60, 3 => 1u32..=600],
        proptest::collection::vec(op_strategy(false, false), 0..=max_ops),
    )
        .prop_map(|(cap, pre, new_max, post)| ZCase { cap, pre, new_max, post })
        .boxed()
}

fn crypto_case_strategy(relaxed: bool, max_ops: usize) -> BoxedStrategy<CCase> {
    let write = prop_oneof![3 => 1u32..=20, 3 => 1u32..=300, 2 => 1u32..=4000].prop_map(|len| COp::Write { len });
    let load = (
        prop_oneof![
            1 => 0u32..=6,
            4 => 4u32..=40,
            3 => 20u32..=200,
            2 => 60u32..=1400,
        ],
        prop_oneof![9 => Just(false), 1 => Just(true)],
    )
        .prop_map(|(room, force)| COp::Load { room, force });
    let ack = sel_strategy(relaxed).prop_map(COp::Ack);
    let loss = sel_strategy(relaxed).prop_map(COp::Loss);
    let op = prop_oneof![2 => write, 8 => load, 5 => ack, 5 => loss];
    proptest::collection::vec(op, 0..=max_ops)
        .prop_map(|ops| CCase { ops })
        .boxed()
}

// ---------------------------------------------------------------------------
// exhaustive small tier: every history over a tiny alphabet
// ---------------------------------------------------------------------------

fn small_alphabet() -> Vec<Op> {
    let mut v = vec![
        Op::Write { len: 2 },
        Op::Write { len: 3 },
        Op::Extend { by: 2 },
        Op::Pick { pred: Some(1), flow: 9 },
        Op::Pick { pred: Some(2), flow: 9 },
        Op::Pick { pred: Some(9), flow: 1 },
        Op::Pick { pred: Some(9), flow: 0 },
        Op::ResendFlighting,
    ];
    for i in [0u16, 0x5555, 0xaaaa, 0xffff] {
        v.push(Op::Ack(Sel::Exact { i, recent: 0 }));
        v.push(Op::Loss(Sel::Exact { i, recent: 0 }));
    }
    v
}

fn main() {
    let mut check = Check::from_env("C09", "exploration");
    check.rule(
        "case = initial window + op list over {write(len), extend(+n), pick_up(predicate None|Some(n), flow_limit), \
         ack(range), loss(range), resend_flighting}; ack/loss ranges are chosen among the ranges returned by earlier pick-ups \
         (exact frames, as the callers report them; the 'relaxed' stage also uses sub-ranges and spans of sent bytes), in any \
         order and any number of times; every history ends with a drain (open window, resend, pick + ack until complete). \
         sendbuf-zero-rtt inserts forget_sent_state()+extend (0-RTT rejected: nothing acknowledged before, old frames only \
         reported lost afterwards). crypto-outgoing drives CryptoStreamWriter/CryptoStreamOutgoing with packets of 0..1400 bytes, \
         stream-sender drives Writer + DataStreams (one client bidi stream, FIN, MAX_STREAM_DATA, connection credit, optional \
         0-RTT rejection) and reads the frames out of a BufMut packet target. \
         non-trivial = the history contains a loss report that recolours a strict part of an in-flight run and later a pick-up that \
         takes only the front part of a Lost run (retransmission smaller than the lost run) leaving >=4 colour runs alive \
         (zero-rtt stage: data offered before the rejection, a loss report for an old frame, data offered again). \
         distinct = by hash of the serialised case. exhaustive-small enumerates every history up to the stated depth (quick 6, \
         thorough 7) over a 16-op alphabet, window 4 (histories whose reports have nothing to refer to are pruned).",
    );
    check.assume("ack / loss reports only cover bytes that were offered before (callers report frames they sent)");
    check.assume("extend() is only called with a value >= the current max_data (what update_window guarantees)");
    check.assume("written bytes are a fixed position-dependent pattern, so any wrong or shifted byte is recognised");
    check.assume("packets of a rejected 0-RTT attempt are never acknowledged, only declared lost");
    check.assume("a pick-up may return fewer bytes than the run allows (not required by the property); it must start at the lowest offerable byte");
    let hook = hook_map(&SendBuf::with_capacity(1)).is_some();
    check.extra("colour_map_hook", json!(hook));

    // ---- exhaustive small tier
    let depth = if check.quick() { 6usize } else { 7 };
    check.exhaustive::<Case, _>("exhaustive-small", true, |e| {
        let alpha = small_alphabet();
        fn rec(e: &mut vcore::Enumerator<Case>, alpha: &[Op], cap: u32, ops: &mut Vec<Op>, depth: usize) {
            if e.stopped() {
                return;
            }
            if !ops.is_empty() {
                let case = Case { cap, ops: ops.clone() };
                e.case(&case, run_sendbuf);
            }
            if ops.len() < depth {
                for op in alpha {
                    // prune histories whose report ops cannot refer to anything yet
                    if matches!(op, Op::Ack(_) | Op::Loss(_) | Op::ResendFlighting)
                        && !ops.iter().any(|o| matches!(o, Op::Pick { .. }))
                    {
                        continue;
                    }
                    if matches!(op, Op::Pick { .. }) && !ops.iter().any(|o| matches!(o, Op::Write { .. })) {
                        continue;
                    }
                    ops.push(op.clone());
                    rec(e, alpha, cap, ops, depth);
                    ops.pop();
                }
            }
        }
        for cap in [4u32] {
            let mut ops = vec![];
            rec(e, &alpha, cap, &mut ops, depth);
        }
    });

    // ---- random model-based stages
    let n = check.pick(60_000, 6_000_000);
    check.stage("sendbuf-exact-small", n, 16, || case_strategy(false, false, 60), run_sendbuf);
    let n = check.pick(40_000, 3_000_000);
    check.stage("sendbuf-exact-big", n, 16, || case_strategy(false, true, 80), run_sendbuf);
    let n = check.pick(40_000, 3_000_000);
    check.stage("sendbuf-relaxed", n, 16, || case_strategy(true, false, 60), run_sendbuf);
    let n = check.pick(40_000, 2_000_000);
    check.stage("sendbuf-zero-rtt", n, 16, || zero_rtt_case_strategy(50), run_zero_rtt);
    let n = check.pick(40_000, 2_000_000);
    check.stage("crypto-outgoing", n, 16, || crypto_case_strategy(false, 60), run_crypto);
    let n = check.pick(60_000, 3_000_000);
    check.stage("stream-sender", n, 16, || stream_case_strategy(60), run_stream);
    check.finish();
}
