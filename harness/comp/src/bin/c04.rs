//! C04 — hostile but well-formed frames cost bounded work and get the RFC's error.
//!
//! Every case is a short legitimate history followed by one (streams: up to two) hostile
//! frame(s) / packet number whose numeric fields are boundary-biased values of [0, 2^62) or
//! state-relative values (bound, bound +-1). The hostile frame is written to bytes by a small
//! encoder of this file, parsed by the real `FrameReader` and then handed to the real handlers
//! in the order the dispatchers of `qconnection/src/space/{initial,handshake,data}.rs` use.
//!
//! The handlers run in a CHILD PROCESS (`c04 --child`, one JSON request per line on stdin):
//!  * allocation oracle: `vcore::alloc::set_limit(64 KiB + 64 x (frame bytes + records held))`
//!    around every handler call; an allocation beyond it fails, the process aborts and the
//!    parent records the observation "allocates without bound" for that handler;
//!  * step oracle: a watchdog thread ends the child when one handler call used more than the
//!    CPU budget of *thread CPU time* (default 1 s = more than 10^4 times the cost of any call
//!    the model accepts); the parent records "iterates without bound". After the first
//!    confirmed kill of a class in a run, further cases of the same class whose model-predicted
//!    step count is astronomically large are not executed again (extrapolated), so the search
//!    continues behind the finding at full speed;
//!  * verdict oracle: reference model (RFC 9000 tables) inside the child, next to the state.
//! The parent is a thin relay: it restarts a dead child and re-sends the case with the
//! dead handler marked as "skip", so everything behind a finding is still checked.

use std::{
    alloc::{GlobalAlloc, Layout},
    collections::{BTreeMap, BTreeSet},
    io::{BufRead, BufReader, Write},
    panic::{AssertUnwindSafe, catch_unwind},
    process::{Child, ChildStdin, ChildStdout, Command, Stdio},
    sync::{
        Arc, Mutex,
        atomic::{AtomicU16, AtomicU64, Ordering},
    },
};

use bytes::Bytes;
use proptest::prelude::*;
use qbase::{
    Epoch,
    cid::{ArcCidCell, ArcLocalCids, ArcRemoteCids, ConnectionId, GenUniqueCid, RetireCid},
    error::{Error as QError, ErrorKind, QuicError},
    flow::FlowController,
    frame::{
        AckFrame, DataBlockedFrame, Frame, FrameReader, MaxDataFrame, NewConnectionIdFrame,
        RetireConnectionIdFrame, StreamCtlFrame,
        io::{ReceiveFrame, SendFrame},
    },
    net::tx::ArcSendWaker,
    packet::{
        InvalidPacketNumber, PacketNumber,
        r#type::{
            Type,
            long::{Type as LongType, Ver1},
            short::OneRtt,
        },
        SpinBit,
    },
    param::{ArcParameters, ClientParameters, ParameterId, Parameters, ServerParameters},
    role::Role,
    sid::handy::{ConsistentConcurrency, DemandConcurrency},
};
use qcongestion::{Algorithm, ArcCC, Feedback, HandshakeStatus, PathStatus, Transport};
use qevent::quic::recovery::PacketLostTrigger;
use qrecovery::{
    crypto::CryptoStream,
    journal::{ArcRcvdJournal, ArcSentJournal},
    streams::DataStreams,
};
use serde::{Deserialize, Serialize};
use serde_json::{Value, json};
use tokio::time::{Duration, Instant};
use vcore::{CaseCtx, Check, Fail, Outcome, gens};

const VMAX: u64 = (1 << 62) - 1;

// ---------------------------------------------------------------------------
// allocator: vcore's counting allocator + a marker line when the per-thread limit is hit
// ---------------------------------------------------------------------------

struct Alloc;

fn raw_out(s: &[u8]) {
    unsafe {
        libc::write(1, s.as_ptr() as *const libc::c_void, s.len());
    }
}

static IN_CHILD: AtomicU64 = AtomicU64::new(0);

fn alloc_failed(size: usize) {
    if IN_CHILD.load(Ordering::Relaxed) == 1 {
        // no allocation here: format the number by hand
        let mut buf = [0u8; 32];
        let mut n = size as u64;
        let mut i = buf.len();
        buf[i - 1] = b'\n';
        i -= 1;
        loop {
            i -= 1;
            buf[i] = b'0' + (n % 10) as u8;
            n /= 10;
            if n == 0 {
                break;
            }
        }
        i -= 2;
        buf[i] = b'A';
        buf[i + 1] = b' ';
        raw_out(&buf[i..]);
        // the request would fail and `handle_alloc_error` abort the process; leave at once
        // (same observation, without the cost of the abort path)
        unsafe { libc::_exit(78) };
    }
}

unsafe impl GlobalAlloc for Alloc {
    unsafe fn alloc(&self, layout: Layout) -> *mut u8 {
        let p = unsafe { vcore::alloc::Counting.alloc(layout) };
        if p.is_null() {
            alloc_failed(layout.size());
        }
        p
    }
    unsafe fn dealloc(&self, ptr: *mut u8, layout: Layout) {
        unsafe { vcore::alloc::Counting.dealloc(ptr, layout) }
    }
    unsafe fn alloc_zeroed(&self, layout: Layout) -> *mut u8 {
        let p = unsafe { vcore::alloc::Counting.alloc_zeroed(layout) };
        if p.is_null() {
            alloc_failed(layout.size());
        }
        p
    }
    unsafe fn realloc(&self, ptr: *mut u8, layout: Layout, new_size: usize) -> *mut u8 {
        let p = unsafe { vcore::alloc::Counting.realloc(ptr, layout, new_size) };
        if p.is_null() {
            alloc_failed(new_size);
        }
        p
    }
}

#[global_allocator]
static A: Alloc = Alloc;

// ---------------------------------------------------------------------------
// numbers of a hostile frame
// ---------------------------------------------------------------------------

/// A numeric field: absolute, relative to the state-dependent bound of that field
/// (`Rel(0)` = the largest value that is still legitimate, `Rel(1)` = over by one), or
/// relative to a second, field-specific anchor (`Half`).
#[derive(Debug, Clone, Copy, Serialize, Deserialize, PartialEq)]
enum Num {
    Abs(u64),
    Rel(i8),
    Half(i8),
}

fn clamp62(x: i128) -> u64 {
    x.clamp(0, VMAX as i128) as u64
}

impl Num {
    fn res(&self, base: i128, half: i128) -> u64 {
        match *self {
            Num::Abs(x) => x.min(VMAX),
            Num::Rel(d) => clamp62(base + d as i128),
            Num::Half(d) => clamp62(half + d as i128),
        }
    }
}

fn num() -> BoxedStrategy<Num> {
    prop_oneof![
        5 => (-2i8..=2).prop_map(Num::Rel),
        3 => gens::varint().prop_map(Num::Abs),
        1 => (-2i8..=2).prop_map(Num::Half),
    ]
    .boxed()
}

/// mostly legitimate (at or below the bound), sometimes over by one or two, sometimes extreme
fn num_fit() -> BoxedStrategy<Num> {
    prop_oneof![
        6 => (-8i8..=0).prop_map(Num::Rel),
        2 => (1i8..=2).prop_map(Num::Rel),
        2 => (0u64..4).prop_map(Num::Abs),
        2 => gens::varint().prop_map(Num::Abs),
        1 => (-2i8..=2).prop_map(Num::Half),
    ]
    .boxed()
}

fn num_small(max: u64) -> BoxedStrategy<Num> {
    prop_oneof![
        3 => (0..=max).prop_map(Num::Abs),
        3 => (-2i8..=2).prop_map(Num::Rel),
        2 => gens::varint().prop_map(Num::Abs),
    ]
    .boxed()
}

// ---------------------------------------------------------------------------
// frame encoder of this file (RFC 9000 section 19 layouts)
// ---------------------------------------------------------------------------

fn put_vi(b: &mut Vec<u8>, x: u64) {
    assert!(x <= VMAX);
    if x < 1 << 6 {
        b.push(x as u8);
    } else if x < 1 << 14 {
        b.extend_from_slice(&((x as u16) | 0x4000).to_be_bytes());
    } else if x < 1 << 30 {
        b.extend_from_slice(&((x as u32) | 0x8000_0000).to_be_bytes());
    } else {
        b.extend_from_slice(&(x | 0xc000_0000_0000_0000).to_be_bytes());
    }
}

fn pkt_type(epoch: u8) -> Type {
    match epoch {
        0 => Type::Long(LongType::V1(Ver1::INITIAL)),
        1 => Type::Long(LongType::V1(Ver1::HANDSHAKE)),
        _ => Type::Short(OneRtt(SpinBit::Zero)),
    }
}

fn epoch_of(e: u8) -> Epoch {
    match e {
        0 => Epoch::Initial,
        1 => Epoch::Handshake,
        _ => Epoch::Data,
    }
}

/// Parse exactly one frame with the real reader; Err = the error the connection would close with.
fn parse_one(bytes: &[u8], epoch: u8) -> Result<Frame, QuicError> {
    let mut rd = FrameReader::new(Bytes::copy_from_slice(bytes), pkt_type(epoch));
    match rd.next() {
        Some(Ok((f, _))) => Ok(f),
        Some(Err(e)) => Err(QuicError::from(e)),
        None => Err(QuicError::with_default_fty(ErrorKind::ProtocolViolation, "no frame")),
    }
}

fn kind_name(k: ErrorKind) -> String {
    format!("{k:?}")
}

// ---------------------------------------------------------------------------
// child side: context, risky-call wrapper, watchdog
// ---------------------------------------------------------------------------

#[derive(Debug, Clone, Serialize, Deserialize)]
struct Skip {
    h: String,
    /// "alloc" | "cpu" | "abort"
    kind: String,
    detail: String,
}

#[derive(Debug, Clone, Serialize, Deserialize)]
struct Request {
    kind: String,
    case: Value,
    skip: Vec<Skip>,
    /// cpu signatures already confirmed by a kill in this run
    assume: Vec<String>,
}

#[derive(Debug, Clone, Serialize, Deserialize, Default)]
struct FailRec {
    sig: String,
    msg: String,
    fatal: bool,
}

#[derive(Debug, Clone, Serialize, Deserialize, Default)]
struct Reply {
    fails: Vec<FailRec>,
    classes: Vec<String>,
    nontrivial: bool,
    note: Option<Value>,
}

struct Cx {
    skip: Vec<Skip>,
    assume: Vec<String>,
    reply: Reply,
    /// a panic happened inside the stack: locks may be poisoned, the world is leaked at the end
    tainted: bool,
    cpu_budget_ns: u64,
}

impl Cx {
    fn class(&mut self, c: impl Into<String>) {
        self.reply.classes.push(c.into());
    }
    fn finding(&mut self, sig: impl Into<String>, msg: impl Into<String>) {
        self.reply.fails.push(FailRec { sig: sig.into(), msg: msg.into(), fatal: false });
    }
    fn fatal(&mut self, sig: impl Into<String>, msg: impl Into<String>) {
        self.reply.fails.push(FailRec { sig: sig.into(), msg: msg.into(), fatal: true });
    }
    fn nontrivial(&mut self) {
        self.reply.nontrivial = true;
    }
}

static DEADLINE_NS: AtomicU64 = AtomicU64::new(0);
static WORKER_CLOCK: AtomicU64 = AtomicU64::new(u64::MAX);

fn clock_ns(id: libc::clockid_t) -> u64 {
    let mut ts = libc::timespec { tv_sec: 0, tv_nsec: 0 };
    unsafe { libc::clock_gettime(id, &mut ts) };
    ts.tv_sec as u64 * 1_000_000_000 + ts.tv_nsec as u64
}

fn start_watchdog() {
    std::thread::spawn(|| {
        loop {
            std::thread::sleep(std::time::Duration::from_millis(10));
            let d = DEADLINE_NS.load(Ordering::SeqCst);
            let c = WORKER_CLOCK.load(Ordering::SeqCst);
            if d != 0 && c != u64::MAX && clock_ns(c as libc::clockid_t) > d {
                raw_out(b"C\n");
                unsafe { libc::_exit(77) };
            }
        }
    });
}

/// steps beyond which a call is only executed until the first confirmed kill of its class
const HARD_STEPS: u128 = 1 << 24;

enum HObs<R> {
    Done(R, vcore::alloc::Snapshot),
    Panic(String, String),
    /// not executed: the parent saw the child die here, or the class is already confirmed
    Skipped,
}

/// Run one handler call under the allocation limit and the CPU watchdog.
fn risky<R>(
    cx: &mut Cx,
    h: &str,
    bound: u64,
    predicted: Option<u128>,
    what: &str,
    f: impl FnOnce() -> R,
) -> HObs<R> {
    risky2(cx, h, bound, predicted, 0, what, f)
}

/// `bytes_per_step`: lower bound of the bytes the model expects the call to request per
/// predicted step (0 = none; below the record sizes seen in refused requests: 88 bytes per
/// received-packet record, 56 per connection-ID slot); only used to stop re-executing a class of allocation blow-up
/// that already killed the child twice in this run.
fn risky2<R>(
    cx: &mut Cx,
    h: &str,
    bound: u64,
    predicted: Option<u128>,
    bytes_per_step: u64,
    what: &str,
    f: impl FnOnce() -> R,
) -> HObs<R> {
    let (alloc_sig, cpu_sig) = sigs_of(h);
    if bytes_per_step > 0
        && predicted.is_some_and(|p| p * bytes_per_step as u128 > 2 * bound as u128)
        && cx.assume.iter().any(|a| a.strip_prefix("alloc:") == Some(alloc_sig))
    {
        cx.finding(
            alloc_sig,
            format!("{h}: {what}: model predicts at least {} bytes for {predicted:?} skipped numbers, bound {bound}; not executed (same class already aborted twice on the allocation bound in this run)", predicted.unwrap() * bytes_per_step as u128),
        );
        cx.class(format!("extrapolated:{h}"));
        return HObs::Skipped;
    }
    if let Some(s) = cx.skip.iter().find(|s| s.h == h).cloned() {
        let (sig, text) = match s.kind.as_str() {
            "alloc" => (
                alloc_sig.to_string(),
                format!("{h}: {what}: allocation request of {} bytes beyond the bound of {bound} bytes (64 KiB + 64 x (frame bytes + records held)); process aborted", s.detail),
            ),
            "cpu" => (
                cpu_sig.to_string(),
                format!("{h}: {what}: still running after {} ms of thread CPU time (model-predicted steps: {predicted:?}); process killed", cx.cpu_budget_ns / 1_000_000),
            ),
            _ => (format!("{h}:abort"), format!("{h}: {what}: process died ({})", s.detail)),
        };
        cx.finding(sig, text);
        cx.class(format!("died:{h}:{}", s.kind));
        return HObs::Skipped;
    }
    if predicted.is_some_and(|p| p > HARD_STEPS) && cx.assume.iter().any(|a| a.strip_prefix("cpu:") == Some(cpu_sig)) {
        cx.finding(
            cpu_sig,
            format!("{h}: {what}: model-predicted steps {predicted:?}; not executed (same class already killed by the CPU watchdog in this run)"),
        );
        cx.class(format!("extrapolated:{h}"));
        return HObs::Skipped;
    }
    raw_out(format!("B {h}\n").as_bytes());
    DEADLINE_NS.store(clock_ns(libc::CLOCK_THREAD_CPUTIME_ID) + cx.cpu_budget_ns, Ordering::SeqCst);
    vcore::alloc::set_limit(bound);
    let r = catch_unwind(AssertUnwindSafe(|| vcore::alloc::measure(f)));
    vcore::alloc::clear_limit();
    DEADLINE_NS.store(0, Ordering::SeqCst);
    raw_out(b"E\n");
    match r {
        Ok((r, snap)) => HObs::Done(r, snap),
        Err(p) => {
            cx.tainted = true;
            let (loc, msg) = vcore::take_thread_panics().pop().unwrap_or_else(|| {
                let m = p
                    .downcast_ref::<&str>()
                    .map(|s| s.to_string())
                    .or_else(|| p.downcast_ref::<String>().cloned())
                    .unwrap_or_default();
                ("?".into(), m)
            });
            // file only: line numbers move with every repair
            let file = loc.rsplit_once(':').map(|x| x.0.to_string()).unwrap_or(loc);
            if msg.contains("capacity overflow") && file.contains("library/alloc") {
                // the request was too large even to be expressed: same observation as a refused allocation
                cx.finding(alloc_sig, format!("{h}: {what}: allocation size overflows (panic 'capacity overflow' in {file}); bound {bound} bytes"));
                cx.class(format!("died:{h}:capacity-overflow"));
                return HObs::Skipped;
            }
            HObs::Panic(file, msg)
        }
    }
}

fn rt() -> tokio::runtime::Runtime {
    tokio::runtime::Builder::new_current_thread()
        .enable_time()
        .start_paused(true)
        .build()
        .expect("runtime")
}

fn child_main() -> ! {
    IN_CHILD.store(1, Ordering::SeqCst);
    unsafe {
        // an abort is an observation here, not a crash to analyse
        let lim = libc::rlimit { rlim_cur: 0, rlim_max: 0 };
        libc::setrlimit(libc::RLIMIT_CORE, &lim);
    }
    vcore::install_panic_hook();
    let cpu_ms: u64 = std::env::var("VERIF_C04_CPU_MS").ok().and_then(|s| s.parse().ok()).unwrap_or(1000);
    start_watchdog();
    // the worker needs a deep stack for nothing in particular, but keep the main thread free
    let worker = std::thread::Builder::new()
        .stack_size(64 << 20)
        .spawn(move || {
            let mut cid: libc::clockid_t = 0;
            unsafe { libc::pthread_getcpuclockid(libc::pthread_self(), &mut cid) };
            WORKER_CLOCK.store(cid as u64, Ordering::SeqCst);
            let stdin = std::io::stdin();
            let mut line = String::new();
            loop {
                line.clear();
                match stdin.lock().read_line(&mut line) {
                    Ok(0) | Err(_) => break,
                    Ok(_) => {}
                }
                let req: Request = match serde_json::from_str(line.trim()) {
                    Ok(r) => r,
                    Err(e) => {
                        raw_out(format!("X bad request: {e}\n").as_bytes());
                        continue;
                    }
                };
                let mut cx = Cx {
                    skip: req.skip.clone(),
                    assume: req.assume.clone(),
                    reply: Reply::default(),
                    tainted: false,
                    cpu_budget_ns: cpu_ms * 1_000_000,
                };
                let r = catch_unwind(AssertUnwindSafe(|| match req.kind.as_str() {
                    "ack" => child_ack(&mut cx, serde_json::from_value(req.case.clone()).unwrap()),
                    "pn" => child_pn(&mut cx, serde_json::from_value(req.case.clone()).unwrap()),
                    "cid" => child_cid(&mut cx, serde_json::from_value(req.case.clone()).unwrap()),
                    "streams" => child_streams(&mut cx, serde_json::from_value(req.case.clone()).unwrap()),
                    k => cx.fatal("harness", format!("unknown kind {k}")),
                }));
                if r.is_err() {
                    let (loc, msg) = vcore::take_thread_panics().pop().unwrap_or(("?".into(), "?".into()));
                    let file = loc.rsplit_once(':').map(|x| x.0.to_string()).unwrap_or(loc.clone());
                    cx.fatal(format!("panic-outside-handler@{file}"), format!("panicked at {loc}: {msg}"));
                }
                let _ = vcore::take_thread_panics();
                raw_out(format!("R {}\n", serde_json::to_string(&cx.reply).unwrap()).as_bytes());
            }
        })
        .unwrap();
    let _ = worker.join();
    std::process::exit(0);
}

// ---------------------------------------------------------------------------
// parent side: one child per runner thread
// ---------------------------------------------------------------------------

struct Kid {
    proc_: Child,
    tx: ChildStdin,
    rx: BufReader<ChildStdout>,
}

impl Kid {
    fn spawn() -> Kid {
        let exe = std::env::current_exe().expect("current_exe");
        let mut c = Command::new(exe)
            .arg("--child")
            .env("RUST_BACKTRACE", "0")
            .stdin(Stdio::piped())
            .stdout(Stdio::piped())
            .stderr(if std::env::var_os("VERIF_C04_CHILD_STDERR").is_some() { Stdio::inherit() } else { Stdio::null() })
            .spawn()
            .expect("spawn child");
        let tx = c.stdin.take().unwrap();
        let rx = BufReader::new(c.stdout.take().unwrap());
        Kid { proc_: c, tx, rx }
    }
}

impl Drop for Kid {
    fn drop(&mut self) {
        let _ = self.proc_.kill();
        let _ = self.proc_.wait();
    }
}

thread_local! {
    static KID: std::cell::RefCell<Option<Kid>> = const { std::cell::RefCell::new(None) };
}

/// cpu signatures confirmed by a watchdog kill in this run (never consulted in replay mode)
static CONFIRMED: Mutex<BTreeMap<String, u32>> = Mutex::new(BTreeMap::new());
static REPLAY: AtomicU64 = AtomicU64::new(0);
static DEATHS: AtomicU64 = AtomicU64::new(0);

enum Talk {
    Reply(Reply),
    Died { h: Option<String>, kind: String, detail: String },
}

fn talk(kid: &mut Kid, req: &Request) -> Talk {
    let line = serde_json::to_string(req).unwrap();
    let sent = kid.tx.write_all(line.as_bytes()).and_then(|_| kid.tx.write_all(b"\n")).and_then(|_| kid.tx.flush());
    let mut cur: Option<String> = None;
    let mut alloc: Option<String> = None;
    let mut cpu = false;
    if sent.is_ok() {
        let mut buf = String::new();
        loop {
            buf.clear();
            match kid.rx.read_line(&mut buf) {
                Ok(0) | Err(_) => break,
                Ok(_) => {}
            }
            let l = buf.trim_end();
            if let Some(h) = l.strip_prefix("B ") {
                cur = Some(h.to_string());
                alloc = None;
            } else if l == "E" {
                cur = None;
            } else if let Some(n) = l.strip_prefix("A ") {
                // the first refused request is the handler's; later ones come from the abort path
                alloc.get_or_insert(n.to_string());
            } else if l == "C" {
                cpu = true;
            } else if let Some(j) = l.strip_prefix("R ") {
                match serde_json::from_str::<Reply>(j) {
                    Ok(r) => return Talk::Reply(r),
                    Err(e) => {
                        eprintln!("c04: bad reply from child: {e}");
                        std::process::exit(2);
                    }
                }
            } else if l.starts_with("X ") {
                eprintln!("c04: child: {l}");
                std::process::exit(2);
            }
        }
    }
    let status = kid.proc_.wait().map(|s| format!("{s}")).unwrap_or_default();
    let (kind, detail) = if cpu {
        ("cpu".to_string(), status)
    } else if let Some(n) = alloc {
        ("alloc".to_string(), n)
    } else {
        ("abort".to_string(), status)
    };
    Talk::Died { h: cur, kind, detail }
}

/// Run one case in the child of this thread; restart and re-send behind a dead handler.
fn run_in_child(kind: &str, case: Value, ctx: &mut CaseCtx) -> Outcome {
    let mut req = Request { kind: kind.to_string(), case, skip: vec![], assume: vec![] };
    for _round in 0..8 {
        if REPLAY.load(Ordering::Relaxed) == 0 {
            req.assume = CONFIRMED
                .lock()
                .unwrap()
                .iter()
                .filter(|(k, n)| k.starts_with("cpu:") || **n >= 2)
                .map(|(k, _)| k.clone())
                .collect();
        }
        let t = KID.with(|k| {
            let mut k = k.borrow_mut();
            if k.is_none() {
                *k = Some(Kid::spawn());
            }
            let t = talk(k.as_mut().unwrap(), &req);
            if matches!(t, Talk::Died { .. }) {
                *k = None;
            }
            t
        });
        match t {
            Talk::Reply(r) => {
                for c in r.classes {
                    ctx.class(c);
                }
                if r.nontrivial {
                    ctx.nontrivial();
                }
                if let Some(n) = r.note {
                    ctx.note(n);
                }
                let mut fatal = None;
                for f in r.fails {
                    if f.fatal {
                        if fatal.is_none() {
                            fatal = Some(Fail::new(f.sig, f.msg));
                        }
                    } else {
                        ctx.known.push(Fail::new(f.sig, f.msg));
                    }
                }
                return match fatal {
                    Some(f) => Err(f),
                    None => Ok(()),
                };
            }
            Talk::Died { h: Some(h), kind, detail } => {
                DEATHS.fetch_add(1, Ordering::Relaxed);
                let key = match kind.as_str() {
                    "cpu" => Some(format!("cpu:{}", sigs_of(&h).1)),
                    "alloc" => Some(format!("alloc:{}", sigs_of(&h).0)),
                    _ => None,
                };
                if let Some(k) = key {
                    *CONFIRMED.lock().unwrap().entry(k).or_insert(0) += 1;
                }
                req.skip.push(Skip { h, kind, detail });
            }
            Talk::Died { h: None, kind, detail } => {
                eprintln!("c04: child died outside a handler call ({kind} {detail}) on {}", serde_json::to_string(&req).unwrap_or_default());
                std::process::exit(2);
            }
        }
    }
    eprintln!("c04: child died more than 8 times on one case");
    std::process::exit(2);
}

// handler name -> (alloc signature, cpu signature); one table so parent and child agree
fn sigs_of(h: &str) -> (&'static str, &'static str) {
    match h {
        "cc.on_ack_rcvd" => ("ack-alloc-unbounded:cc.on_ack_rcvd", "ack-huge-span-hangs:cc.on_ack_rcvd"),
        "rcvd.on_rcvd_ack" => ("ack-alloc-unbounded:rcvd.on_rcvd_ack", "ack-huge-span-hangs:rcvd.on_rcvd_ack"),
        "space.recv_ack" => ("ack-alloc-unbounded:space.recv_ack", "ack-huge-span-hangs:space.recv_ack"),
        "frame.decode" => ("decode-alloc-unbounded", "decode-hangs"),
        "rcvd.on_rcvd_pn" => ("rcvd-pn-jump-materialises-gap", "rcvd-pn-jump-hangs"),
        "rcvd.gen_ack" => ("rcvd-gen-ack-alloc-unbounded", "rcvd-gen-ack-hangs"),
        "remote.new_cid" => ("newcid-seq-jump-materialises-gap", "newcid-seq-jump-hangs"),
        "local.retire_cid" => ("retirecid-alloc-unbounded", "retirecid-hangs"),
        "local.set_limit" => ("peer-cid-limit-issues-without-bound", "peer-cid-limit-issues-without-bound"),
        "streams.frame1" | "streams.frame2" => ("stream-frame-alloc-unbounded", "stream-frame-hangs"),
        "streams.frame2-after-handover" => ("demand-streams-blocked-limit-handover", "demand-streams-blocked-limit-handover"),
        _ => ("alloc-unbounded", "hangs"),
    }
}


// ===========================================================================
// stage "ack": sent journal + received journal + congestion controller of one space,
// then one hostile ACK frame through the dispatcher order of qconnection/src/space/*.rs
// ===========================================================================

#[derive(Debug, Clone, Serialize, Deserialize, PartialEq)]
enum AOp {
    /// send a packet: `frames` reliable frames (0 = trivial packet); with_ack: it carries an ACK
    Send { frames: u8, with_ack: bool },
    /// receive a packet `gap` numbers above the largest received (gap >= 1)
    Recv { gap: u8, ae: bool },
    /// the peer acknowledges packets really sent: newest - top, `first` more below it, then (gap, len)
    PeerAck { top: u8, first: u8, more: Vec<(u8, u8)> },
    Advance { ms: u16 },
}

#[derive(Debug, Clone, Serialize, Deserialize)]
struct HAck {
    largest: Num,
    delay: Num,
    first: Num,
    ranges: Vec<(Num, Num)>,
    ecn: Option<(Num, Num, Num)>,
    /// ACK Range Count field larger than the ranges present (decoder must refuse)
    count_extra: Option<Num>,
}

#[derive(Debug, Clone, Serialize, Deserialize)]
struct AckCase {
    epoch: u8,
    server: bool,
    ops: Vec<AOp>,
    hostile: HAck,
}

struct LossRelay {
    sent: ArcSentJournal<u32>,
    lost: Mutex<Vec<u64>>,
}

impl Feedback for LossRelay {
    // what DataTracker::may_loss / the Initial and Handshake trackers do with the journal
    fn may_loss(&self, _trigger: PacketLostTrigger, pns: &mut dyn Iterator<Item = u64>) {
        let mut g = self.sent.rotate();
        for pn in pns {
            let _frames: Vec<u32> = g.may_loss_packet(pn).collect();
            self.lost.lock().unwrap().push(pn);
        }
    }
}

#[derive(Clone, Copy, PartialEq, Debug)]
enum TxSt {
    Flight,
    Acked,
    Trivial,
}

struct AckWorld {
    epoch: u8,
    sent: ArcSentJournal<u32>,
    rcvd: ArcRcvdJournal,
    cc: ArcCC,
    relay: Arc<LossRelay>,
    // model
    tx: Vec<(Vec<u32>, TxSt)>,
    largest_rcvd: Option<u64>,
    rcvd_count: u64,
    next_frame_id: u32,
}

/// RFC 9000 19.3.1 with checked arithmetic: Ok(runs (hi, lo)) or Err(index of the field that goes negative)
fn ack_runs(largest: u64, first: u64, ranges: &[(u64, u64)]) -> Result<Vec<(u64, u64)>, String> {
    let lo = largest.checked_sub(first).ok_or_else(|| format!("first range {first} > largest {largest}"))?;
    let mut out = vec![(largest, lo)];
    let mut smallest = lo;
    for (i, (gap, len)) in ranges.iter().enumerate() {
        let hi = smallest
            .checked_sub(*gap)
            .and_then(|x| x.checked_sub(2))
            .ok_or_else(|| format!("range {i}: gap {gap} + 2 > smallest {smallest}"))?;
        let lo = hi.checked_sub(*len).ok_or_else(|| format!("range {i}: length {len} > {hi}"))?;
        out.push((hi, lo));
        smallest = lo;
    }
    Ok(out)
}

fn encode_ack(largest: u64, delay: u64, first: u64, ranges: &[(u64, u64)], ecn: Option<(u64, u64, u64)>, count: u64) -> Vec<u8> {
    let mut b = vec![];
    put_vi(&mut b, if ecn.is_some() { 0x03 } else { 0x02 });
    put_vi(&mut b, largest);
    put_vi(&mut b, delay);
    put_vi(&mut b, count);
    put_vi(&mut b, first);
    for (g, l) in ranges {
        put_vi(&mut b, *g);
        put_vi(&mut b, *l);
    }
    if let Some((a, b1, c)) = ecn {
        put_vi(&mut b, a);
        put_vi(&mut b, b1);
        put_vi(&mut b, c);
    }
    b
}

impl AckWorld {
    fn new(c: &AckCase) -> Self {
        let hs = Arc::new(HandshakeStatus::new(c.server));
        let status = PathStatus::new(hs, Arc::new(AtomicU16::new(1200)));
        let sent: ArcSentJournal<u32> = ArcSentJournal::with_capacity(16);
        let relay = Arc::new(LossRelay { sent: sent.clone(), lost: Mutex::new(vec![]) });
        let idle = Arc::new(LossRelay { sent: ArcSentJournal::with_capacity(1), lost: Mutex::new(vec![]) });
        let tr = |e: u8| -> Arc<dyn Feedback> {
            if e == c.epoch { relay.clone() } else { idle.clone() }
        };
        let cc = ArcCC::new(
            Algorithm::NewReno,
            Duration::from_millis(25),
            [tr(0), tr(1), tr(2)],
            status.clone(),
            ArcSendWaker::new(),
        );
        status.release_anti_amplification_limit();
        AckWorld {
            epoch: c.epoch,
            sent,
            rcvd: ArcRcvdJournal::with_capacity(16, if c.epoch == 2 { Some(Duration::from_millis(25)) } else { None }),
            cc,
            relay,
            tx: vec![],
            largest_rcvd: None,
            rcvd_count: 0,
            next_frame_id: 1,
        }
    }

    fn records(&self) -> u64 {
        self.tx.len() as u64 + self.largest_rcvd.map_or(0, |l| l + 1) + self.tx.iter().map(|t| t.0.len() as u64).sum::<u64>()
    }

    fn send(&mut self, frames: u8, with_ack: bool) -> Result<(), String> {
        let e = epoch_of(self.epoch);
        let mut g = self.sent.new_packet();
        let (pn, _) = g.pn();
        if pn != self.tx.len() as u64 {
            return Err(format!("next pn {pn}, model {}", self.tx.len()));
        }
        let mut ids = vec![];
        for _ in 0..frames {
            g.record_frame(self.next_frame_id);
            ids.push(self.next_frame_id);
            self.next_frame_id += 1;
        }
        let mut ack = None;
        if (with_ack || frames == 0) && self.largest_rcvd.is_some() {
            let l = self.largest_rcvd.unwrap();
            if self.rcvd.gen_ack_frame_util(pn, l, Instant::now(), 1200).is_ok() {
                ack = Some(l);
            }
        }
        if frames == 0 {
            g.record_trivial();
        }
        let (retran, expire) = self.cc.retransmit_and_expire_time(e);
        g.build_with_time(retran, expire);
        self.cc.on_pkt_sent(e, pn, frames > 0, 60 + 40 * frames as usize, frames > 0, ack);
        self.tx.push((ids, if frames == 0 { TxSt::Trivial } else { TxSt::Flight }));
        Ok(())
    }

    fn recv(&mut self, gap: u8, ae: bool) -> Result<(), String> {
        let e = epoch_of(self.epoch);
        let pn = match self.largest_rcvd {
            None => gap as u64 - 1,
            Some(l) => l + gap as u64,
        };
        let got = self.rcvd.decode_pn(PacketNumber::U32(pn as u32));
        if got != Ok(pn) {
            return Err(format!("decode_pn({pn}) = {got:?}"));
        }
        self.rcvd.on_rcvd_pn(pn, ae, self.cc.get_pto(e));
        self.cc.on_pkt_rcvd(e, pn, ae);
        self.largest_rcvd = Some(pn);
        self.rcvd_count += 1;
        Ok(())
    }

    /// the three consumers of an ACK frame, in dispatcher order, unguarded (legitimate frame)
    fn legit_ack(&mut self, set: &BTreeSet<u64>) -> Result<(), String> {
        let desc: Vec<u64> = set.iter().rev().copied().collect();
        let mut runs: Vec<(u64, u64)> = vec![];
        for p in desc {
            match runs.last_mut() {
                Some((_, lo)) if *lo == p + 1 => *lo = p,
                _ => runs.push((p, p)),
            }
        }
        let (hi0, lo0) = runs[0];
        let mut ranges = vec![];
        let mut prev = lo0;
        for &(hi, lo) in &runs[1..] {
            ranges.push((prev - hi - 2, hi - lo));
            prev = lo;
        }
        let bytes = encode_ack(hi0, 10, hi0 - lo0, &ranges, None, ranges.len() as u64);
        let f = match parse_one(&bytes, self.epoch) {
            Ok(Frame::Ack(f)) => f,
            other => return Err(format!("legit ACK does not parse: {other:?}")),
        };
        if self.sent.rotate().update_largest(&f).is_ok() {
            self.cc.on_ack_rcvd(epoch_of(self.epoch), &f);
            self.rcvd.on_rcvd_ack(&f);
        }
        let got = self.space_recv_ack(&f).map_err(|e| format!("legit ACK of {set:?} refused: {e:?}"))?;
        self.check_feedback(&got, set.iter().rev().copied()).map_err(|e| format!("legit ACK of {set:?}: {e}"))
    }

    /// line-for-line body of `Ack{Initial,Handshake,Data}Space::recv_frame` (qconnection/src/space.rs)
    fn space_recv_ack(&self, ack_frame: &AckFrame) -> Result<Vec<(u64, Vec<u32>)>, QError> {
        let mut fed = vec![];
        let mut rotate_guard = self.sent.rotate();
        rotate_guard.update_largest(ack_frame)?;

        let acked = ack_frame.iter().flat_map(|r| r.rev()).collect::<Vec<_>>();
        for pn in acked {
            let mut v = vec![];
            for frame in rotate_guard.on_packet_acked(pn) {
                v.push(frame);
            }
            fed.push((pn, v));
        }
        Ok(fed)
    }

    /// compare what was fed back with the model; a packet the loss detector declared lost may
    /// have been forgotten by the journal already (expired), then nothing is fed back for it
    fn check_feedback(&mut self, fed: &[(u64, Vec<u32>)], pns: impl Iterator<Item = u64>) -> Result<(), String> {
        let want_pns: Vec<u64> = pns.collect();
        let got_pns: Vec<u64> = fed.iter().map(|x| x.0).collect();
        if sorted(want_pns.clone()) != sorted(got_pns.clone()) {
            return Err(format!("packet numbers walked {got_pns:?}, model {want_pns:?}"));
        }
        let lost = self.relay.lost.lock().unwrap().clone();
        for (pn, got) in fed {
            let want = match self.tx.get_mut(*pn as usize) {
                Some(t) if t.1 == TxSt::Flight => {
                    t.1 = TxSt::Acked;
                    t.0.clone()
                }
                _ => vec![],
            };
            if *got != want && !(got.is_empty() && lost.contains(pn)) {
                return Err(format!("packet {pn}: frames fed back {got:?}, model {want:?}"));
            }
        }
        Ok(())
    }
}

fn sorted<T: Ord>(mut v: Vec<T>) -> Vec<T> {
    v.sort();
    v
}

fn child_ack(cx: &mut Cx, c: AckCase) {
    let rt = rt();
    let _g = rt.enter();
    let mut w = AckWorld::new(&c);
    // ---- legitimate history
    let mut advanced = 0u64;
    for (i, op) in c.ops.iter().enumerate() {
        let r = match op {
            AOp::Send { frames, with_ack } => w.send(*frames, *with_ack),
            AOp::Recv { gap, ae } => w.recv((*gap).max(1), *ae),
            AOp::PeerAck { top, first, more } => {
                let n = w.tx.len() as u64;
                if n == 0 {
                    Ok(())
                } else {
                    let mut set = BTreeSet::new();
                    let hi = (n - 1).saturating_sub(*top as u64);
                    let mut lo = hi.saturating_sub(*first as u64);
                    set.extend(lo..=hi);
                    for (g, l) in more {
                        if lo < *g as u64 + 2 {
                            break;
                        }
                        let h2 = lo - *g as u64 - 2;
                        let l2 = h2.saturating_sub(*l as u64);
                        set.extend(l2..=h2);
                        lo = l2;
                    }
                    w.legit_ack(&set)
                }
            }
            AOp::Advance { ms } => {
                // stay well below the initial loss delay / PTO so nothing expires by age
                let ms = (*ms as u64).min(250u64.saturating_sub(advanced));
                advanced += ms;
                rt.block_on(tokio::time::advance(Duration::from_millis(ms)));
                Ok(())
            }
        };
        if let Err(e) = r {
            cx.fatal("ack-history", format!("op {i} {op:?}: {e}"));
            std::mem::forget(w);
            return;
        }
    }
    // ---- the hostile frame
    let next = w.tx.len() as u64;
    let h = &c.hostile;
    let largest = h.largest.res(next as i128 - 1, (1i128 << 31) - 1);
    let first = h.first.res(largest as i128, (1i128 << 31) - 1);
    let mut ranges: Vec<(u64, u64)> = vec![];
    let mut smallest: i128 = largest as i128 - first as i128;
    let mut by_one = largest == next || first == largest + 1;
    for (g, l) in &h.ranges {
        let gfit = smallest - 2;
        let gap = g.res(gfit, (1i128 << 31) - 1);
        let lfit = smallest - gap as i128 - 2;
        let len = l.res(lfit, (1i128 << 31) - 1);
        by_one |= gap as i128 == gfit + 1 || len as i128 == lfit + 1;
        ranges.push((gap, len));
        smallest = lfit - len as i128;
    }
    let delay = h.delay.res(1000, 1 << 31);
    let ecn = h.ecn.map(|(a, b, c3)| (a.res(0, 1 << 31), b.res(0, 1 << 31), c3.res(1, 1 << 31)));
    let count = ranges.len() as u64 + h.count_extra.map_or(0, |n| n.res(1, 1 << 31).max(1)).min(VMAX - 64);
    let bytes = encode_ack(largest, delay, first, &ranges, ecn, count);
    let big = largest >= 1 << 31
        || first >= 1 << 31
        || delay >= 1 << 31
        || ranges.iter().any(|(g, l)| *g >= 1 << 31 || *l >= 1 << 31)
        || ecn.is_some_and(|(a, b, c3)| a.max(b).max(c3) >= 1 << 31)
        || count >= 1 << 31;
    if big || by_one {
        cx.nontrivial();
    }
    if big {
        cx.class("field>=2^31");
    }
    if by_one {
        cx.class("bound+1");
    }
    let records = w.records();
    let bound = (64 << 10) + 64 * (bytes.len() as u64 + records);
    let what = format!(
        "ACK{{largest {largest}, delay {delay}, first {first}, ranges {ranges:?}, ecn {ecn:?}, count {count}}} after {next} packets sent (epoch {})",
        c.epoch
    );
    let note = json!({"frame": what, "records": records, "bound": bound});
    cx.reply.note = Some(note);

    // decode
    let ep = c.epoch;
    let parsed = match risky(cx, "frame.decode", bound, None, &what, || parse_one(&bytes, ep)) {
        HObs::Done(r, _) => r,
        HObs::Panic(file, msg) => {
            cx.fatal(format!("decode-panic@{file}"), format!("{what}: {msg}"));
            std::mem::forget(w);
            return;
        }
        HObs::Skipped => {
            std::mem::forget(w);
            return;
        }
    };
    let f = match parsed {
        Ok(Frame::Ack(f)) => {
            if count != ranges.len() as u64 {
                cx.fatal("ack-count-lie-accepted", format!("{what}: parsed although fewer ranges than announced are present"));
                std::mem::forget(w);
                return;
            }
            f
        }
        Ok(other) => {
            cx.fatal("harness", format!("{what}: parsed as {other:?}"));
            return;
        }
        Err(e) => {
            if count != ranges.len() as u64 && e.kind() == ErrorKind::FrameEncoding {
                cx.class("verdict:decode-refused-count-lie");
            } else {
                cx.fatal("ack-decode-refused", format!("{what}: {e:?}"));
            }
            return;
        }
    };

    // model verdict
    let runs = ack_runs(largest, first, &ranges);
    let negative = runs.is_err();
    let unsent = largest >= next;
    // numbers the consumers enumerate before the arithmetic goes wrong
    let mut predicted: u128 = 0;
    {
        let mut sm = largest as i128 - first as i128;
        if sm >= 0 {
            predicted += first as u128 + 1;
            for (g, l) in &ranges {
                let hi = sm - *g as i128 - 2;
                let lo = hi - *l as i128;
                if lo < 0 {
                    break;
                }
                predicted += *l as u128 + 1;
                sm = lo;
            }
        }
    }
    cx.class(match (negative, unsent) {
        (true, true) => "model:negative+unsent",
        (true, false) => "model:negative",
        (false, true) => "model:unsent",
        (false, false) => "model:acceptable",
    });
    if predicted > 1 << 16 {
        cx.class(if predicted > HARD_STEPS { "span:astronomic" } else { "span:large" });
    }
    let neg_sig = "ack-negative-range-panics";
    let neg_msg = |hh: &str, file: &str, msg: &str| {
        format!("{hh}: {what}: {} -> panic in {file}: {msg} (RFC 9000 19.3.1: FRAME_ENCODING_ERROR)", runs.as_ref().err().cloned().unwrap_or_default())
    };

    // (0) the dispatcher only hands the frame to the congestion controller and to the received
    //     journal when `sent_journal.rotate().update_largest(&f)` accepts it (mirror of the repair
    //     "validate an ACK frame against the packets sent before walking its ranges")
    let prevalidated = matches!(
        risky(cx, "space.prevalidate_ack", bound, Some(0), &what, || w.sent.rotate().update_largest(&f).is_ok()),
        HObs::Done(true, _)
    );
    // (1) path.cc().on_ack_rcvd(epoch, &f)
    let e = epoch_of(c.epoch);
    match if prevalidated {
        risky(cx, "cc.on_ack_rcvd", bound, Some(predicted), &what, || w.cc.on_ack_rcvd(e, &f))
    } else {
        HObs::Skipped
    } {
        HObs::Done((), _) => {}
        HObs::Panic(file, msg) => {
            if negative && file.ends_with("frame/ack.rs") {
                cx.finding(neg_sig, neg_msg("cc.on_ack_rcvd", &file, &msg));
            } else {
                cx.fatal(format!("cc.on_ack_rcvd:panic@{file}"), format!("{what}: {msg}"));
            }
        }
        HObs::Skipped => {}
    }
    // (2) rcvd_journal.on_rcvd_ack(&f)
    match if prevalidated {
        risky(cx, "rcvd.on_rcvd_ack", bound, Some(predicted), &what, || w.rcvd.on_rcvd_ack(&f))
    } else {
        HObs::Skipped
    } {
        HObs::Done((), _) => {}
        HObs::Panic(file, msg) => {
            if negative && file.ends_with("frame/ack.rs") {
                cx.finding(neg_sig, neg_msg("rcvd.on_rcvd_ack", &file, &msg));
            } else {
                cx.fatal(format!("rcvd.on_rcvd_ack:panic@{file}"), format!("{what}: {msg}"));
            }
        }
        HObs::Skipped => {}
    }
    // (3) the ack pipe: Ack*Space::recv_frame
    // after update_largest succeeded the span is bounded by the numbers sent, unless the arithmetic wraps
    let pred3 = if unsent { None } else { Some(predicted) };
    let obs = risky(cx, "space.recv_ack", bound, pred3, &what, || w.space_recv_ack(&f));
    match obs {
        HObs::Done(Ok(fed), _) => {
            if negative {
                cx.fatal("ack-negative-range-accepted", format!("{what}: accepted ({})", runs.as_ref().err().unwrap()));
            } else if unsent {
                if largest == next {
                    cx.finding(
                        "ack-largest-eq-next-pn-accepted",
                        format!("{what}: largest acknowledged == next packet number to be sent, accepted (RFC 9000 13.1: PROTOCOL_VIOLATION)"),
                    );
                } else {
                    cx.fatal("ack-of-unsent-accepted", format!("{what}: accepted"));
                }
                cx.class("verdict:unsent-accepted");
            } else {
                cx.class("verdict:accepted");
                let rs = runs.as_ref().unwrap().clone();
                if let Err(e) = w.check_feedback(&fed, rs.iter().flat_map(|(hi, lo)| (*lo..=*hi).rev())) {
                    cx.fatal("ack-feedback-differs", format!("{what}: {e}"));
                }
            }
        }
        HObs::Done(Err(QError::Quic(qe)), _) => {
            let k = qe.kind();
            cx.class(format!("verdict:{}", kind_name(k)));
            let ok = (unsent && k == ErrorKind::ProtocolViolation) || (negative && k == ErrorKind::FrameEncoding);
            if !ok {
                if !unsent && !negative {
                    cx.fatal("ack-wrongly-refused", format!("{what}: refused with {qe:?}"));
                } else {
                    cx.fatal("ack-wrong-error", format!("{what}: {qe:?}"));
                }
            }
        }
        HObs::Done(Err(e), _) => cx.fatal("ack-wrong-error", format!("{what}: {e:?}")),
        HObs::Panic(file, msg) => {
            if negative && file.ends_with("frame/ack.rs") {
                cx.finding(neg_sig, neg_msg("Ack*Space::recv_frame", &file, &msg));
            } else {
                cx.fatal(format!("space.recv_ack:panic@{file}"), format!("{what}: {msg}"));
            }
        }
        HObs::Skipped => {}
    }
    // ---- behind the frame: the space still works (only when the frame was acceptable)
    if !cx.tainted && !negative && !unsent {
        let r = w.send(2, false).and_then(|_| {
            let n = w.tx.len() as u64;
            w.legit_ack(&[n - 1].into_iter().collect())
        });
        if let Err(e) = r {
            cx.fatal("ack-followup", format!("{what}: afterwards {e}"));
        }
    }
    if cx.tainted {
        std::mem::forget(w);
    }
}

fn aop() -> BoxedStrategy<AOp> {
    prop_oneof![
        5 => (0u8..=3, any::<bool>()).prop_map(|(frames, with_ack)| AOp::Send { frames, with_ack }),
        3 => (prop_oneof![4 => Just(1u8), 1 => 2u8..=4], any::<bool>()).prop_map(|(gap, ae)| AOp::Recv { gap, ae }),
        2 => (0u8..=3, 0u8..=6, proptest::collection::vec((0u8..=2, 0u8..=3), 0..=2))
            .prop_map(|(top, first, more)| AOp::PeerAck { top, first, more }),
        1 => (1u16..=20).prop_map(|ms| AOp::Advance { ms }),
    ]
    .boxed()
}

fn hack() -> BoxedStrategy<HAck> {
    (
        num_fit(),
        prop_oneof![3 => (0u64..100_000).prop_map(Num::Abs), 1 => gens::varint().prop_map(Num::Abs)],
        prop_oneof![3 => num_fit(), 2 => (0u64..4).prop_map(Num::Abs)],
        prop_oneof![
            3 => Just(vec![]),
            3 => proptest::collection::vec((num_fit(), num_fit()), 1..=3),
            1 => proptest::collection::vec(((0u64..3).prop_map(Num::Abs), (0u64..3).prop_map(Num::Abs)), 1..=4),
            1 => proptest::collection::vec((num_small(3), num_small(3)), 4..=64),
        ],
        proptest::option::weighted(0.2, (num_small(10), num_small(10), num_small(10))),
        proptest::option::weighted(0.05, num_small(5)),
    )
        .prop_map(|(largest, delay, first, ranges, ecn, count_extra)| HAck { largest, delay, first, ranges, ecn, count_extra })
        .boxed()
}

fn ack_case() -> BoxedStrategy<AckCase> {
    (0u8..=2, any::<bool>(), proptest::collection::vec(aop(), 0..=50), hack())
        .prop_map(|(epoch, server, ops, hostile)| AckCase { epoch, server, ops, hostile })
        .boxed()
}

fn run_ack(c: &AckCase, ctx: &mut CaseCtx) -> Outcome {
    run_in_child("ack", serde_json::to_value(c).unwrap(), ctx)
}


// ===========================================================================
// stage "pn": received-packet journal, then one packet with a hostile (truncated) number
// ===========================================================================

#[derive(Debug, Clone, Serialize, Deserialize, PartialEq)]
enum POp {
    Recv { gap: u8, ae: bool },
    /// one of our packets carries an ACK frame (gen_ack_frame_util)
    AckOut,
    /// the peer acknowledges every ACK carrier sent so far (on_rcvd_ack)
    PeerAckAll,
    Advance { ms: u16 },
}

#[derive(Debug, Clone, Serialize, Deserialize)]
struct PnCase {
    data_epoch: bool,
    ops: Vec<POp>,
    /// bytes of the truncated packet number (1..=4)
    width: u8,
    /// Rel(d) = expected + d, Half(d) = expected + half window + d
    trunc: Num,
    ae: bool,
    cap: u16,
}

fn rfc_decode_pn(trunc: u64, bits: u32, expected: u64) -> u64 {
    // RFC 9000 A.3
    let win = 1u64 << bits;
    let hwin = win / 2;
    let mask = win - 1;
    let candidate = (expected & !mask) | trunc;
    if candidate + hwin <= expected && candidate < (1u64 << 62) - win {
        candidate + win
    } else if candidate > expected + hwin && candidate >= win {
        candidate - win
    } else {
        candidate
    }
}

fn child_pn(cx: &mut Cx, c: PnCase) {
    let rt = rt();
    let _g = rt.enter();
    let j = ArcRcvdJournal::with_capacity(16, c.data_epoch.then(|| Duration::from_millis(25)));
    let pto = Duration::from_millis(100);
    let mut received: BTreeSet<u64> = BTreeSet::new();
    let mut largest: Option<u64> = None;
    let mut carrier = 0u64;
    let mut advanced = 0u64;
    for (i, op) in c.ops.iter().enumerate() {
        match op {
            POp::Recv { gap, ae } => {
                let pn = largest.map_or((*gap).max(1) as u64 - 1, |l| l + (*gap).max(1) as u64);
                let got = j.decode_pn(PacketNumber::U32(pn as u32));
                if got != Ok(pn) {
                    cx.fatal("pn-history", format!("op {i}: decode_pn({pn}) = {got:?}"));
                    return;
                }
                j.on_rcvd_pn(pn, *ae, pto);
                received.insert(pn);
                largest = Some(pn);
            }
            POp::AckOut => {
                if let Some(l) = largest {
                    let _ = j.gen_ack_frame_util(carrier, l, Instant::now(), 1200);
                    carrier += 1;
                }
            }
            POp::PeerAckAll => {
                if carrier > 0 {
                    let bytes = encode_ack(carrier - 1, 5, carrier - 1, &[], None, 0);
                    if let Ok(Frame::Ack(f)) = parse_one(&bytes, 2) {
                        j.on_rcvd_ack(&f);
                    }
                }
            }
            POp::Advance { ms } => {
                let ms = (*ms as u64).min(2_000u64.saturating_sub(advanced));
                advanced += ms;
                rt.block_on(tokio::time::advance(Duration::from_millis(ms)));
            }
        }
    }
    // ---- the hostile packet number
    let width = c.width.clamp(1, 4) as u32;
    let bits = 8 * width;
    let expected = largest.map_or(0, |l| l + 1);
    let hwin = 1u64 << (bits - 1);
    let full = c.trunc.res(expected as i128, expected as i128 + hwin as i128);
    let trunc = full & ((1u64 << bits) - 1);
    let enc = match width {
        1 => PacketNumber::U8(trunc as u8),
        2 => PacketNumber::U16(trunc as u16),
        3 => PacketNumber::U24(trunc as u32),
        _ => PacketNumber::U32(trunc as u32),
    };
    let want = rfc_decode_pn(trunc, bits, expected);
    let jump = want.saturating_sub(expected);
    let what = format!(
        "packet number {enc:?} (decodes to {want}) after {} packets received, largest {largest:?}, {carrier} ACKs sent",
        received.len()
    );
    let edge = want + 1 == expected || want == expected || jump + 1 >= hwin;
    if jump >= 1 << 30 || (edge && !received.is_empty()) {
        cx.nontrivial();
    }
    cx.class(format!("width{width}"));
    cx.class(match jump {
        0 => "jump:0",
        1..=15 => "jump:<16",
        16..=899 => "jump:<900",
        900..=65_535 => "jump:<2^16",
        65_536..=16_777_215 => "jump:<2^24",
        _ => "jump:>=2^24",
    });
    let got = j.decode_pn(enc);
    let pn = match got {
        Ok(pn) => {
            if pn != want {
                cx.fatal("decode-pn-differs", format!("{what}: decode_pn = {pn}"));
                return;
            }
            if received.contains(&pn) {
                cx.fatal("decode-pn-duplicate-accepted", format!("{what}: already received, decode_pn = Ok"));
                return;
            }
            cx.class("decode:ok");
            pn
        }
        Err(e) => {
            if want > largest.unwrap_or(0) || largest.is_none() {
                cx.fatal("decode-pn-new-refused", format!("{what}: decode_pn = {e:?}"));
            }
            cx.class(match e {
                InvalidPacketNumber::TooOld => "decode:too-old",
                InvalidPacketNumber::TooLarge => "decode:too-large",
                InvalidPacketNumber::Duplicate => "decode:duplicate",
            });
            return;
        }
    };
    let records = expected + carrier;
    let bound = (64 << 10) + 64 * (width as u64 + records);
    cx.reply.note = Some(json!({"packet": what, "records": records, "bound": bound}));
    let ae = c.ae;
    match risky2(cx, "rcvd.on_rcvd_pn", bound, Some(jump as u128), 64, &what, || j.on_rcvd_pn(pn, ae, pto)) {
        HObs::Done((), _) => {}
        HObs::Panic(file, msg) => {
            cx.fatal(format!("rcvd.on_rcvd_pn:panic@{file}"), format!("{what}: {msg}"));
            std::mem::forget(j);
            return;
        }
        HObs::Skipped => return,
    }
    received.insert(pn);
    let top = largest.map_or(pn, |l| l.max(pn));
    let cap = c.cap as usize;
    let records = top + 1 + carrier;
    let bound = (64 << 10) + 64 * (width as u64 + records);
    match risky(cx, "rcvd.gen_ack", bound, Some(top as u128), &what, || j.gen_ack_frame_util(carrier, top, Instant::now(), cap)) {
        HObs::Done(Ok(f), _) => {
            let rs: Vec<(u64, u64)> = f.ranges().iter().map(|(g, l)| (g.into_u64(), l.into_u64())).collect();
            match ack_runs(f.largest(), f.first_range(), &rs) {
                Err(e) => cx.fatal("gen-ack-invalid", format!("{what}: generated {f:?}: {e}")),
                Ok(runs) => {
                    if f.largest() != top {
                        cx.fatal("gen-ack-largest", format!("{what}: generated largest {} != {top}", f.largest()));
                    }
                    let listed: u64 = runs.iter().map(|(h, l)| h - l + 1).sum();
                    if listed <= 100_000 {
                        for (h, l) in &runs {
                            for p in *l..=*h {
                                if !received.contains(&p) {
                                    cx.fatal("gen-ack-lists-unreceived", format!("{what}: generated ACK lists {p}"));
                                    return;
                                }
                            }
                        }
                    }
                }
            }
        }
        HObs::Done(Err(_), _) => cx.class("gen-ack:no-room"),
        HObs::Panic(file, msg) => {
            cx.fatal(format!("rcvd.gen_ack:panic@{file}"), format!("{what}: {msg}"));
            std::mem::forget(j);
        }
        HObs::Skipped => {}
    }
}

fn pop() -> BoxedStrategy<POp> {
    prop_oneof![
        6 => (prop_oneof![5 => Just(1u8), 1 => 2u8..=4], any::<bool>()).prop_map(|(gap, ae)| POp::Recv { gap, ae }),
        2 => Just(POp::AckOut),
        2 => Just(POp::PeerAckAll),
        2 => (1u16..=400).prop_map(|ms| POp::Advance { ms }),
    ]
    .boxed()
}

fn pn_case() -> BoxedStrategy<PnCase> {
    (
        any::<bool>(),
        proptest::collection::vec(pop(), 0..=50),
        1u8..=4,
        prop_oneof![
            4 => (-3i8..=3).prop_map(Num::Rel),
            3 => (-3i8..=1).prop_map(Num::Half),
            3 => any::<u32>().prop_map(|x| Num::Abs(x as u64)),
            2 => (0u64..70_000).prop_map(Num::Abs),
            2 => (0u64..6).prop_map(Num::Abs),
            1 => (-40i8..=-4).prop_map(Num::Rel),
        ],
        any::<bool>(),
        prop_oneof![Just(1200u16), 0u16..=64],
    )
        .prop_map(|(data_epoch, ops, width, trunc, ae, cap)| PnCase { data_epoch, ops, width, trunc, ae, cap })
        .boxed()
}

fn run_pn(c: &PnCase, ctx: &mut CaseCtx) -> Outcome {
    run_in_child("pn", serde_json::to_value(c).unwrap(), ctx)
}


// ===========================================================================
// stage "cid": NEW_CONNECTION_ID against ArcRemoteCids, RETIRE_CONNECTION_ID against ArcLocalCids
// ===========================================================================

#[derive(Debug, Clone, Serialize, Deserialize, PartialEq)]
struct CidStep {
    /// the peer retires this many of its oldest IDs first (raises retire_prior_to)
    retire: u8,
    /// then issues up to this many new ones (never beyond our limit)
    issue: u8,
    /// bit i set = the i-th issued frame of this step is lost
    drop_mask: u8,
}

#[derive(Debug, Clone, Serialize, Deserialize, PartialEq)]
enum HCid {
    /// seq: Rel(d) = next in-order sequence + d, Half(d) = retire_prior_to + limit + d;
    /// rpt: Rel(d) = seq + d, Half(d) = seq - limit + d
    New { seq: Num, rpt: Num, cid_len: u8 },
    /// seq: Rel(d) = largest sequence we issued + d
    Retire { seq: Num },
    /// the peer's active_connection_id_limit transport parameter handed to ArcLocalCids::set_limit
    /// (not a frame, but a peer-chosen 62-bit number on the same code path); Rel(d) = 2 + d
    PeerLimit { v: Num },
}

#[derive(Debug, Clone, Serialize, Deserialize)]
struct CidCase {
    limit: u8,
    paths: u8,
    hist: Vec<CidStep>,
    /// local side: sequence selectors (mapped onto the active ones) retired legitimately before
    local_retires: Vec<u16>,
    hostile: HCid,
}

#[derive(Clone, Default)]
struct RetireSink(Arc<Mutex<Vec<u64>>>);

impl SendFrame<RetireConnectionIdFrame> for RetireSink {
    fn send_frame<I: IntoIterator<Item = RetireConnectionIdFrame>>(&self, iter: I) {
        self.0.lock().unwrap().extend(iter.into_iter().map(|f| f.sequence()));
    }
}

#[derive(Clone, Default)]
struct IssueSink {
    frames: Arc<Mutex<Vec<(u64, u64, ConnectionId)>>>,
    retired: Arc<Mutex<Vec<ConnectionId>>>,
    ctr: Arc<AtomicU64>,
}

impl GenUniqueCid for IssueSink {
    fn gen_unique_cid(&self) -> ConnectionId {
        let n = self.ctr.fetch_add(1, Ordering::SeqCst) + 1;
        ConnectionId::from_slice(&n.to_be_bytes())
    }
}

impl RetireCid for IssueSink {
    fn retire_cid(&self, cid: ConnectionId) {
        self.retired.lock().unwrap().push(cid);
    }
}

impl SendFrame<NewConnectionIdFrame> for IssueSink {
    fn send_frame<I: IntoIterator<Item = NewConnectionIdFrame>>(&self, iter: I) {
        self.frames
            .lock()
            .unwrap()
            .extend(iter.into_iter().map(|f| (f.sequence(), f.retire_prior_to(), *f.connection_id())));
    }
}

fn encode_new_cid(seq: u64, rpt: u64, cid_len: u8, fill: u8) -> Vec<u8> {
    let mut b = vec![];
    put_vi(&mut b, 0x18);
    put_vi(&mut b, seq);
    put_vi(&mut b, rpt);
    b.push(cid_len);
    b.extend(std::iter::repeat_n(fill, cid_len as usize));
    b.extend_from_slice(&[fill ^ 0x5a; 16]);
    b
}

fn child_cid(cx: &mut Cx, c: CidCase) {
    match c.hostile.clone() {
        HCid::New { seq, rpt, cid_len } => child_new_cid(cx, &c, seq, rpt, cid_len),
        HCid::Retire { seq } => child_retire_cid(cx, &c, seq),
        HCid::PeerLimit { v } => child_peer_limit(cx, v),
    }
}

fn child_peer_limit(cx: &mut Cx, v: Num) {
    let sink = IssueSink::default();
    let local = ArcLocalCids::new(ConnectionId::from_slice(&[0xaa; 8]), sink.clone());
    let limit = v.res(2, 1 << 31);
    let what = format!("peer transport parameter active_connection_id_limit = {limit} -> ArcLocalCids::set_limit");
    if limit >= 1 << 31 {
        cx.class("field>=2^31");
        cx.nontrivial();
    }
    if limit == 1 {
        cx.class("bound+1");
        cx.nontrivial();
    }
    let bound = (64 << 10) + 64 * (9 + 2);
    cx.reply.note = Some(json!({"frame": what, "bound": bound}));
    match risky2(cx, "local.set_limit", bound, Some(limit.saturating_sub(2) as u128), 8, &what, || local.set_limit(limit)) {
        HObs::Done(Ok(()), _) => {
            cx.class("verdict:accepted");
            if limit < 2 {
                cx.fatal("cid-limit-below-2-accepted", format!("{what}: accepted"));
            }
        }
        HObs::Done(Err(QError::Quic(e)), _) => {
            cx.class(format!("verdict:{}", kind_name(e.kind())));
            if limit >= 2 || e.kind() != ErrorKind::TransportParameter {
                cx.fatal("cid-limit-wrong-verdict", format!("{what}: {e:?}"));
            }
        }
        HObs::Done(Err(e), _) => cx.fatal("cid-limit-wrong-verdict", format!("{what}: {e:?}")),
        HObs::Panic(file, msg) => {
            cx.fatal(format!("local.set_limit:panic@{file}"), format!("{what}: {msg}"));
            std::mem::forget(local);
        }
        HObs::Skipped => std::mem::forget(local),
    }
}

fn child_new_cid(cx: &mut Cx, c: &CidCase, seq: Num, rpt: Num, cid_len: u8) {
    let limit = c.limit.clamp(2, 8) as u64;
    let sink = RetireSink::default();
    let remote = ArcRemoteCids::new(limit, sink.clone());
    let cells: Vec<ArcCidCell<RetireSink>> = (0..c.paths.clamp(1, 3)).map(|_| remote.apply_dcid()).collect();
    remote.apply_initial_dcid(ConnectionId::from_slice(&[0xee; 8]), &cells[0]);
    // model of what we hold
    let mut known: BTreeSet<u64> = [0].into_iter().collect();
    let mut cur_rpt = 0u64;
    let mut top = 0u64; // largest sequence number seen
    // the peer
    let mut p_next = 1u64;
    let mut p_rpt = 0u64;
    for (i, st) in c.hist.iter().enumerate() {
        p_rpt = (p_rpt + st.retire as u64).min(p_next - 1);
        for k in 0..st.issue.min(4) {
            if p_next - p_rpt >= limit {
                break;
            }
            let s = p_next;
            p_next += 1;
            if st.drop_mask >> k & 1 == 1 {
                continue;
            }
            let bytes = encode_new_cid(s, p_rpt, 8, s as u8);
            let f = match parse_one(&bytes, 2) {
                Ok(Frame::NewConnectionId(f)) => f,
                other => {
                    cx.fatal("cid-history", format!("step {i}: legit NEW_CONNECTION_ID({s},{p_rpt}) does not parse: {other:?}"));
                    return;
                }
            };
            if let Err(e) = remote.recv_frame(f) {
                cx.fatal("cid-history", format!("step {i}: legit NEW_CONNECTION_ID({s},{p_rpt}) with limit {limit} refused: {e:?}"));
                return;
            }
            cur_rpt = cur_rpt.max(p_rpt);
            known.insert(s);
            known.retain(|x| *x >= cur_rpt);
            top = top.max(s);
        }
    }
    // ---- hostile frame
    let seq_v = seq.res(top as i128 + 1, cur_rpt as i128 + limit as i128);
    let rpt_v = rpt.res(seq_v as i128, seq_v as i128 - limit as i128);
    let bytes = encode_new_cid(seq_v, rpt_v, cid_len, 0x77);
    let what = format!(
        "NEW_CONNECTION_ID{{seq {seq_v}, retire_prior_to {rpt_v}, cid length {cid_len}}} with active_connection_id_limit {limit}, holding {known:?} (retire_prior_to {cur_rpt}, largest seen {top})"
    );
    let records = known.len() as u64 + cells.len() as u64 + (top + 1 - cur_rpt.min(top + 1)) + 4;
    let bound = (64 << 10) + 64 * (bytes.len() as u64 + records);
    cx.reply.note = Some(json!({"frame": what, "records": records, "bound": bound}));
    let new_rpt = cur_rpt.max(rpt_v);
    let mut after: BTreeSet<u64> = known.clone();
    after.insert(seq_v);
    after.retain(|x| *x >= new_rpt);
    let syntactically_bad = rpt_v > seq_v || cid_len == 0 || cid_len > 20;
    let over = after.len() as u64 > limit;
    if seq_v >= 1 << 31 || rpt_v >= 1 << 31 {
        cx.class("field>=2^31");
        cx.nontrivial();
    }
    if after.len() as u64 == limit + 1 || rpt_v == seq_v + 1 || cid_len == 21 || cid_len == 0 {
        cx.class("bound+1");
        cx.nontrivial();
    }
    let parsed = match risky(cx, "frame.decode", bound, None, &what, || parse_one(&bytes, 2)) {
        HObs::Done(r, _) => r,
        HObs::Panic(file, msg) => {
            cx.fatal(format!("decode-panic@{file}"), format!("{what}: {msg}"));
            return;
        }
        HObs::Skipped => return,
    };
    let f = match parsed {
        Ok(Frame::NewConnectionId(f)) => {
            if syntactically_bad {
                cx.fatal("newcid-invalid-accepted-by-decoder", format!("{what}: parsed"));
                return;
            }
            f
        }
        Ok(o) => {
            cx.fatal("harness", format!("{what}: parsed as {o:?}"));
            return;
        }
        Err(e) => {
            if syntactically_bad && e.kind() == ErrorKind::FrameEncoding {
                cx.class("verdict:decode-refused");
            } else {
                cx.fatal("newcid-decode-refused", format!("{what}: {e:?}"));
            }
            return;
        }
    };
    cx.class(if over { "model:over-limit" } else { "model:acceptable" });
    let gap = seq_v.saturating_sub(top + 1);
    let r = risky2(cx, "remote.new_cid", bound, Some(gap as u128), 48, &what, || remote.recv_frame(f));
    match r {
        HObs::Done(Ok(_), _) => {
            if over {
                if after.len() as u64 == limit + 1 {
                    cx.finding(
                        "newcid-limit-plus-one-accepted",
                        format!("{what}: accepted although {} IDs are active afterwards ({after:?}) (RFC 9000 5.1.1: CONNECTION_ID_LIMIT_ERROR)", after.len()),
                    );
                } else {
                    cx.fatal("newcid-over-limit-accepted", format!("{what}: accepted, active afterwards {after:?}"));
                }
            }
            cx.class("verdict:accepted");
            if seq_v >= cur_rpt {
                top = top.max(seq_v);
            }
            known = after;
            cur_rpt = new_rpt;
        }
        HObs::Done(Err(QError::Quic(e)), _) => {
            cx.class(format!("verdict:{}", kind_name(e.kind())));
            if e.kind() != ErrorKind::ConnectionIdLimit {
                cx.fatal("newcid-wrong-error", format!("{what}: {e:?}"));
            } else if !over {
                // the implementation bounds seq - retire_prior_to, which over-approximates the
                // number of active IDs when sequence numbers are missing: stricter than the RFC
                cx.class("over-strict");
            }
            return;
        }
        HObs::Done(Err(e), _) => {
            cx.fatal("newcid-wrong-error", format!("{what}: {e:?}"));
            return;
        }
        HObs::Panic(file, msg) => {
            cx.fatal(format!("remote.new_cid:panic@{file}"), format!("{what}: {msg}"));
            std::mem::forget((remote, cells));
            return;
        }
        HObs::Skipped => return,
    }
    // ---- behind it: the next in-order ID of a correct peer is still accepted
    let s = top + 1;
    // behind the known off-by-one (limit+1 active) the peer adds one more without retiring any;
    // otherwise a correct peer retires enough to stay within the limit
    let r2 = if known.len() as u64 > limit { cur_rpt } else { s.saturating_sub(limit - 1).max(cur_rpt) };
    let bytes = encode_new_cid(s, r2, 8, 0x11);
    if let Ok(Frame::NewConnectionId(f)) = parse_one(&bytes, 2) {
        let mut aft = known.clone();
        aft.insert(s);
        aft.retain(|x| *x >= r2);
        if aft.len() as u64 <= limit {
            if let Err(e) = remote.recv_frame(f) {
                cx.fatal("newcid-followup-refused", format!("{what}: afterwards NEW_CONNECTION_ID({s},{r2}) refused: {e:?}"));
            }
        } else if aft.len() as u64 >= limit + 2 {
            // (only reachable behind the known off-by-one) two IDs over the limit must be refused
            match remote.recv_frame(f) {
                Ok(_) => cx.fatal(
                    "newcid-over-limit-accepted",
                    format!("{what}: afterwards NEW_CONNECTION_ID({s},{r2}) accepted, {} IDs active with limit {limit}", aft.len()),
                ),
                Err(QError::Quic(e)) if e.kind() == ErrorKind::ConnectionIdLimit => cx.class("followup:over-limit-refused"),
                Err(e) => cx.fatal("newcid-wrong-error", format!("{what}: afterwards NEW_CONNECTION_ID({s},{r2}): {e:?}")),
            }
        }
    }
    let _ = sink;
}

fn child_retire_cid(cx: &mut Cx, c: &CidCase, seq: Num) {
    let limit = c.limit.clamp(2, 8) as u64;
    let sink = IssueSink::default();
    let local = ArcLocalCids::new(ConnectionId::from_slice(&[0xaa; 8]), sink.clone());
    if let Err(e) = local.set_limit(limit) {
        cx.fatal("cid-history", format!("set_limit({limit}): {e:?}"));
        return;
    }
    let mut next = sink.frames.lock().unwrap().iter().map(|f| f.0).max().unwrap_or(0) + 1;
    let mut active: BTreeSet<u64> = (0..next).collect();
    if next != limit {
        cx.fatal("cid-issue-count", format!("after set_limit({limit}) sequence numbers 0..{next} are issued"));
        return;
    }
    let retire = |s: u64| -> Result<(), QError> {
        let mut b = vec![];
        put_vi(&mut b, 0x19);
        put_vi(&mut b, s);
        match parse_one(&b, 2) {
            Ok(Frame::RetireConnectionId(f)) => local.recv_frame(f),
            Ok(o) => panic!("harness: RETIRE_CONNECTION_ID parsed as {o:?}"),
            Err(e) => Err(QError::Quic(e)),
        }
    };
    for sel in &c.local_retires {
        let v: Vec<u64> = active.iter().copied().collect();
        let s = v[gens::idx(*sel, v.len())];
        if let Err(e) = retire(s) {
            cx.fatal("cid-history", format!("legit RETIRE_CONNECTION_ID({s}) refused: {e:?}"));
            return;
        }
        active.remove(&s);
        active.insert(next);
        next += 1;
    }
    let seq_v = seq.res(next as i128 - 1, 1 << 31);
    let what = format!("RETIRE_CONNECTION_ID{{seq {seq_v}}} with sequence numbers 0..{next} issued, active {active:?}");
    let records = next + 4;
    let bound = (64 << 10) + 64 * (9 + records);
    cx.reply.note = Some(json!({"frame": what, "bound": bound}));
    if seq_v >= 1 << 31 {
        cx.class("field>=2^31");
        cx.nontrivial();
    }
    if seq_v == next {
        cx.class("bound+1");
        cx.nontrivial();
    }
    let frames_before = sink.frames.lock().unwrap().len();
    let retired_before = sink.retired.lock().unwrap().len();
    match risky(cx, "local.retire_cid", bound, None, &what, || retire(seq_v)) {
        HObs::Done(Ok(()), _) => {
            cx.class("verdict:accepted");
            if seq_v >= next {
                cx.fatal("retirecid-unissued-accepted", format!("{what}: accepted"));
                return;
            }
            let new_frames: Vec<_> = sink.frames.lock().unwrap()[frames_before..].to_vec();
            let new_retired = sink.retired.lock().unwrap().len() - retired_before;
            if active.contains(&seq_v) {
                if new_frames.len() != 1 || new_frames[0].0 != next || new_retired != 1 {
                    cx.fatal("retirecid-state", format!("{what}: issued {new_frames:?}, {new_retired} IDs unrouted; model: one new ID with sequence {next}, one unrouted"));
                }
            } else if !new_frames.is_empty() || new_retired != 0 {
                cx.fatal("retirecid-state", format!("{what}: already retired, yet issued {new_frames:?}, {new_retired} unrouted"));
            }
        }
        HObs::Done(Err(QError::Quic(e)), _) => {
            cx.class(format!("verdict:{}", kind_name(e.kind())));
            if seq_v < next {
                cx.fatal("retirecid-wrongly-refused", format!("{what}: {e:?}"));
            }
        }
        HObs::Done(Err(e), _) => cx.fatal("retirecid-wrong-error", format!("{what}: {e:?}")),
        HObs::Panic(file, msg) => {
            cx.fatal(format!("local.retire_cid:panic@{file}"), format!("{what}: {msg}"));
            std::mem::forget(local);
        }
        HObs::Skipped => {}
    }
}

fn cid_case() -> BoxedStrategy<CidCase> {
    let step = (0u8..=2, 0u8..=3, 0u8..16).prop_map(|(retire, issue, m)| CidStep { retire, issue, drop_mask: if m < 12 { 0 } else { m & 7 } });
    let hostile = prop_oneof![
        4 => (
            prop_oneof![5 => (-2i8..=3).prop_map(Num::Rel), 3 => (-2i8..=2).prop_map(Num::Half), 3 => gens::varint().prop_map(Num::Abs)],
            prop_oneof![4 => (-3i8..=1).prop_map(Num::Rel), 4 => (-2i8..=2).prop_map(Num::Half), 2 => gens::varint().prop_map(Num::Abs), 2 => (0u64..4).prop_map(Num::Abs)],
            prop_oneof![10 => Just(8u8), 2 => 1u8..=20, 1 => Just(0u8), 1 => Just(21u8), 1 => any::<u8>()],
        )
            .prop_map(|(seq, rpt, cid_len)| HCid::New { seq, rpt, cid_len }),
        1 => prop_oneof![5 => (-3i8..=2).prop_map(Num::Rel), 2 => gens::varint().prop_map(Num::Abs)].prop_map(|seq| HCid::Retire { seq }),
        1 => prop_oneof![3 => (-2i8..=6).prop_map(Num::Rel), 2 => gens::varint().prop_map(Num::Abs)].prop_map(|v| HCid::PeerLimit { v }),
    ];
    (2u8..=8, 1u8..=3, proptest::collection::vec(step, 0..=12), proptest::collection::vec(any::<u16>(), 0..=6), hostile)
        .prop_map(|(limit, paths, hist, local_retires, hostile)| CidCase { limit, paths, hist, local_retires, hostile })
        .boxed()
}

fn run_cid(c: &CidCase, ctx: &mut CaseCtx) -> Outcome {
    run_in_child("cid", serde_json::to_value(c).unwrap(), ctx)
}


// ===========================================================================
// stage "streams": DataStreams + FlowController (+ crypto stream) behind the glue of
// `FlowControlledDataStreams` (qconnection/src/space.rs), hostile stream-related frames
// ===========================================================================

#[derive(Debug, Clone, Serialize, Deserialize, PartialEq)]
struct Limits {
    max_bi: u8,
    max_uni: u8,
    win_bi_local: u32,
    win_bi_remote: u32,
    win_uni: u32,
    max_data: u32,
}

#[derive(Debug, Clone, Serialize, Deserialize, PartialEq)]
enum SOp {
    /// the peer sends in-order data: on a new stream of its own (`new`) or on a receivable one picked by `sel`
    /// `ahead` > 0: the segment starts that many bytes beyond the in-order position (an earlier
    /// segment is still on its way)
    Data { new: bool, uni: bool, sel: u8, len: u16, fin: bool, ahead: u8 },
    /// the peer resets a receivable stream at the size sent so far
    Reset { sel: u8 },
    /// we open a stream (client role only)
    OpenLocal { uni: bool },
}

/// idx: peer-initiated: Rel(d) = advertised limit - 1 + d (Rel(1): index == limit), Half(d) = next unused index + d;
/// locally initiated: Rel(d) = last opened index + d (Rel(1): not yet opened), Half(d) = 0 + d
#[derive(Debug, Clone, Serialize, Deserialize, PartialEq)]
struct SidSel {
    peer: bool,
    uni: bool,
    idx: Num,
}

#[derive(Debug, Clone, Serialize, Deserialize, PartialEq)]
enum HS {
    /// off: Rel(d) = stream window - len + d, Half(d) = highest offset received + d
    Stream { sid: SidSel, off: Num, len: u16, fin: bool },
    /// final_size: Rel(d) = highest offset received + d, Half(d) = stream window + d
    Reset { sid: SidSel, err: Num, final_size: Num },
    Stop { sid: SidSel, err: Num },
    MaxStreamData { sid: SidSel, v: Num },
    StreamDataBlocked { sid: SidSel, v: Num },
    /// v: Rel(d) = 2^60 + d, Half(d) = current limit + d
    MaxStreams { uni: bool, v: Num },
    StreamsBlocked { uni: bool, v: Num },
    MaxData { v: Num },
    DataBlocked { v: Num },
    Crypto { off: Num, len: u16 },
}

#[derive(Debug, Clone, Serialize, Deserialize)]
struct StreamsCase {
    server: bool,
    demand: bool,
    lim: Limits,
    /// what the peer grants us (only matters for the streams we open)
    peer: Limits,
    hist: Vec<SOp>,
    hostile: Vec<HS>,
}

#[derive(Debug, Clone)]
enum SinkF {
    Ctl(StreamCtlFrame),
    MaxData(u64),
    #[allow(dead_code)]
    DataBlocked(u64),
}

#[derive(Clone, Default, Debug)]
struct CtlSink(Arc<Mutex<Vec<SinkF>>>);

impl SendFrame<StreamCtlFrame> for CtlSink {
    fn send_frame<I: IntoIterator<Item = StreamCtlFrame>>(&self, iter: I) {
        self.0.lock().unwrap().extend(iter.into_iter().map(SinkF::Ctl));
    }
}
impl SendFrame<MaxDataFrame> for CtlSink {
    fn send_frame<I: IntoIterator<Item = MaxDataFrame>>(&self, iter: I) {
        self.0.lock().unwrap().extend(iter.into_iter().map(|f| SinkF::MaxData(f.max_data())));
    }
}
impl SendFrame<DataBlockedFrame> for CtlSink {
    fn send_frame<I: IntoIterator<Item = DataBlockedFrame>>(&self, iter: I) {
        self.0.lock().unwrap().extend(iter.into_iter().map(|f| SinkF::DataBlocked(f.limit())));
    }
}

#[derive(Debug, Clone, Default)]
struct RS {
    window: u64,
    largest: u64,
    contig: u64,
    fin: Option<u64>,
    /// one segment received beyond a hole
    tail: Option<(u64, u64)>,
    /// the receiving part is finished (all data received, or reset): later frames are ignored
    done: bool,
    /// data with holes arrived: `done` can no longer be predicted
    fuzzy: bool,
}

struct SWorld {
    client: bool,
    streams: DataStreams<CtlSink>,
    flow: FlowController<CtlSink>,
    crypto: CryptoStream,
    sink: CtlSink,
    seen: usize,
    params: Option<ArcParameters>,
    keep: Vec<Box<dyn std::any::Any>>,
    lim: Limits,
    // model
    max: [u64; 2],
    unalloc: [u64; 2],
    opened: [u64; 2],
    local_max: [u64; 2],
    recv: BTreeMap<u64, RS>,
    conn_rcvd: u64,
    conn_max: u64,
    send_max: u64,
    handed_over: bool,
    /// the endpoint lowered a stream limit it had advertised
    lowered: [bool; 2],
}

const P60: u64 = 1 << 60;

fn sid_of(server_initiated: bool, uni: bool, idx: u64) -> u64 {
    (idx << 2) | ((uni as u64) << 1) | server_initiated as u64
}

fn noop_cx<R>(f: impl FnOnce(&mut std::task::Context<'_>) -> R) -> R {
    let waker = futures::task::noop_waker();
    let mut cx = std::task::Context::from_waker(&waker);
    f(&mut cx)
}

/// a frame with every field resolved
#[derive(Debug, Clone)]
enum RF {
    Stream { sid: u64, off: u64, len: usize, fin: bool },
    Reset { sid: u64, err: u64, fs: u64 },
    Stop { sid: u64, err: u64 },
    MaxStreamData { sid: u64, v: u64 },
    StreamDataBlocked { sid: u64, v: u64 },
    MaxStreams { uni: bool, v: u64 },
    StreamsBlocked { uni: bool, v: u64 },
    MaxData { v: u64 },
    DataBlocked { v: u64 },
    Crypto { off: u64, len: usize },
}

impl RF {
    fn name(&self) -> &'static str {
        match self {
            RF::Stream { fin: true, .. } => "STREAM+FIN",
            RF::Stream { .. } => "STREAM",
            RF::Reset { .. } => "RESET_STREAM",
            RF::Stop { .. } => "STOP_SENDING",
            RF::MaxStreamData { .. } => "MAX_STREAM_DATA",
            RF::StreamDataBlocked { .. } => "STREAM_DATA_BLOCKED",
            RF::MaxStreams { .. } => "MAX_STREAMS",
            RF::StreamsBlocked { .. } => "STREAMS_BLOCKED",
            RF::MaxData { .. } => "MAX_DATA",
            RF::DataBlocked { .. } => "DATA_BLOCKED",
            RF::Crypto { .. } => "CRYPTO",
        }
    }

    fn encode(&self) -> Vec<u8> {
        let mut b = vec![];
        match self {
            RF::Stream { sid, off, len, fin } => {
                // always with explicit offset (when non-zero) and length
                let ty = 0x08 | 0x02 | if *off != 0 { 0x04 } else { 0 } | *fin as u64;
                put_vi(&mut b, ty);
                put_vi(&mut b, *sid);
                if *off != 0 {
                    put_vi(&mut b, *off);
                }
                put_vi(&mut b, *len as u64);
                b.extend((0..*len).map(|i| gens::content_byte(*sid, *off + i as u64)));
            }
            RF::Reset { sid, err, fs } => {
                put_vi(&mut b, 0x04);
                put_vi(&mut b, *sid);
                put_vi(&mut b, *err);
                put_vi(&mut b, *fs);
            }
            RF::Stop { sid, err } => {
                put_vi(&mut b, 0x05);
                put_vi(&mut b, *sid);
                put_vi(&mut b, *err);
            }
            RF::MaxStreamData { sid, v } => {
                put_vi(&mut b, 0x11);
                put_vi(&mut b, *sid);
                put_vi(&mut b, *v);
            }
            RF::StreamDataBlocked { sid, v } => {
                put_vi(&mut b, 0x15);
                put_vi(&mut b, *sid);
                put_vi(&mut b, *v);
            }
            RF::MaxStreams { uni, v } => {
                put_vi(&mut b, 0x12 + *uni as u64);
                put_vi(&mut b, *v);
            }
            RF::StreamsBlocked { uni, v } => {
                put_vi(&mut b, 0x16 + *uni as u64);
                put_vi(&mut b, *v);
            }
            RF::MaxData { v } => {
                put_vi(&mut b, 0x10);
                put_vi(&mut b, *v);
            }
            RF::DataBlocked { v } => {
                put_vi(&mut b, 0x14);
                put_vi(&mut b, *v);
            }
            RF::Crypto { off, len } => {
                put_vi(&mut b, 0x06);
                put_vi(&mut b, *off);
                put_vi(&mut b, *len as u64);
                b.extend((0..*len).map(|i| gens::content_byte(77, *off + i as u64)));
            }
        }
        b
    }
}

/// what the reference model says about one frame
#[derive(Default, Debug)]
struct Judge {
    /// (reason, error the RFC prescribes); empty = the frame is acceptable
    reasons: Vec<(&'static str, ErrorKind)>,
    /// nothing is asserted about the verdict (closed stream, state no longer predictable)
    no_expectation: bool,
    /// the decoder must refuse the frame
    decode: bool,
    by_one: bool,
    /// streams this frame makes the endpoint create (legitimately, within the advertised limit)
    creates: u64,
}

impl SWorld {
    fn new(c: &StreamsCase) -> Result<Self, String> {
        let sink = CtlSink::default();
        let mut ours_c = ClientParameters::new();
        let mut ours_s = ServerParameters::new();
        let mut peer_c = ClientParameters::new();
        let mut peer_s = ServerParameters::new();
        macro_rules! setp {
            ($p:expr, $l:expr) => {{
                let l: &Limits = $l;
                for (id, v) in [
                    (ParameterId::InitialMaxStreamsBidi, l.max_bi as u32),
                    (ParameterId::InitialMaxStreamsUni, l.max_uni as u32),
                    (ParameterId::InitialMaxStreamDataBidiLocal, l.win_bi_local),
                    (ParameterId::InitialMaxStreamDataBidiRemote, l.win_bi_remote),
                    (ParameterId::InitialMaxStreamDataUni, l.win_uni),
                    (ParameterId::InitialMaxData, l.max_data),
                ] {
                    $p.set(id, v).map_err(|e| format!("set {id:?}: {e:?}"))?;
                }
            }};
        }
        let ctrl: Box<dyn qbase::sid::ControlStreamsConcurrency> = if c.demand {
            Box::new(DemandConcurrency)
        } else {
            Box::new(ConsistentConcurrency::new(c.lim.max_bi as u64, c.lim.max_uni as u64))
        };
        let client = !c.server;
        let (streams, flow, params) = if client {
            setp!(ours_c, &c.lim);
            setp!(peer_s, &c.peer);
            let streams = DataStreams::new(Role::Client, &ours_c, &peer_s, ctrl, sink.clone(), Default::default(), None);
            let flow = FlowController::new(c.peer.max_data as u64, c.lim.max_data as u64, sink.clone(), Default::default());
            let params: ArcParameters =
                Parameters::new_client(ours_c.clone(), Some(peer_s.clone()), ConnectionId::from_slice(&[1, 2, 3, 4, 5, 6, 7, 8])).into();
            streams.revise_params(false, &peer_s);
            (streams, flow, Some(params))
        } else {
            setp!(ours_s, &c.lim);
            setp!(peer_c, &c.peer);
            let streams =
                DataStreams::new(Role::Server, &ours_s, &ClientParameters::default(), ctrl, sink.clone(), Default::default(), None);
            let flow = FlowController::new(0, c.lim.max_data as u64, sink.clone(), Default::default());
            streams.revise_params(false, &peer_c);
            flow.sender.revise_max_data(false, c.peer.max_data as u64);
            (streams, flow, None)
        };
        Ok(SWorld {
            client,
            streams,
            flow,
            crypto: CryptoStream::new(Default::default()),
            sink,
            seen: 0,
            params,
            keep: vec![],
            lim: c.lim.clone(),
            max: [c.lim.max_bi as u64, c.lim.max_uni as u64],
            unalloc: [0, 0],
            opened: [0, 0],
            local_max: [c.peer.max_bi as u64, c.peer.max_uni as u64],
            recv: BTreeMap::new(),
            conn_rcvd: 0,
            conn_max: c.lim.max_data as u64,
            send_max: c.peer.max_data as u64,
            handed_over: false,
            lowered: [false; 2],
        })
    }

    fn peer_bit(&self) -> bool {
        // role bit of streams the PEER initiates (server-initiated = 1)
        self.client
    }

    /// fold what we advertised since the last call into the model; returns invalid emissions
    fn absorb_sink(&mut self) -> Vec<String> {
        let mut bad = vec![];
        let v = self.sink.0.lock().unwrap();
        for f in &v[self.seen..] {
            match f {
                SinkF::MaxData(m) => self.conn_max = self.conn_max.max(*m),
                SinkF::Ctl(StreamCtlFrame::MaxStreams(ms)) => {
                    let (d, val) = match ms {
                        qbase::frame::MaxStreamsFrame::Bi(v) => (0, v.into_u64()),
                        qbase::frame::MaxStreamsFrame::Uni(v) => (1, v.into_u64()),
                    };
                    if val > P60 {
                        bad.push(format!("MAX_STREAMS({val}) emitted"));
                    }
                    if val > self.max[d] + 1 {
                        self.handed_over = true;
                    }
                    if val < self.max[d] {
                        self.lowered[d] = true;
                        bad.push(format!("MAX_STREAMS({val}) emitted below the limit {} advertised before", self.max[d]));
                        // reported by the caller; from here on the model follows the limit really enforced
                        self.max[d] = val;
                    }
                    self.max[d] = self.max[d].max(val);
                }
                _ => {}
            }
        }
        self.seen = v.len();
        bad
    }

    fn records(&self) -> u64 {
        self.recv.len() as u64 + self.opened[0] + self.opened[1] + 8
    }

    fn window_for(&self, sid: u64) -> u64 {
        let uni = sid & 2 != 0;
        let peer_init = (sid & 1 == 1) == self.peer_bit();
        (if uni {
            self.lim.win_uni
        } else if peer_init {
            self.lim.win_bi_remote
        } else {
            self.lim.win_bi_local
        }) as u64
    }

    /// model: streams `sid` refers to come into existence (all lower ones of that kind first)
    fn model_accept_peer_sid(&mut self, sid: u64) {
        let d = (sid >> 1 & 1) as usize;
        let idx = sid >> 2;
        while self.unalloc[d] <= idx {
            let s = sid_of(self.peer_bit(), d == 1, self.unalloc[d]);
            let w = self.window_for(s);
            self.recv.insert(s, RS { window: w, ..Default::default() });
            self.unalloc[d] += 1;
        }
    }

    fn resolve_sid(&self, s: &SidSel) -> u64 {
        let d = s.uni as usize;
        let idx = if s.peer {
            s.idx.res(self.max[d] as i128 - 1, self.unalloc[d] as i128)
        } else {
            s.idx.res(self.opened[d] as i128 - 1, 0)
        }
        .min(P60 - 1);
        sid_of(if s.peer { self.peer_bit() } else { !self.peer_bit() }, s.uni, idx)
    }

    fn resolve(&self, h: &HS) -> RF {
        match h {
            HS::Stream { sid, off, len, fin } => {
                let sid = self.resolve_sid(sid);
                let len = (*len as usize).min(1200);
                let (w, l) = self.recv.get(&sid).map_or((self.window_for(sid), 0), |r| (r.window, r.largest));
                let off = off.res(w as i128 - len as i128, l as i128).min(VMAX - len as u64);
                RF::Stream { sid, off, len, fin: *fin }
            }
            HS::Reset { sid, err, final_size } => {
                let sid = self.resolve_sid(sid);
                let (w, l) = self.recv.get(&sid).map_or((self.window_for(sid), 0), |r| (r.window, r.largest));
                RF::Reset { sid, err: err.res(0, 1 << 31), fs: final_size.res(l as i128, w as i128) }
            }
            HS::Stop { sid, err } => RF::Stop { sid: self.resolve_sid(sid), err: err.res(0, 1 << 31) },
            HS::MaxStreamData { sid, v } => RF::MaxStreamData { sid: self.resolve_sid(sid), v: v.res(1000, 1 << 31) },
            HS::StreamDataBlocked { sid, v } => RF::StreamDataBlocked { sid: self.resolve_sid(sid), v: v.res(1000, 1 << 31) },
            HS::MaxStreams { uni, v } => RF::MaxStreams { uni: *uni, v: v.res(P60 as i128, self.local_max[*uni as usize] as i128) },
            HS::StreamsBlocked { uni, v } => RF::StreamsBlocked { uni: *uni, v: v.res(P60 as i128, self.max[*uni as usize] as i128) },
            HS::MaxData { v } => RF::MaxData { v: v.res(self.send_max as i128, 1 << 31) },
            HS::DataBlocked { v } => RF::DataBlocked { v: v.res(self.conn_max as i128, 1 << 31) },
            HS::Crypto { off, len } => {
                let len = (*len as usize).min(1200);
                RF::Crypto { off: off.res(0, 1 << 31).min(VMAX - len as u64), len }
            }
        }
    }

    /// verdict of RFC 9000 for this frame in the model state (no state change)
    fn judge(&self, f: &RF) -> Judge {
        let mut j = Judge::default();
        // who may send which frame about which stream
        let sid_checks = |j: &mut Judge, sid: u64, sender_side: bool, unopened_rule: bool| -> bool {
            // sender_side: the frame is sent by the SENDING part of the stream (STREAM, RESET_STREAM,
            // STREAM_DATA_BLOCKED), else by the receiving part (STOP_SENDING, MAX_STREAM_DATA)
            let uni = sid & 2 != 0;
            let d = uni as usize;
            let idx = sid >> 2;
            let peer_init = (sid & 1 == 1) == self.peer_bit();
            if peer_init {
                if uni && !sender_side {
                    j.reasons.push(("peer-uni-cannot-send-this", ErrorKind::StreamState));
                    return false;
                }
                if idx >= self.max[d] {
                    j.reasons.push((if idx == self.max[d] { "sid-index-eq-limit" } else { "sid-over-limit" }, ErrorKind::StreamLimit));
                    j.by_one |= idx == self.max[d];
                    return false;
                }
                j.creates = (idx + 1).saturating_sub(self.unalloc[d]);
                true
            } else {
                if uni && sender_side {
                    j.reasons.push(("local-uni-cannot-receive", ErrorKind::StreamState));
                    return false;
                }
                if idx >= self.opened[d] {
                    if unopened_rule {
                        j.reasons.push(("local-unopened", ErrorKind::StreamState));
                        j.by_one |= idx == self.opened[d];
                    } else {
                        j.no_expectation = true;
                    }
                    return false;
                }
                true
            }
        };
        match f {
            RF::Stream { sid, off, len, fin } => {
                if sid_checks(&mut j, *sid, true, true) {
                    let fresh = RS { window: self.window_for(*sid), ..Default::default() };
                    let r = self.recv.get(sid).unwrap_or(&fresh);
                    let end = off + *len as u64;
                    if r.done || r.fuzzy {
                        j.no_expectation = true;
                    } else {
                        if let Some(fs) = r.fin {
                            if end > fs || (*fin && end != fs) {
                                j.reasons.push(("final-size", ErrorKind::FinalSize));
                                j.by_one |= end == fs + 1 || end + 1 == fs;
                            }
                        } else if *fin && end < r.largest {
                            j.reasons.push(("final-size", ErrorKind::FinalSize));
                            j.by_one |= end + 1 == r.largest;
                        }
                        if (*len > 0 || *fin) && end > r.window {
                            j.reasons.push(("stream-window", ErrorKind::FlowControl));
                            j.by_one |= end == r.window + 1;
                        }
                        let growth = end.saturating_sub(r.largest);
                        if (*len > 0 || *fin) && growth > 0 && self.conn_rcvd + growth > self.conn_max {
                            j.reasons.push(("conn-window", ErrorKind::FlowControl));
                            j.by_one |= self.conn_rcvd + growth == self.conn_max + 1;
                        }
                        if *len == 0 && !*fin && (end > r.window || end > r.largest) {
                            // an empty frame beyond the data received so far: the RFC is silent
                            j.no_expectation = true;
                        }
                    }
                }
            }
            RF::Reset { sid, fs, .. } => {
                if sid_checks(&mut j, *sid, true, false) {
                    let fresh = RS { window: self.window_for(*sid), ..Default::default() };
                    let r = self.recv.get(sid).unwrap_or(&fresh);
                    if r.done || r.fuzzy {
                        j.no_expectation = true;
                    } else {
                        match r.fin {
                            Some(k) if k != *fs => {
                                j.reasons.push(("final-size", ErrorKind::FinalSize));
                                j.by_one |= k.abs_diff(*fs) == 1;
                            }
                            None if *fs < r.largest => {
                                j.reasons.push(("final-size", ErrorKind::FinalSize));
                                j.by_one |= *fs + 1 == r.largest;
                            }
                            _ => {}
                        }
                        if *fs > r.window {
                            j.reasons.push(("stream-window", ErrorKind::FlowControl));
                            j.by_one |= *fs == r.window + 1;
                        }
                        let growth = fs.saturating_sub(r.largest);
                        if self.conn_rcvd + growth > self.conn_max {
                            j.reasons.push(("conn-window", ErrorKind::FlowControl));
                            j.by_one |= self.conn_rcvd + growth == self.conn_max + 1;
                        }
                    }
                }
            }
            RF::Stop { sid, .. } | RF::MaxStreamData { sid, .. } => {
                sid_checks(&mut j, *sid, false, true);
            }
            RF::StreamDataBlocked { sid, .. } => {
                sid_checks(&mut j, *sid, true, false);
            }
            RF::MaxStreams { v, .. } => {
                if *v > P60 {
                    j.decode = true;
                    j.reasons.push(("max-streams-over-2^60", ErrorKind::FrameEncoding));
                }
                j.by_one |= *v == P60 + 1;
            }
            RF::StreamsBlocked { v, .. } => {
                if *v > P60 {
                    j.decode = true;
                    j.reasons.push(("streams-blocked-over-2^60", ErrorKind::FrameEncoding));
                }
                j.by_one |= *v == P60 + 1;
            }
            RF::MaxData { .. } | RF::DataBlocked { .. } | RF::Crypto { .. } => {}
        }
        j
    }

    /// model state change of a frame the endpoint accepted
    fn commit(&mut self, f: &RF) {
        match f {
            RF::Stream { sid, off, len, fin } => {
                let peer_init = (sid & 1 == 1) == self.peer_bit();
                if peer_init {
                    self.model_accept_peer_sid(*sid);
                }
                let Some(r) = self.recv.get_mut(sid) else { return };
                if r.done {
                    return;
                }
                let end = off + *len as u64;
                let growth = end.saturating_sub(r.largest);
                if *len > 0 || *fin {
                    r.largest = r.largest.max(end);
                    if *len > 0 {
                        // (an empty FIN frame beyond the window is reported by `judge`; the endpoint
                        // charges nothing for it, and the model follows the endpoint behind that finding)
                        self.conn_rcvd += growth;
                    }
                } else if end > r.largest {
                    // an empty frame beyond the data received: what it means for the stream is not specified
                    r.fuzzy = true;
                }
                if *off <= r.contig {
                    r.contig = r.contig.max(end);
                } else if *len > 0 {
                    match r.tail {
                        None => r.tail = Some((*off, end)),
                        Some((a, b)) if *off >= a && end <= b => {}
                        Some(_) => r.fuzzy = true,
                    }
                }
                if let Some((a, b)) = r.tail {
                    if a <= r.contig {
                        r.contig = r.contig.max(b);
                        r.tail = None;
                    }
                }
                if *fin {
                    r.fin = Some(end);
                    // (a final size beyond the window is reported by `judge`; once it is accepted the
                    // endpoint only checks against the final size, and the model follows it)
                    r.window = r.window.max(end);
                }
                if r.fin == Some(r.contig) && !r.fuzzy {
                    r.done = true;
                }
            }
            RF::Reset { sid, fs, .. } => {
                let peer_init = (sid & 1 == 1) == self.peer_bit();
                if peer_init {
                    self.model_accept_peer_sid(*sid);
                }
                let Some(r) = self.recv.get_mut(sid) else { return };
                if r.done {
                    return;
                }
                self.conn_rcvd += fs.saturating_sub(r.largest);
                r.largest = r.largest.max(*fs);
                r.fin = Some(*fs);
                r.done = true;
            }
            RF::Stop { sid, .. } | RF::MaxStreamData { sid, .. } | RF::StreamDataBlocked { sid, .. } => {
                let peer_init = (sid & 1 == 1) == self.peer_bit();
                if peer_init {
                    self.model_accept_peer_sid(*sid);
                }
            }
            RF::MaxStreams { uni, v } => {
                let d = *uni as usize;
                self.local_max[d] = self.local_max[d].max(*v);
            }
            RF::MaxData { v } => self.send_max = self.send_max.max(*v),
            RF::StreamsBlocked { .. } | RF::DataBlocked { .. } | RF::Crypto { .. } => {}
        }
    }

    /// the glue of qconnection/src/space.rs (`FlowControlledDataStreams`) and of the frame dispatcher
    fn dispatch(&self, frame: Frame) -> Result<(), QError> {
        use qbase::frame::GetFrameType;
        match frame {
            Frame::Stream(f, data) => {
                let frame_type = f.frame_type();
                let new_data_size = self.streams.recv_data((f, data))?;
                self.flow.on_new_rcvd(frame_type, new_data_size)?;
                Ok(())
            }
            Frame::StreamCtl(f) => {
                let new_data_size = self.streams.recv_stream_control(f)?;
                self.flow.on_new_rcvd(f.frame_type(), new_data_size)?;
                Ok(())
            }
            Frame::MaxData(f) => self.flow.sender.recv_frame(f),
            Frame::DataBlocked(f) => self.flow.recver.recv_frame(f),
            Frame::Crypto(f, data) => self.crypto.incoming().recv_frame((f, data)),
            other => panic!("harness: unexpected frame {other:?}"),
        }
    }

    fn open_local(&mut self, uni: bool) -> Result<bool, String> {
        let Some(params) = self.params.clone() else { return Ok(false) };
        let d = uni as usize;
        let want = self.opened[d] < self.local_max[d];
        let got = if uni {
            let r = noop_cx(|cx| {
                let mut fut = self.streams.open_uni(&params);
                std::pin::Pin::new(&mut fut).poll(cx)
            });
            match r {
                std::task::Poll::Ready(Ok(Some((sid, w)))) => {
                    self.keep.push(Box::new(w));
                    Some(u64::from(sid))
                }
                std::task::Poll::Pending => None,
                std::task::Poll::Ready(o) => return Err(format!("open_uni: {:?}", o.map(|x| x.map(|y| y.0)))),
            }
        } else {
            let r = noop_cx(|cx| {
                let mut fut = self.streams.open_bi(&params);
                std::pin::Pin::new(&mut fut).poll(cx)
            });
            match r {
                std::task::Poll::Ready(Ok(Some((sid, rw)))) => {
                    self.keep.push(Box::new(rw));
                    Some(u64::from(sid))
                }
                std::task::Poll::Pending => None,
                std::task::Poll::Ready(o) => return Err(format!("open_bi: {:?}", o.map(|x| x.map(|y| y.0)))),
            }
        };
        match (want, got) {
            (true, Some(sid)) => {
                let exp = sid_of(!self.peer_bit(), uni, self.opened[d]);
                if sid != exp {
                    return Err(format!("opened stream id {sid}, model {exp}"));
                }
                if !uni {
                    let w = self.window_for(sid);
                    self.recv.insert(sid, RS { window: w, ..Default::default() });
                }
                self.opened[d] += 1;
                Ok(true)
            }
            (false, None) => Ok(false),
            (true, None) => Err(format!("open (uni={uni}) pending although {} opened < limit {}", self.opened[d], self.local_max[d])),
            (false, Some(sid)) => Err(format!("open (uni={uni}) gave stream {sid} although {} opened >= limit {}", self.opened[d], self.local_max[d])),
        }
    }

    /// receivable streams that are still open, in id order
    fn receivable(&self) -> Vec<u64> {
        self.recv.iter().filter(|(_, r)| !r.done && !r.fuzzy).map(|(s, _)| *s).collect()
    }
}

fn child_streams(cx: &mut Cx, c: StreamsCase) {
    let mut w = match SWorld::new(&c) {
        Ok(w) => w,
        Err(e) => {
            cx.fatal("harness", e);
            return;
        }
    };
    // ---- legitimate history
    for (i, op) in c.hist.iter().enumerate() {
        let rf = match op {
            SOp::OpenLocal { uni } => {
                if let Err(e) = w.open_local(*uni) {
                    cx.fatal("streams-history", format!("op {i}: {e}"));
                    std::mem::forget(w);
                    return;
                }
                None
            }
            SOp::Data { new, uni, sel, len, fin, ahead } => {
                let d = *uni as usize;
                let sid = if *new && w.unalloc[d] < w.max[d] {
                    Some(sid_of(w.peer_bit(), *uni, w.unalloc[d]))
                } else {
                    let v = w.receivable();
                    (!v.is_empty()).then(|| v[*sel as usize % v.len()])
                };
                sid.and_then(|sid| {
                    let fresh = RS { window: w.window_for(sid), ..Default::default() };
                    let r = w.recv.get(&sid).unwrap_or(&fresh).clone();
                    let room = (r.window - r.largest).min(w.conn_max - w.conn_rcvd).min(1200);
                    if let Some((a, _)) = r.tail {
                        // fill (part of) the hole
                        let len = (*len as u64).min(a - r.contig);
                        return Some(RF::Stream { sid, off: r.contig, len: len as usize, fin: false });
                    }
                    if r.fin.is_some() {
                        return None;
                    }
                    let ahead = (*ahead as u64).min(room);
                    let len = (*len as u64).min(room - ahead);
                    if ahead > 0 && len == 0 {
                        return None;
                    }
                    Some(RF::Stream { sid, off: r.contig + ahead, len: len as usize, fin: *fin })
                })
            }
            SOp::Reset { sel } => {
                let v = w.receivable();
                (!v.is_empty()).then(|| {
                    let sid = v[*sel as usize % v.len()];
                    let r = &w.recv[&sid];
                    RF::Reset { sid, err: 7, fs: r.fin.unwrap_or(r.largest) }
                })
            }
        };
        if let Some(rf) = rf {
            let j = w.judge(&rf);
            if !j.reasons.is_empty() || j.no_expectation {
                cx.fatal("harness", format!("op {i}: history frame {rf:?} judged {j:?}"));
                return;
            }
            let r = parse_one(&rf.encode(), 2).map_err(QError::Quic).and_then(|f| w.dispatch(f));
            if let Err(e) = r {
                cx.fatal("streams-history", format!("op {i}: legitimate {rf:?} refused: {e:?}"));
                std::mem::forget(w);
                return;
            }
            w.commit(&rf);
            let bad = w.absorb_sink();
            if !bad.is_empty() {
                cx.fatal("streams-history", format!("op {i}: {bad:?}"));
                return;
            }
        }
    }
    // ---- hostile frames
    for (k, h) in c.hostile.iter().take(2).enumerate() {
        let rf = w.resolve(h);
        let j = w.judge(&rf);
        let bytes = rf.encode();
        let what = format!(
            "{rf:?} ({}) [{} role, limits bidi/uni {:?}, next unused {:?}, locally opened {:?}, connection {}/{} received, stream {:?}]",
            rf.name(),
            if w.client { "client" } else { "server" },
            w.max,
            w.unalloc,
            w.opened,
            w.conn_rcvd,
            w.conn_max,
            match &rf {
                RF::Stream { sid, .. } | RF::Reset { sid, .. } => w.recv.get(sid).cloned(),
                _ => None,
            }
        );
        let big = match &rf {
            RF::Stream { sid, off, .. } => *sid >= 1 << 31 || *off >= 1 << 31,
            RF::Reset { sid, err, fs } => *sid >= 1 << 31 || *err >= 1 << 31 || *fs >= 1 << 31,
            RF::Stop { sid, err } => *sid >= 1 << 31 || *err >= 1 << 31,
            RF::MaxStreamData { sid, v } | RF::StreamDataBlocked { sid, v } => *sid >= 1 << 31 || *v >= 1 << 31,
            RF::MaxStreams { v, .. } | RF::StreamsBlocked { v, .. } | RF::MaxData { v } | RF::DataBlocked { v } => *v >= 1 << 31,
            RF::Crypto { off, .. } => *off >= 1 << 31,
        };
        if big {
            cx.class("field>=2^31");
        }
        if j.by_one {
            cx.class("bound+1");
        }
        if big || j.by_one {
            cx.nontrivial();
        }
        cx.class(format!("frame:{}", rf.name()));
        let reasons: Vec<&str> = j.reasons.iter().map(|r| r.0).collect();
        cx.class(if j.no_expectation {
            "model:no-expectation".to_string()
        } else if reasons.is_empty() {
            "model:acceptable".to_string()
        } else {
            format!("model:{}", reasons.join("+"))
        });
        // 8 KiB per stream the frame legitimately creates (at most 16: no world here advertises more
        // on its own initiative)
        let bound = (64 << 10) + 64 * (bytes.len() as u64 + w.records()) + 8192 * j.creates.min(16);
        cx.reply.note = Some(json!({"frame": what, "bound": bound}));
        let parsed = match risky(cx, "frame.decode", bound, None, &what, || parse_one(&bytes, 2)) {
            HObs::Done(r, _) => r,
            HObs::Panic(file, msg) => {
                cx.fatal(format!("decode-panic@{file}"), format!("{what}: {msg}"));
                return;
            }
            HObs::Skipped => return,
        };
        let frame = match parsed {
            Ok(f) => f,
            Err(e) => {
                if j.decode && e.kind() == ErrorKind::FrameEncoding {
                    cx.class("verdict:decode-refused");
                } else {
                    cx.fatal(format!("decode-refused:{}", rf.name()), format!("{what}: {e:?}"));
                }
                return;
            }
        };
        let hname = if k == 0 {
            "streams.frame1"
        } else if w.handed_over {
            "streams.frame2-after-handover"
        } else {
            "streams.frame2"
        };
        let sink_before = w.sink.0.lock().unwrap().len();
        let obs = risky2(cx, hname, bound, Some(j.creates as u128), 64, &what, || w.dispatch(frame));
        let accepted = match obs {
            HObs::Done(Ok(()), snap) => {
                cx.class("verdict:accepted");
                if snap.bytes > 16 << 10 {
                    cx.class("alloc>16KiB");
                }
                true
            }
            HObs::Done(Err(QError::Quic(e)), _) => {
                let k = e.kind();
                cx.class(format!("verdict:{}", kind_name(k)));
                if j.no_expectation {
                } else if reasons.is_empty() {
                    cx.fatal(format!("wrongly-refused:{}:{}", rf.name(), kind_name(k)), format!("{what}: {e:?}"));
                } else if reasons == ["sid-index-eq-limit"] && k != ErrorKind::StreamLimit {
                    cx.finding(
                        format!("accepted:sid-index-eq-limit:{}", rf.name()),
                        format!("{what}: stream index == advertised limit not refused with STREAM_LIMIT_ERROR; processing went on and ended with {e:?}"),
                    );
                } else if !j.reasons.iter().any(|r| r.1 == k) {
                    cx.fatal(
                        format!("wrong-error:{}:{}", rf.name(), kind_name(k)),
                        format!("{what}: {e:?}; the model expects {:?}", j.reasons),
                    );
                }
                false
            }
            HObs::Done(Err(e), _) => {
                cx.fatal(format!("wrong-error:{}", rf.name()), format!("{what}: {e:?}"));
                false
            }
            HObs::Panic(file, msg) => {
                if reasons == ["streams-blocked-over-2^60"] && c.demand {
                    cx.finding(
                        "streams-blocked-over-2^60-panics",
                        format!("{what}: panic in {file}: {msg} (RFC 9000 19.14: FRAME_ENCODING_ERROR)"),
                    );
                } else {
                    cx.fatal(format!("{}:panic@{file}", rf.name()), format!("{what}: {msg}"));
                }
                std::mem::forget(w);
                return;
            }
            HObs::Skipped => {
                std::mem::forget(w);
                return;
            }
        };
        if !accepted {
            // the connection is closed by that error
            std::mem::forget(w);
            return;
        }
        if !reasons.is_empty() && !j.no_expectation {
            cx.finding(
                format!("accepted:{}:{}", reasons.join("+"), rf.name()),
                format!("{what}: accepted; RFC 9000 prescribes {:?}", j.reasons),
            );
            if reasons.contains(&"conn-window") {
                // the connection-level accounting of model and endpoint differ from here on
                return;
            }
        }
        w.commit(&rf);
        let old_max = w.max;
        let bad = w.absorb_sink();
        for b in bad {
            if b.contains("below the limit") {
                cx.finding("demand-streams-blocked-lowers-limit", format!("{what}: {b}"));
            } else {
                cx.finding("demand-emits-max-streams-over-2^60", format!("{what}: {b}"));
            }
        }
        if let RF::StreamsBlocked { uni, v } = &rf {
            let d = *uni as usize;
            if w.max[d] > old_max[d] {
                cx.class(if w.max[d] > old_max[d] + 1 { "streams-blocked:limit-raised-by>1" } else { "streams-blocked:limit-raised-by-1" });
                let _ = v;
            }
        }
        let _ = sink_before;
        // ---- (iii) probes of the state behind an accepted frame
        match &rf {
            RF::MaxStreams { uni, .. } if w.client => {
                if let Err(e) = w.open_local(*uni) {
                    cx.fatal("max-streams-state", format!("{what}: afterwards {e}"));
                }
            }
            RF::MaxData { .. } => {
                let quota = 1usize << 40;
                match w.flow.sender.credit(quota) {
                    Ok(cr) => {
                        let want = w.send_max.min(quota as u64);
                        if cr.available() as u64 != want {
                            cx.fatal("max-data-state", format!("{what}: afterwards credit {} != {want}", cr.available()));
                        }
                    }
                    Err(e) => cx.fatal("max-data-state", format!("{what}: afterwards credit() = {e:?}")),
                }
            }
            _ => {}
        }
    }
    // ---- behind the frames: a correct peer can still open its next stream
    if !cx.tainted {
        for d in 0..2 {
            if !w.lowered[d] && w.unalloc[d] < w.max[d] && w.conn_rcvd < w.conn_max && w.window_for(sid_of(w.peer_bit(), d == 1, 0)) > 0 {
                let rf = RF::Stream { sid: sid_of(w.peer_bit(), d == 1, w.unalloc[d]), off: 0, len: 1, fin: false };
                let r = parse_one(&rf.encode(), 2).map_err(QError::Quic).and_then(|f| w.dispatch(f));
                if let Err(e) = r {
                    cx.fatal("streams-followup-refused", format!("afterwards {rf:?} refused: {e:?}"));
                    break;
                }
                w.commit(&rf);
            }
        }
    }
    if cx.tainted {
        std::mem::forget(w);
    }
}

fn limits() -> BoxedStrategy<Limits> {
    let win = || prop_oneof![2 => 0u32..=4, 4 => 1u32..=3000, 1 => Just(100_000u32)];
    (0u8..=6, 0u8..=6, win(), win(), win(), prop_oneof![1 => 0u32..=4, 5 => 1u32..=6000, 1 => Just(1_000_000u32)])
        .prop_map(|(max_bi, max_uni, win_bi_local, win_bi_remote, win_uni, max_data)| Limits { max_bi, max_uni, win_bi_local, win_bi_remote, win_uni, max_data })
        .boxed()
}

fn sid_sel() -> BoxedStrategy<SidSel> {
    (
        prop_oneof![3 => Just(true), 1 => Just(false)],
        any::<bool>(),
        prop_oneof![4 => (-3i8..=2).prop_map(Num::Rel), 4 => (-2i8..=1).prop_map(Num::Half), 2 => gens::varint().prop_map(Num::Abs), 1 => (0u64..8).prop_map(Num::Abs)],
    )
        .prop_map(|(peer, uni, idx)| SidSel { peer, uni, idx })
        .boxed()
}

fn hs() -> BoxedStrategy<HS> {
    let len = || prop_oneof![2 => 0u16..=3, 3 => 1u16..=200, 1 => Just(1200u16)];
    prop_oneof![
        6 => (sid_sel(), num_fit(), len(), any::<bool>()).prop_map(|(sid, off, len, fin)| HS::Stream { sid, off, len, fin }),
        4 => (sid_sel(), num_small(9), num_fit()).prop_map(|(sid, err, final_size)| HS::Reset { sid, err, final_size }),
        2 => (sid_sel(), num_small(9)).prop_map(|(sid, err)| HS::Stop { sid, err }),
        2 => (sid_sel(), num()).prop_map(|(sid, v)| HS::MaxStreamData { sid, v }),
        1 => (sid_sel(), num()).prop_map(|(sid, v)| HS::StreamDataBlocked { sid, v }),
        2 => (any::<bool>(), num()).prop_map(|(uni, v)| HS::MaxStreams { uni, v }),
        3 => (any::<bool>(), num()).prop_map(|(uni, v)| HS::StreamsBlocked { uni, v }),
        1 => num().prop_map(|v| HS::MaxData { v }),
        1 => num().prop_map(|v| HS::DataBlocked { v }),
        1 => (num(), len()).prop_map(|(off, len)| HS::Crypto { off, len }),
    ]
    .boxed()
}

fn sop() -> BoxedStrategy<SOp> {
    prop_oneof![
        6 => (any::<bool>(), any::<bool>(), any::<u8>(), prop_oneof![1 => Just(0u16), 4 => 1u16..=300], prop_oneof![3 => Just(false), 1 => Just(true)], prop_oneof![3 => Just(0u8), 1 => 1u8..=9])
            .prop_map(|(new, uni, sel, len, fin, ahead)| SOp::Data { new, uni, sel, len, fin, ahead }),
        1 => any::<u8>().prop_map(|sel| SOp::Reset { sel }),
        2 => any::<bool>().prop_map(|uni| SOp::OpenLocal { uni }),
    ]
    .boxed()
}

fn streams_case() -> BoxedStrategy<StreamsCase> {
    (
        any::<bool>(),
        prop_oneof![2 => Just(false), 1 => Just(true)],
        limits(),
        limits(),
        proptest::collection::vec(sop(), 0..=30),
        proptest::collection::vec(hs(), 1..=2),
    )
        .prop_map(|(server, demand, lim, peer, hist, hostile)| StreamsCase { server, demand, lim, peer, hist, hostile })
        .boxed()
}

fn run_streams(c: &StreamsCase, ctx: &mut CaseCtx) -> Outcome {
    run_in_child("streams", serde_json::to_value(c).unwrap(), ctx)
}


fn main() {
    if std::env::args().nth(1).as_deref() == Some("--child") {
        child_main();
    }
    let mut check = Check::from_env("C04", "exploration");
    if check.is_replay() {
        REPLAY.store(1, Ordering::SeqCst);
    }
    check.max_shrink_iters = 400;
    check.rule(
        "case = short legitimate history + one hostile frame (streams: one or two) / one hostile packet number; every numeric field is \
         Abs(boundary-biased value of [0,2^62)) or relative to the state-dependent bound of that field (bound-8 .. bound+2) or to a second anchor \
         (2^31, half the packet-number window, limit edge). The frame is written to bytes by this file, parsed by the real FrameReader and handed to the \
         real handlers in dispatcher order inside a child process under an allocation limit of 64 KiB + 64 x (frame bytes + records held) \
         (+ 8 KiB per stream the frame legitimately opens) and a CPU watchdog; the reference model (RFC 9000 verdict table) runs next to the state. \
         stages: ack (sent journal + received journal + congestion controller of one space, ACK through cc.on_ack_rcvd -> rcvd.on_rcvd_ack -> \
         Ack*Space::recv_frame), pn (received journal, decode_pn/on_rcvd_pn/gen_ack_frame_util of a truncated number of width 1..4), cid (ArcRemoteCids \
         NEW_CONNECTION_ID, ArcLocalCids RETIRE_CONNECTION_ID), streams (DataStreams + FlowController + CryptoStream behind the FlowControlledDataStreams \
         glue, both roles, both concurrency strategies: STREAM, RESET_STREAM, STOP_SENDING, MAX_STREAM_DATA, STREAM_DATA_BLOCKED, MAX_STREAMS, \
         STREAMS_BLOCKED, MAX_DATA, DATA_BLOCKED, CRYPTO); *-grid stages enumerate every combination of the listed boundary values. \
         non-trivial = the hostile frame carries a field >= 2^31 (pn: a jump >= 2^30) or violates a state-relative bound by exactly one \
         (largest == next pn, range one below 0, index == limit, offset one beyond the window, final size one off, sequence one beyond the issued ones, \
         limit+1 active IDs, 2^60+1 streams, duplicate / expected packet number). distinct = by hash of the serialised case.",
    );
    check.assume("the dispatch order update_largest pre-check -> cc.on_ack_rcvd -> rcvd_journal.on_rcvd_ack -> ack pipe (Ack*Space::recv_frame) and the FlowControlledDataStreams glue are line-for-line copies of qconnection/src/space.rs, space/{initial,handshake,data}.rs at the time of writing; a repair made there must be mirrored here");
    check.assume("a handler call that is still running after 1 s of its thread's CPU time (10^4 times the cost of any call the model accepts) counts as 'iterates without bound'; a call whose allocation requests exceed 64 KiB + 64 x (frame bytes + records held) counts as 'allocates without bound'; after the first such kill (alloc: second) of a class in a run, cases of that class whose model-predicted cost is astronomically above the bound are reported without being executed again");
    check.assume("this build has overflow checks on: an unchecked subtraction on attacker-controlled ACK fields is observed as a panic; without overflow checks it wraps (not observed here)");
    check.assume("stream verdicts are only asserted while the model can predict the stream state (one hole at most, no empty frame beyond the received data); closed streams ignore frames");
    // ---- complete boundary grids (every combination of the listed boundary values)
    check.exhaustive::<AckCase, _>("ack-grid", true, |e| {
        let p31 = 1u64 << 31;
        let worlds: Vec<Vec<AOp>> = vec![
            vec![],
            vec![
                AOp::Send { frames: 1, with_ack: false },
                AOp::Send { frames: 2, with_ack: false },
                AOp::Recv { gap: 1, ae: true },
                AOp::Recv { gap: 2, ae: true },
                AOp::Send { frames: 0, with_ack: true },
                AOp::Send { frames: 1, with_ack: true },
            ],
            vec![
                AOp::Send { frames: 1, with_ack: false },
                AOp::Send { frames: 1, with_ack: false },
                AOp::Send { frames: 3, with_ack: false },
                AOp::Send { frames: 1, with_ack: false },
                AOp::Send { frames: 2, with_ack: false },
                AOp::Send { frames: 1, with_ack: false },
                AOp::PeerAck { top: 1, first: 2, more: vec![] },
                AOp::Recv { gap: 1, ae: true },
                AOp::Send { frames: 1, with_ack: true },
            ],
        ];
        let largest = [Num::Abs(0), Num::Rel(-2), Num::Rel(-1), Num::Rel(0), Num::Rel(1), Num::Rel(2), Num::Abs(p31 - 1), Num::Abs(p31), Num::Abs(1 << 60), Num::Abs(VMAX)];
        let first = [Num::Abs(0), Num::Abs(1), Num::Rel(-1), Num::Rel(0), Num::Rel(1), Num::Abs(p31), Num::Abs(VMAX)];
        let gaps = [Num::Abs(0), Num::Rel(-1), Num::Rel(0), Num::Rel(1), Num::Abs(VMAX)];
        let lens = [Num::Abs(0), Num::Rel(0), Num::Rel(1), Num::Abs(VMAX)];
        let mut ranges: Vec<Vec<(Num, Num)>> = vec![vec![]];
        for g in gaps {
            for l in lens {
                ranges.push(vec![(g, l)]);
            }
        }
        for (wi, ops) in worlds.iter().enumerate() {
            for l in largest {
                for f in first {
                    for r in &ranges {
                        if e.stopped() {
                            return;
                        }
                        let case = AckCase {
                            epoch: wi as u8,
                            server: wi == 1,
                            ops: ops.clone(),
                            hostile: HAck { largest: l, delay: Num::Abs(25), first: f, ranges: r.clone(), ecn: None, count_extra: None },
                        };
                        e.case(&case, run_ack);
                    }
                }
            }
        }
    });
    check.exhaustive::<PnCase, _>("pn-grid", true, |e| {
        let hists: Vec<Vec<POp>> = vec![
            vec![],
            vec![POp::Recv { gap: 1, ae: true }, POp::Recv { gap: 1, ae: true }, POp::Recv { gap: 1, ae: false }],
            vec![
                POp::Recv { gap: 1, ae: true },
                POp::Recv { gap: 1, ae: true },
                POp::AckOut,
                POp::Recv { gap: 3, ae: true },
                POp::PeerAckAll,
                POp::Recv { gap: 1, ae: true },
                POp::AckOut,
            ],
        ];
        let mut truncs = vec![Num::Abs(0), Num::Abs(u32::MAX as u64)];
        truncs.extend((-3i8..=3).map(Num::Rel));
        truncs.extend((-3i8..=1).map(Num::Half));
        for h in &hists {
            for width in 1u8..=4 {
                for t in &truncs {
                    for cap in [1200u16, 8] {
                        if e.stopped() {
                            return;
                        }
                        let case = PnCase { data_epoch: true, ops: h.clone(), width, trunc: *t, ae: true, cap };
                        e.case(&case, run_pn);
                    }
                }
            }
        }
    });
    check.exhaustive::<CidCase, _>("cid-grid", true, |e| {
        let hists: Vec<Vec<CidStep>> = vec![
            vec![],
            vec![CidStep { retire: 0, issue: 1, drop_mask: 0 }],
            vec![CidStep { retire: 0, issue: 2, drop_mask: 0 }, CidStep { retire: 1, issue: 1, drop_mask: 0 }],
            vec![CidStep { retire: 0, issue: 2, drop_mask: 1 }],
        ];
        let p31 = 1u64 << 31;
        let seqs = [Num::Rel(-1), Num::Rel(0), Num::Rel(1), Num::Rel(2), Num::Half(-1), Num::Half(0), Num::Half(1), Num::Abs(p31), Num::Abs(VMAX)];
        let rpts = [Num::Abs(0), Num::Rel(-2), Num::Rel(-1), Num::Rel(0), Num::Rel(1), Num::Half(-1), Num::Half(0), Num::Half(1)];
        for limit in [2u8, 3] {
            for h in &hists {
                for sq in seqs {
                    for rp in rpts {
                        if e.stopped() {
                            return;
                        }
                        let case = CidCase { limit, paths: 2, hist: h.clone(), local_retires: vec![], hostile: HCid::New { seq: sq, rpt: rp, cid_len: 8 } };
                        e.case(&case, run_cid);
                    }
                }
                for len in [0u8, 1, 20, 21] {
                    let case = CidCase { limit, paths: 1, hist: h.clone(), local_retires: vec![], hostile: HCid::New { seq: Num::Rel(0), rpt: Num::Abs(0), cid_len: len } };
                    e.case(&case, run_cid);
                }
            }
            for v in [Num::Abs(0), Num::Abs(1), Num::Abs(2), Num::Abs(8), Num::Abs(1000), Num::Abs(p31), Num::Abs(VMAX)] {
                let case = CidCase { limit, paths: 1, hist: vec![], local_retires: vec![], hostile: HCid::PeerLimit { v } };
                e.case(&case, run_cid);
            }
            for lr in [vec![], vec![0u16], vec![0u16, 0]] {
                for sq in [Num::Rel(-2), Num::Rel(-1), Num::Rel(0), Num::Rel(1), Num::Rel(2), Num::Abs(0), Num::Abs(p31), Num::Abs(VMAX)] {
                    if e.stopped() {
                        return;
                    }
                    let case = CidCase { limit, paths: 1, hist: vec![], local_retires: lr.clone(), hostile: HCid::Retire { seq: sq } };
                    e.case(&case, run_cid);
                }
            }
        }
    });
    let n = check.pick(3_000, 300_000);
    check.stage("ack-random", n, 16, ack_case, run_ack);
    let n = check.pick(1_500, 200_000);
    check.stage("pn-random", n, 16, pn_case, run_pn);
    let n = check.pick(1_500, 200_000);
    check.stage("cid-random", n, 16, cid_case, run_cid);
    let n = check.pick(6_000, 1_500_000);
    check.stage("streams-random", n, 16, streams_case, run_streams);
    check.extra("child_deaths", json!(DEATHS.load(Ordering::Relaxed)));
    check.finish();
}
