//! C05 — every encodable value decodes back to itself, in the size it declared.
//!
//! Oracle: an independent reference encoder (RFC 9000 §16–§19, RFC 9221, and the
//! documented layout of the gm-quic extension frames) written in this file.
//! For every generated value: bytes written == reference bytes, written ==
//! `encoding_size()` <= `max_encoding_size()`, decode in every packet type
//! (equal value + exact consumption where the frame is permitted, `WrongType`
//! elsewhere), `Package::dump` admission into exact / too-small hard-capacity
//! targets, concatenation metamorphic, headers, coalesced packets, varints, CIDs,
//! addresses, stream ids, tokens and transport-parameter sets for both roles.

use std::{
    net::{IpAddr, Ipv4Addr, Ipv6Addr, SocketAddr, SocketAddrV4, SocketAddrV6},
    time::Duration,
};

use bytes::{BufMut, Bytes, BytesMut, buf::UninitSlice};
use proptest::prelude::*;
use qbase::{
    cid::{ConnectionId, WriteConnectionId, be_connection_id, be_connection_id_with_len},
    error::{ErrorFrameType, ErrorKind},
    frame::{
        AckFrame, AddAddressFrame, ConnectionCloseFrame, CryptoFrame, DataBlockedFrame,
        DatagramFrame, EcnCounts, EncodeSize, Error as FrameError, Frame, FrameFeature,
        FrameReader, FrameType, GetFrameType, HandshakeDoneFrame, Len, MaxDataFrame,
        MaxStreamDataFrame, MaxStreamsFrame, NewConnectionIdFrame, NewTokenFrame, PaddingFrame,
        PathChallengeFrame, PathResponseFrame, PingFrame, PunchDoneFrame, PunchHelloFrame,
        PunchMeNowFrame, ReliableFrame, RemoveAddressFrame, ResetStreamFrame,
        RetireConnectionIdFrame, StopSendingFrame, StreamCtlFrame, StreamDataBlockedFrame,
        StreamFrame, StreamsBlockedFrame,
        io::{WriteFrame, be_frame},
    },
    net::{
        Family, NatType, WriteSocketAddr,
        addr::{EndpointAddr, WriteEndpointAddr, be_endpoint_addr},
        be_socket_addr,
        tx::{ArcSendWakers, Signals},
    },
    packet::{
        DataHeader, EncodeHeader, GetDcid, GetScid, GetType, Header, LongHeaderBuilder,
        OneRttHeader, Package, Packet, PacketContent, PacketReader, RecordFrame, SpinBit,
        header::io::{WriteHeader, be_header},
        long,
        r#type::{
            Type,
            io::be_packet_type,
            long::{Type as LongType, Ver1},
            short::OneRtt,
        },
    },
    param::{
        ParameterId, ParameterValue, ServerParameters, WriteParameters,
        preferred_address::PreferredAddress,
    },
    role::{Client, IntoRole, RequiredParameters, Role, Server},
    sid::{Dir, StreamId, WriteStreamId, be_streamid},
    token::{ResetToken, WriteResetToken, be_reset_token},
    util::ContinuousData,
    varint::{EncodeBytes, VarInt, WriteVarInt, be_varint},
};
use serde::{Deserialize, Serialize};
use serde_json::json;
use vcore::{CaseCtx, Check, Fail, Outcome, ensure, ensure_eq, fail, gens, guarded};

const VMAX: u64 = (1 << 62) - 1;

// ---------------------------------------------------------------------------
// reference encoder primitives (RFC 9000 §16)
// ---------------------------------------------------------------------------

fn vlen(v: u64) -> usize {
    if v < 1 << 6 {
        1
    } else if v < 1 << 14 {
        2
    } else if v < 1 << 30 {
        4
    } else {
        8
    }
}

fn mv(out: &mut Vec<u8>, v: u64) {
    assert!(v <= VMAX);
    match vlen(v) {
        1 => out.push(v as u8),
        2 => out.extend_from_slice(&((v as u16) | 0x4000).to_be_bytes()),
        4 => out.extend_from_slice(&((v as u32) | 0x8000_0000).to_be_bytes()),
        _ => out.extend_from_slice(&(v | 0xC000_0000_0000_0000).to_be_bytes()),
    }
}

fn vi(v: u64) -> VarInt {
    VarInt::from_u64(v).expect("generator keeps varints below 2^62")
}

fn sid_of(v: u64) -> StreamId {
    StreamId::from(vi(v))
}

/// valid UTF-8 of exactly `n` bytes; `mb` mixes in 2- and 3-byte characters
fn reason_str(n: usize, mb: bool) -> String {
    let mut s = String::with_capacity(n);
    let mut i = 0usize;
    while s.len() < n {
        let left = n - s.len();
        if mb && i % 5 == 1 && left >= 3 {
            s.push('€');
        } else if mb && i % 5 == 3 && left >= 2 {
            s.push('é');
        } else {
            s.push((b'a' + (i % 26) as u8) as char);
        }
        i += 1;
    }
    debug_assert_eq!(s.len(), n);
    s
}

fn cid_bytes(len: u8, seed: u8) -> Vec<u8> {
    gens::content(0xC1D0 + seed as u64, 0, len.min(20) as usize)
}

#[derive(Debug, Clone, Copy, Serialize, Deserialize, PartialEq)]
struct Addr {
    v6: bool,
    hi: u64,
    lo: u64,
    port: u16,
}

impl Addr {
    fn sock(&self) -> SocketAddr {
        if self.v6 {
            let ip = ((self.hi as u128) << 64) | self.lo as u128;
            SocketAddr::new(IpAddr::V6(Ipv6Addr::from(ip)), self.port)
        } else {
            SocketAddr::new(IpAddr::V4(Ipv4Addr::from(self.lo as u32)), self.port)
        }
    }
    /// port (16) then address, the layout `be_socket_addr` documents
    fn model(&self, out: &mut Vec<u8>) {
        out.extend_from_slice(&self.port.to_be_bytes());
        if self.v6 {
            out.extend_from_slice(&self.hi.to_be_bytes());
            out.extend_from_slice(&self.lo.to_be_bytes());
        } else {
            out.extend_from_slice(&(self.lo as u32).to_be_bytes());
        }
    }
    fn family(&self) -> Family {
        if self.v6 { Family::V6 } else { Family::V4 }
    }
}

// ---------------------------------------------------------------------------
// frame specifications (the serialisable case) and their construction
// ---------------------------------------------------------------------------

#[derive(Debug, Clone, Serialize, Deserialize, PartialEq)]
enum Fty {
    /// index into FTYPES
    Known(u16),
    /// `ErrorFrameType::Ext(v)`
    Ext(u64),
}

#[derive(Debug, Clone, Serialize, Deserialize, PartialEq)]
enum FSpec {
    Padding,
    Ping,
    Ack { largest: u64, delay: u64, first: u64, ranges: Vec<(u64, u64)>, ecn: Option<(u64, u64, u64)> },
    ResetStream { sid: u64, err: u64, fsize: u64 },
    StopSending { sid: u64, err: u64 },
    Crypto { off: u64, len: u32 },
    NewToken { len: u32 },
    Stream { sid: u64, off: u64, len: u32, has_len: bool, fin: bool },
    MaxData { v: u64 },
    MaxStreamData { sid: u64, v: u64 },
    MaxStreams { uni: bool, v: u64 },
    DataBlocked { v: u64 },
    StreamDataBlocked { sid: u64, v: u64 },
    StreamsBlocked { uni: bool, v: u64 },
    NewCid { seq: u64, retire: u64, cid_len: u8, seed: u8 },
    RetireCid { seq: u64 },
    PathChallenge { data: [u8; 8] },
    PathResponse { data: [u8; 8] },
    CloseQuic { kind: u16, fty: Fty, reason: u32, mb: bool },
    CloseApp { code: u64, reason: u32, mb: bool },
    HandshakeDone,
    Datagram { has_len: bool, len: u32 },
    AddAddress { seq: u32, addr: Addr, tire: u32, nat: u8 },
    RemoveAddress { seq: u64 },
    PunchMeNow { local: u32, remote: u32, addr: Addr, tire: u32, nat: u8 },
    PunchHello { local: u32, remote: u32, probe: u32 },
    PunchDone { local: u32, remote: u32, probe: u32 },
}

/// every frame type code known to the stack (RFC 9000 table 3, RFC 9221, extension)
const FTYPES: [u64; 40] = [
    0x00, 0x01, 0x02, 0x03, 0x04, 0x05, 0x06, 0x07, 0x08, 0x09, 0x0a, 0x0b, 0x0c, 0x0d, 0x0e, 0x0f,
    0x10, 0x11, 0x12, 0x13, 0x14, 0x15, 0x16, 0x17, 0x18, 0x19, 0x1a, 0x1b, 0x1c, 0x1d, 0x1e, 0x30,
    0x31, 0x3d7e90, 0x3d7e91, 0x3d7e92, 0x3d7e93, 0x3d7e94, 0x3d7e95, 0x3d7e96,
];

const NKINDS: u16 = 17 + 256;

/// RFC 9000 §20.1 transport error codes
fn error_kind(idx: u16) -> (ErrorKind, u64) {
    match idx {
        0 => (ErrorKind::None, 0x00),
        1 => (ErrorKind::Internal, 0x01),
        2 => (ErrorKind::ConnectionRefused, 0x02),
        3 => (ErrorKind::FlowControl, 0x03),
        4 => (ErrorKind::StreamLimit, 0x04),
        5 => (ErrorKind::StreamState, 0x05),
        6 => (ErrorKind::FinalSize, 0x06),
        7 => (ErrorKind::FrameEncoding, 0x07),
        8 => (ErrorKind::TransportParameter, 0x08),
        9 => (ErrorKind::ConnectionIdLimit, 0x09),
        10 => (ErrorKind::ProtocolViolation, 0x0a),
        11 => (ErrorKind::InvalidToken, 0x0b),
        12 => (ErrorKind::Application, 0x0c),
        13 => (ErrorKind::CryptoBufferExceeded, 0x0d),
        14 => (ErrorKind::KeyUpdate, 0x0e),
        15 => (ErrorKind::AeadLimitReached, 0x0f),
        16 => (ErrorKind::NoViablePath, 0x10),
        n => {
            let x = ((n - 17) & 0xff) as u8;
            (ErrorKind::Crypto(x), 0x0100 + x as u64)
        }
    }
}

fn nat_of(i: u8) -> (NatType, u64) {
    match i % 6 {
        0 => (NatType::Blocked, 0),
        1 => (NatType::FullCone, 1),
        2 => (NatType::RestrictedCone, 2),
        3 => (NatType::RestrictedPort, 3),
        4 => (NatType::Symmetric, 4),
        _ => (NatType::Dynamic, 5),
    }
}

/// "IH01" column of RFC 9000 table 3 (extension frames: 0-RTT and 1-RTT only)
fn pkts_of(spec: &FSpec) -> &'static str {
    match spec {
        FSpec::Padding | FSpec::Ping => "IH01",
        FSpec::Ack { .. } | FSpec::Crypto { .. } => "IH_1",
        FSpec::NewToken { .. } | FSpec::PathResponse { .. } | FSpec::HandshakeDone => "___1",
        FSpec::CloseQuic { .. } => "IH01",
        _ => "__01",
    }
}

struct PktTypes {
    all: Vec<Type>,
}

/// 0 Initial, 1 0-RTT, 2 Handshake, 3/4 1-RTT (spin 0/1), 5 Retry, 6 Version Negotiation
fn packet_types() -> PktTypes {
    PktTypes {
        all: vec![
            Type::Long(LongType::V1(Ver1::INITIAL)),
            Type::Long(LongType::V1(Ver1::ZERO_RTT)),
            Type::Long(LongType::V1(Ver1::HANDSHAKE)),
            Type::Short(OneRtt(SpinBit::Zero)),
            Type::Short(OneRtt(SpinBit::One)),
            Type::Long(LongType::V1(Ver1::RETRY)),
            Type::Long(LongType::VersionNegotiation),
        ],
    }
}

fn permitted(spec: &FSpec, pkt: usize) -> bool {
    let col = pkts_of(spec).as_bytes();
    match pkt {
        0 => col[0] == b'I',
        1 => col[2] == b'0',
        2 => col[1] == b'H',
        3 | 4 => col[3] == b'1',
        _ => false,
    }
}

struct Built {
    kind: &'static str,
    frame: Frame<Bytes>,
    /// bytes of payload that `encoding_size()` does not cover (STREAM/CRYPTO/DATAGRAM data)
    data_len: usize,
    model: Vec<u8>,
    /// frame extends to the end of the packet
    lenless: bool,
    nontrivial: bool,
}

fn big(vs: &[u64]) -> bool {
    vs.iter().any(|v| *v >= 64)
}

fn build(spec: &FSpec) -> Result<Built, Fail> {
    let mut m = Vec::new();
    let mut data_len = 0usize;
    let mut lenless = false;
    let (kind, frame, nontrivial): (&'static str, Frame<Bytes>, bool) = match spec {
        FSpec::Padding => {
            m.push(0x00);
            ("padding", Frame::Padding(PaddingFrame), false)
        }
        FSpec::Ping => {
            m.push(0x01);
            ("ping", Frame::Ping(PingFrame), false)
        }
        FSpec::Ack { largest, delay, first, ranges, ecn } => {
            m.push(if ecn.is_some() { 0x03 } else { 0x02 });
            mv(&mut m, *largest);
            mv(&mut m, *delay);
            mv(&mut m, ranges.len() as u64);
            mv(&mut m, *first);
            for (g, a) in ranges {
                mv(&mut m, *g);
                mv(&mut m, *a);
            }
            if let Some((a, b, c)) = ecn {
                mv(&mut m, *a);
                mv(&mut m, *b);
                mv(&mut m, *c);
            }
            let f = AckFrame::new(
                vi(*largest),
                vi(*delay),
                vi(*first),
                ranges.iter().map(|(g, a)| (vi(*g), vi(*a))).collect(),
                ecn.map(|(a, b, c)| EcnCounts::new(vi(a), vi(b), vi(c))),
            );
            let nt = ecn.is_some()
                || big(&[*largest, *delay, *first, ranges.len() as u64])
                || ranges.iter().any(|(g, a)| big(&[*g, *a]));
            ("ack", Frame::Ack(f), nt)
        }
        FSpec::ResetStream { sid, err, fsize } => {
            m.push(0x04);
            mv(&mut m, *sid);
            mv(&mut m, *err);
            mv(&mut m, *fsize);
            let f = ResetStreamFrame::new(sid_of(*sid), vi(*err), vi(*fsize));
            ("reset_stream", Frame::StreamCtl(StreamCtlFrame::ResetStream(f)), big(&[*sid, *err, *fsize]))
        }
        FSpec::StopSending { sid, err } => {
            m.push(0x05);
            mv(&mut m, *sid);
            mv(&mut m, *err);
            let f = StopSendingFrame::new(sid_of(*sid), vi(*err));
            ("stop_sending", Frame::StreamCtl(StreamCtlFrame::StopSending(f)), big(&[*sid, *err]))
        }
        FSpec::Crypto { off, len } => {
            let data = gens::content(0xC0, *off, *len as usize);
            m.push(0x06);
            mv(&mut m, *off);
            mv(&mut m, *len as u64);
            m.extend_from_slice(&data);
            data_len = data.len();
            let f = CryptoFrame::new(vi(*off), vi(*len as u64));
            ("crypto", Frame::Crypto(f, Bytes::from(data)), big(&[*off, *len as u64]))
        }
        FSpec::NewToken { len } => {
            let tok = gens::content(0x70, 0, *len as usize);
            m.push(0x07);
            mv(&mut m, *len as u64);
            m.extend_from_slice(&tok);
            ("new_token", Frame::NewToken(NewTokenFrame::new(tok)), *len >= 64)
        }
        FSpec::Stream { sid, off, len, has_len, fin } => {
            let data = gens::content(*sid ^ 0x55, *off, *len as usize);
            let mut ty = 0x08u8;
            if *off != 0 {
                ty |= 0x04;
            }
            if *has_len {
                ty |= 0x02;
            }
            if *fin {
                ty |= 0x01;
            }
            m.push(ty);
            mv(&mut m, *sid);
            if *off != 0 {
                mv(&mut m, *off);
            }
            if *has_len {
                mv(&mut m, *len as u64);
            }
            m.extend_from_slice(&data);
            data_len = data.len();
            lenless = !*has_len;
            let mut f = StreamFrame::new(sid_of(*sid), *off, *len as usize);
            f.set_eos_flag(*fin);
            f.set_len_bit(if *has_len { Len::Explicit } else { Len::Omit });
            ("stream", Frame::Stream(f, Bytes::from(data)), *fin || *has_len || *off != 0 || big(&[*sid, *len as u64]))
        }
        FSpec::MaxData { v } => {
            m.push(0x10);
            mv(&mut m, *v);
            ("max_data", Frame::MaxData(MaxDataFrame::new(vi(*v))), big(&[*v]))
        }
        FSpec::MaxStreamData { sid, v } => {
            m.push(0x11);
            mv(&mut m, *sid);
            mv(&mut m, *v);
            let f = MaxStreamDataFrame::new(sid_of(*sid), vi(*v));
            ("max_stream_data", Frame::StreamCtl(StreamCtlFrame::MaxStreamData(f)), big(&[*sid, *v]))
        }
        FSpec::MaxStreams { uni, v } => {
            m.push(if *uni { 0x13 } else { 0x12 });
            mv(&mut m, *v);
            let f = MaxStreamsFrame::with(if *uni { Dir::Uni } else { Dir::Bi }, vi(*v));
            ("max_streams", Frame::StreamCtl(StreamCtlFrame::MaxStreams(f)), *uni || big(&[*v]))
        }
        FSpec::DataBlocked { v } => {
            m.push(0x14);
            mv(&mut m, *v);
            ("data_blocked", Frame::DataBlocked(DataBlockedFrame::new(vi(*v))), big(&[*v]))
        }
        FSpec::StreamDataBlocked { sid, v } => {
            m.push(0x15);
            mv(&mut m, *sid);
            mv(&mut m, *v);
            let f = StreamDataBlockedFrame::new(sid_of(*sid), vi(*v));
            ("stream_data_blocked", Frame::StreamCtl(StreamCtlFrame::StreamDataBlocked(f)), big(&[*sid, *v]))
        }
        FSpec::StreamsBlocked { uni, v } => {
            m.push(if *uni { 0x17 } else { 0x16 });
            mv(&mut m, *v);
            let f = StreamsBlockedFrame::with(if *uni { Dir::Uni } else { Dir::Bi }, vi(*v));
            ("streams_blocked", Frame::StreamCtl(StreamCtlFrame::StreamsBlocked(f)), *uni || big(&[*v]))
        }
        FSpec::NewCid { seq, retire, cid_len, seed } => {
            let cid = cid_bytes((*cid_len).clamp(1, 20), *seed);
            let token = gens::content(0x7000 + *seed as u64, *seq, 16);
            m.push(0x18);
            mv(&mut m, *seq);
            mv(&mut m, *retire);
            m.push(cid.len() as u8);
            m.extend_from_slice(&cid);
            m.extend_from_slice(&token);
            // the public constructor draws a random reset token; to keep the case a pure
            // function of its description the value is obtained by decoding the reference
            // bytes, and the constructor is cross-checked field by field
            let raw = Bytes::from(m.clone());
            let one_rtt = Type::Short(OneRtt(SpinBit::Zero));
            let f = match guarded(|| Ok(be_frame(&raw, one_rtt)))? {
                Ok((_, Frame::NewConnectionId(f), _)) => f,
                other => fail!(
                    "decode-rejected:new_connection_id",
                    "reference NEW_CONNECTION_ID bytes {m:02x?} not decoded: {other:?}"
                ),
            };
            ensure_eq!(&f.reset_token()[..], &token[..], "roundtrip:new_connection_id", "reset token");
            let g = NewConnectionIdFrame::new(ConnectionId::from_slice(&cid), vi(*seq), vi(*retire));
            ensure!(
                g.sequence() == f.sequence()
                    && g.retire_prior_to() == f.retire_prior_to()
                    && g.connection_id() == f.connection_id()
                    && f.sequence() == *seq
                    && f.retire_prior_to() == *retire
                    && f.connection_id()[..] == cid[..],
                "roundtrip:new_connection_id",
                "constructor / decoder disagree: built {g:?}, decoded {f:?}"
            );
            ("new_connection_id", Frame::NewConnectionId(f), big(&[*seq, *retire]))
        }
        FSpec::RetireCid { seq } => {
            m.push(0x19);
            mv(&mut m, *seq);
            (
                "retire_connection_id",
                Frame::RetireConnectionId(RetireConnectionIdFrame::new(vi(*seq))),
                big(&[*seq]),
            )
        }
        FSpec::PathChallenge { data } => {
            m.push(0x1a);
            m.extend_from_slice(data);
            ("path_challenge", Frame::PathChallenge(PathChallengeFrame::from_slice(data)), false)
        }
        FSpec::PathResponse { data } => {
            m.push(0x1b);
            m.extend_from_slice(data);
            let f = PathResponseFrame::from(PathChallengeFrame::from_slice(data));
            ("path_response", Frame::PathResponse(f), false)
        }
        FSpec::CloseQuic { kind, fty, reason, mb } => {
            let (k, kcode) = error_kind(*kind % NKINDS);
            let (eft, fcode) = match fty {
                Fty::Known(i) => {
                    let code = FTYPES[*i as usize % FTYPES.len()];
                    let ft = FrameType::try_from(vi(code)).map_err(|e| {
                        Fail::new("frametype-code", format!("known frame type {code:#x} not recognised: {e:?}"))
                    })?;
                    (ErrorFrameType::V1(ft), code)
                }
                Fty::Ext(v) => (ErrorFrameType::Ext(vi(*v)), *v),
            };
            let r = reason_str(*reason as usize, *mb);
            m.push(0x1c);
            mv(&mut m, kcode);
            mv(&mut m, fcode);
            mv(&mut m, r.len() as u64);
            m.extend_from_slice(r.as_bytes());
            let nt = big(&[kcode, fcode, r.len() as u64]);
            ("close_quic", Frame::Close(ConnectionCloseFrame::new_quic(k, eft, r)), nt)
        }
        FSpec::CloseApp { code, reason, mb } => {
            let r = reason_str(*reason as usize, *mb);
            m.push(0x1d);
            mv(&mut m, *code);
            mv(&mut m, r.len() as u64);
            m.extend_from_slice(r.as_bytes());
            // the application variant is itself the non-default layer flag
            ("close_app", Frame::Close(ConnectionCloseFrame::new_app(vi(*code), r)), true)
        }
        FSpec::HandshakeDone => {
            m.push(0x1e);
            ("handshake_done", Frame::HandshakeDone(HandshakeDoneFrame), false)
        }
        FSpec::Datagram { has_len, len } => {
            let data = gens::content(0xDA, 0, *len as usize);
            m.push(if *has_len { 0x31 } else { 0x30 });
            if *has_len {
                mv(&mut m, *len as u64);
            }
            m.extend_from_slice(&data);
            data_len = data.len();
            lenless = !*has_len;
            let f = DatagramFrame::new(*has_len, vi(*len as u64));
            ("datagram", Frame::Datagram(f, Bytes::from(data)), *has_len || *len >= 64)
        }
        FSpec::AddAddress { seq, addr, tire, nat } => {
            let (n, ncode) = nat_of(*nat);
            mv(&mut m, 0x3d7e90 + addr.v6 as u64);
            mv(&mut m, *seq as u64);
            addr.model(&mut m);
            mv(&mut m, *tire as u64);
            mv(&mut m, ncode);
            let f = AddAddressFrame::new(*seq, addr.sock(), *tire, n);
            ("add_address", Frame::AddAddress(f), true)
        }
        FSpec::RemoveAddress { seq } => {
            mv(&mut m, 0x3d7e94);
            mv(&mut m, *seq);
            ("remove_address", Frame::RemoveAddress(RemoveAddressFrame { seq_num: vi(*seq) }), true)
        }
        FSpec::PunchMeNow { local, remote, addr, tire, nat } => {
            let (n, ncode) = nat_of(*nat);
            mv(&mut m, 0x3d7e92 + addr.v6 as u64);
            mv(&mut m, *local as u64);
            mv(&mut m, *remote as u64);
            addr.model(&mut m);
            mv(&mut m, *tire as u64);
            mv(&mut m, ncode);
            let f = PunchMeNowFrame::new(*local, *remote, addr.sock(), *tire, n);
            ("punch_me_now", Frame::PunchMeNow(f), true)
        }
        FSpec::PunchHello { local, remote, probe } => {
            mv(&mut m, 0x3d7e95);
            mv(&mut m, *local as u64);
            mv(&mut m, *remote as u64);
            mv(&mut m, *probe as u64);
            ("punch_hello", Frame::PunchHello(PunchHelloFrame::new(*local, *remote, *probe)), true)
        }
        FSpec::PunchDone { local, remote, probe } => {
            mv(&mut m, 0x3d7e96);
            mv(&mut m, *local as u64);
            mv(&mut m, *remote as u64);
            mv(&mut m, *probe as u64);
            ("punch_done", Frame::PunchDone(PunchDoneFrame::new(*local, *remote, *probe)), true)
        }
    };
    Ok(Built { kind, frame, data_len, model: m, lenless, nontrivial })
}


// ---------------------------------------------------------------------------
// hard-capacity packet target for Package::dump
// ---------------------------------------------------------------------------

/// `BufMut` with a hard capacity (like `PacketWriter`): writing past it panics.
struct Fixed {
    buf: Vec<u8>,
    len: usize,
}

impl Fixed {
    fn new(cap: usize) -> Self {
        Self { buf: vec![0xA5; cap], len: 0 }
    }
    fn written(&self) -> &[u8] {
        &self.buf[..self.len]
    }
}

unsafe impl BufMut for Fixed {
    fn remaining_mut(&self) -> usize {
        self.buf.len() - self.len
    }
    unsafe fn advance_mut(&mut self, cnt: usize) {
        if cnt > self.remaining_mut() {
            panic!("advance out of bounds: advancing by {cnt} with {} left", self.remaining_mut());
        }
        self.len += cnt;
    }
    fn chunk_mut(&mut self) -> &mut UninitSlice {
        let at = self.len;
        UninitSlice::new(&mut self.buf[at..])
    }
}

impl<D: ContinuousData> RecordFrame<Frame<D>, D> for Fixed {
    fn record_frame(&mut self, _frame: &Frame<D>) {}
}

/// Admit the frame through the same `Package` implementation real senders use.
/// `alt` selects the second available route (sum types `ReliableFrame` /
/// `StreamCtlFrame`, or the by-reference package) where one exists.
fn dump_frame(f: &Frame<Bytes>, alt: bool, t: &mut Fixed) -> Result<PacketContent, Signals> {
    fn d<P: Package<Fixed>>(mut p: P, t: &mut Fixed) -> Result<PacketContent, Signals> {
        p.dump(t)
    }
    match f.clone() {
        Frame::Padding(x) => if alt { d(&x, t) } else { d(x, t) },
        Frame::Ping(x) => if alt { d(&x, t) } else { d(x, t) },
        Frame::Ack(x) => if alt { d(&x, t) } else { d(x, t) },
        Frame::Close(x) => if alt { d(&x, t) } else { d(x, t) },
        Frame::NewToken(x) => if alt { d(ReliableFrame::NewToken(x), t) } else { d(x, t) },
        Frame::MaxData(x) => if alt { d(ReliableFrame::MaxData(x), t) } else { d(x, t) },
        Frame::DataBlocked(x) => if alt { d(ReliableFrame::DataBlocked(x), t) } else { d(x, t) },
        Frame::HandshakeDone(x) => if alt { d(ReliableFrame::HandshakeDone(x), t) } else { d(x, t) },
        Frame::PunchDone(x) => if alt { d(ReliableFrame::PunchDone(x), t) } else { d(x, t) },
        Frame::NewConnectionId(x) => {
            let r = ReliableFrame::NewConnectionId(x);
            if alt { d(&r, t) } else { d(r, t) }
        }
        Frame::RetireConnectionId(x) => {
            let r = ReliableFrame::RetireConnectionId(x);
            if alt { d(&r, t) } else { d(r, t) }
        }
        Frame::AddAddress(x) => {
            let r = ReliableFrame::AddAddress(x);
            if alt { d(&r, t) } else { d(r, t) }
        }
        Frame::RemoveAddress(x) => {
            let r = ReliableFrame::RemoveAddress(x);
            if alt { d(&r, t) } else { d(r, t) }
        }
        Frame::PunchMeNow(x) => {
            let r = ReliableFrame::PunchMeNow(x);
            if alt { d(&r, t) } else { d(r, t) }
        }
        Frame::PathChallenge(x) => if alt { d(&x, t) } else { d(x, t) },
        Frame::PathResponse(x) => if alt { d(&x, t) } else { d(x, t) },
        Frame::PunchHello(x) => if alt { d(&x, t) } else { d(x, t) },
        Frame::StreamCtl(x) => if alt { d(ReliableFrame::StreamCtl(x), t) } else { d(x, t) },
        Frame::Stream(h, data) => {
            let p = (h, data);
            if alt { d(&p, t) } else { d(p, t) }
        }
        Frame::Crypto(h, data) => {
            let p = (h, data);
            if alt { d(&p, t) } else { d(p, t) }
        }
        Frame::Datagram(h, data) => {
            let p = (h, data);
            if alt { d(&p, t) } else { d(p, t) }
        }
    }
}

// ---------------------------------------------------------------------------
// known divergences of the unmodified tree: narrow signatures
// ---------------------------------------------------------------------------

const SIG_NEWTOKEN: &str = "newtoken-size-ge64";
const SIG_QCLOSE_EXT: &str = "quicclose-size-ext-frametype";
const SIG_ACLOSE_MAX: &str = "appclose-maxsize-reason-ge16384";
const SIG_CRYPTO_2P61: &str = "crypto-offset-ge-2pow61-rejected";
const SIG_MAXSTREAMS_2P60: &str = "maxstreams-2pow60-rejected";
const SIG_QCLOSE_EXTVAL: &str = "quicclose-ext-frametype-no-roundtrip";

/// the frame-type code a QUIC-layer close carries (for the size divergence class)
fn close_fty_code(spec: &FSpec) -> Option<u64> {
    match spec {
        FSpec::CloseQuic { fty: Fty::Known(i), .. } => Some(FTYPES[*i as usize % FTYPES.len()]),
        FSpec::CloseQuic { fty: Fty::Ext(v), .. } => Some(*v),
        _ => None,
    }
}

/// Signature for a declared-size mismatch: the two confirmed defect classes get
/// their own names (only when the mismatch is exactly the one the defect explains).
fn size_sig(spec: &FSpec, kind: &str, written: usize, declared: usize) -> String {
    match spec {
        FSpec::NewToken { len } if *len >= 64 && written == declared + vlen(*len as u64) - 1 => {
            SIG_NEWTOKEN.into()
        }
        FSpec::CloseQuic { .. } => {
            let code = close_fty_code(spec).unwrap();
            if code >= 64 && written == declared + vlen(code) - 1 {
                SIG_QCLOSE_EXT.into()
            } else {
                format!("size-declared:{kind}")
            }
        }
        _ => format!("size-declared:{kind}"),
    }
}

fn max_sig(spec: &FSpec, kind: &str, written: usize, maxdecl: usize) -> String {
    match spec {
        FSpec::NewToken { len } if *len >= 64 && written == maxdecl + vlen(*len as u64) - 1 => {
            SIG_NEWTOKEN.into()
        }
        FSpec::CloseApp { code, reason, .. }
            if *reason >= 16384 && vlen(*code) == 8 && written == maxdecl + 2 =>
        {
            SIG_ACLOSE_MAX.into()
        }
        _ => format!("size-max:{kind}"),
    }
}

/// Signature for "decoder refuses / alters what the encoder wrote".
fn decode_sig(spec: &FSpec, kind: &str, what: &str) -> String {
    match spec {
        FSpec::Crypto { off, .. } if *off >= 1 << 61 => SIG_CRYPTO_2P61.into(),
        FSpec::MaxStreams { v, .. } if *v == 1 << 60 => SIG_MAXSTREAMS_2P60.into(),
        FSpec::CloseQuic { fty: Fty::Ext(_), .. } => SIG_QCLOSE_EXTVAL.into(),
        _ => format!("{what}:{kind}"),
    }
}

fn is_known_sig(s: &str) -> bool {
    [SIG_NEWTOKEN, SIG_QCLOSE_EXT, SIG_ACLOSE_MAX, SIG_CRYPTO_2P61, SIG_MAXSTREAMS_2P60, SIG_QCLOSE_EXTVAL]
        .contains(&s)
}

/// A divergence that belongs to one of the confirmed classes is remembered and
/// the case continues (everything else is still checked, with the true size);
/// anything else ends the case at once. The remembered failure is returned at
/// the end of the case, so it is a violation unless listed in known-findings.
fn note(deferred: &mut Vec<Fail>, sig: String, msg: String) -> Outcome {
    if is_known_sig(&sig) {
        deferred.push(Fail::new(sig, msg));
        Ok(())
    } else {
        Err(Fail::new(sig, msg))
    }
}

fn finish_case(ctx: &mut CaseCtx, mut deferred: Vec<Fail>) -> Outcome {
    if deferred.is_empty() {
        return Ok(());
    }
    let first = deferred.remove(0);
    // the remaining distinct classes met in this case are reported as tolerated hits
    for f in deferred {
        if f.signature != first.signature {
            ctx.known.push(f);
        }
    }
    Err(first)
}

// ---------------------------------------------------------------------------
// the frame oracle
// ---------------------------------------------------------------------------

#[derive(Debug, Clone, Serialize, Deserialize)]
struct FrameCase {
    spec: FSpec,
    /// bytes of unrelated data following the frame in the packet
    garbage: u8,
    /// use the alternative Package route
    alt: bool,
}

fn hex(b: &[u8]) -> String {
    let mut s = String::new();
    for x in b.iter().take(48) {
        s.push_str(&format!("{x:02x}"));
    }
    if b.len() > 48 {
        s.push_str(&format!("…({} bytes)", b.len()));
    }
    s
}

fn encode(f: &Frame<Bytes>) -> Result<Vec<u8>, Fail> {
    guarded(|| {
        let mut enc = BytesMut::new();
        enc.put_frame(f);
        Ok(enc.to_vec())
    })
}

fn check_frame(case: &FrameCase, ctx: &mut CaseCtx, deferred: &mut Vec<Fail>) -> Outcome {
    let spec = &case.spec;
    let b = build(spec)?;
    let (f, kind) = (&b.frame, b.kind);
    ctx.class(kind);
    if b.nontrivial {
        ctx.nontrivial();
    }
    if b.lenless {
        ctx.class("extends-to-end-of-packet");
    }
    if b.model.len() >= 16384 {
        ctx.class("bytes>=16384");
    } else if b.model.len() >= 64 {
        ctx.class("bytes>=64");
    }
    if let FSpec::Ack { ranges, .. } = spec {
        if ranges.len() >= 64 {
            ctx.class("ack-ranges>=64");
        }
    }

    // ---- bytes written vs reference bytes
    let enc = encode(f).map_err(|e| Fail::new(format!("encode-panic:{kind}"), e.msg))?;
    let written = enc.len();
    ensure!(
        enc == b.model,
        format!("bytes:{kind}"),
        "{spec:?}: wrote {} expected {}",
        hex(&enc),
        hex(&b.model)
    );

    // ---- declared sizes
    let declared = f.encoding_size() + b.data_len;
    let maxdecl = f.max_encoding_size() + b.data_len;
    if written != declared {
        note(
            deferred,
            size_sig(spec, kind, written, declared),
            format!("{}: wrote {written} bytes, encoding_size() announced {declared}", short(spec)),
        )?;
    }
    if written > maxdecl {
        note(
            deferred,
            max_sig(spec, kind, written, maxdecl),
            format!("{}: wrote {written} bytes, max_encoding_size() announced {maxdecl}", short(spec)),
        )?;
    }
    ensure_eq!(f.frame_type(), frame_type_of(&enc)?, format!("frametype:{kind}"), "frame_type() vs first varint written");

    // ---- the sum types must agree with the frame they wrap
    if let Ok(r) = ReliableFrame::try_from(f) {
        ensure!(
            r.encoding_size() == f.encoding_size()
                && r.max_encoding_size() == f.max_encoding_size()
                && r.frame_type() == f.frame_type(),
            format!("sumtype:{kind}"),
            "ReliableFrame disagrees with the wrapped frame"
        );
        let mut e2 = BytesMut::new();
        e2.put_frame(&r);
        ensure!(e2[..] == enc[..], format!("sumtype:{kind}"), "ReliableFrame wrote different bytes");
    }

    // ---- writing into a larger area leaves everything behind the frame untouched
    {
        let mut area = vec![0x5Au8; written + 9];
        let left = {
            let mut s: &mut [u8] = &mut area[..];
            s.put_frame(f);
            s.len()
        };
        ensure_eq!(left, 9, format!("advance:{kind}"), "bytes left in a slice of written+9");
        ensure!(
            area[..written] == enc[..] && area[written..].iter().all(|x| *x == 0x5A),
            format!("trailing-touched:{kind}"),
            "bytes behind the frame were modified"
        );
    }

    // ---- decode in every packet type
    let types = packet_types();
    let garbage: Vec<u8> = if b.lenless { vec![] } else { (0..case.garbage).map(|i| 0xF0 | (i & 7)).collect() };
    let mut wire = enc.clone();
    wire.extend_from_slice(&garbage);
    let raw = Bytes::from(wire);
    for (pi, ty) in types.all.iter().enumerate() {
        let ok = permitted(spec, pi);
        ensure_eq!(f.belongs_to(*ty), ok, format!("belongs-to:{kind}"), "belongs_to({ty:?})");
        let r = guarded(|| Ok(be_frame(&raw, *ty)))
            .map_err(|e| Fail::new(format!("decode-panic:{kind}"), e.msg))?;
        match (ok, r) {
            (false, Err(FrameError::WrongType(ft, t))) => {
                ensure!(
                    ft == f.frame_type() && t == *ty,
                    format!("wrongtype:{kind}"),
                    "WrongType({ft:?},{t:?}) for {:?} in {ty:?}",
                    f.frame_type()
                );
            }
            (false, other) => fail!(
                format!("wrongtype:{kind}"),
                "{} in {ty:?}: expected WrongType, got {other:?}",
                short(spec)
            ),
            (true, Ok((consumed, g, gty))) => {
                ensure_eq!(consumed, written, format!("consumed:{kind}"), "{} in {ty:?}: bytes consumed", short(spec));
                if g != *f {
                    note(
                        deferred,
                        decode_sig(spec, kind, "roundtrip"),
                        format!("{} in {ty:?}: decoded {} != encoded {}", short(spec), dbg_short(&g), dbg_short(f)),
                    )?;
                }
                ensure_eq!(gty, f.frame_type(), format!("frametype:{kind}"), "decoded frame type in {ty:?}");
            }
            (true, Err(e)) => note(
                deferred,
                decode_sig(spec, kind, "decode-rejected"),
                format!("{} in {ty:?}: own encoding {} rejected: {e:?}", short(spec), hex(&enc)),
            )?,
        }
    }

    // ---- admission by size (Package::dump) into hard-capacity targets
    let hdr_true = written - b.data_len;
    let hdr_declared = f.encoding_size();
    let mut sizes: Vec<usize> = if written <= 40 {
        (0..=written + 1).collect()
    } else {
        let mut v = vec![0, 1, 2, hdr_declared.saturating_sub(1), hdr_declared, hdr_true.saturating_sub(1), hdr_true];
        v.extend([written - 2, written - 1, written, written + 1, maxdecl, maxdecl + 1, declared]);
        v
    };
    sizes.sort_unstable();
    sizes.dedup();
    for s in sizes {
        // data frames: between "header fits" and "header+data fits" the caller, not
        // dump, is responsible (try_load_data_into sizes the data first)
        if b.data_len > 0 && s >= hdr_declared.min(hdr_true) && s < written {
            continue;
        }
        let mut t = Fixed::new(s);
        let r = guarded(|| Ok(dump_frame(f, case.alt, &mut t)));
        let must_fit = s >= written;
        match r {
            Err(p) => {
                // admitted by the announced size, then the write ran past the target
                let a = size_sig(spec, kind, written, declared);
                let m = max_sig(spec, kind, written, maxdecl);
                let sig = if s < written && s >= declared && is_known_sig(&a) {
                    a
                } else if s < written && s >= maxdecl && is_known_sig(&m) {
                    m
                } else {
                    format!("dump-panic:{kind}")
                };
                note(deferred, sig, format!("{}: dump into {s} bytes panicked ({})", short(spec), p.msg))?;
            }
            Ok(Ok(_)) => {
                ensure!(
                    s >= written,
                    format!("dump-admitted-too-small:{kind}"),
                    "{}: admitted into {s} bytes, needs {written}",
                    short(spec)
                );
                ensure!(
                    t.written() == &enc[..],
                    format!("dump-bytes:{kind}"),
                    "{}: dump into {s} bytes wrote {} expected {}",
                    short(spec),
                    hex(t.written()),
                    hex(&enc)
                );
                ensure!(
                    t.buf[t.len..].iter().all(|x| *x == 0xA5),
                    format!("trailing-touched:{kind}"),
                    "dump modified bytes behind the frame"
                );
            }
            Ok(Err(sig)) => {
                ensure!(
                    !must_fit,
                    format!("dump-refused:{kind}"),
                    "{}: refused ({sig:?}) although {s} >= {written} bytes are free",
                    short(spec)
                );
                ensure_eq!(t.len, 0, format!("dump-refused-wrote:{kind}"), "bytes written by a refused dump");
                ensure_eq!(sig, Signals::CONGESTION, format!("dump-signal:{kind}"), "signal of a refused dump");
            }
        }
    }
    Ok(())
}

fn frame_type_of(enc: &[u8]) -> Result<FrameType, Fail> {
    let (_, code) = be_varint(enc).map_err(|e| Fail::new("harness", format!("first varint: {e:?}")))?;
    FrameType::try_from(code).map_err(|e| Fail::new("frametype-code", format!("{e:?}")))
}

fn short(spec: &FSpec) -> String {
    vcore::truncate(&format!("{spec:?}"), 200)
}

fn dbg_short(f: &Frame<Bytes>) -> String {
    vcore::truncate(&format!("{f:?}"), 240)
}

fn run_frame(case: &FrameCase, ctx: &mut CaseCtx) -> Outcome {
    let mut deferred = vec![];
    check_frame(case, ctx, &mut deferred)?;
    finish_case(ctx, deferred)
}

// ---------------------------------------------------------------------------
// generators for frame specifications
// ---------------------------------------------------------------------------

const BOUNDS8: [u64; 8] = [0, 63, 64, 16383, 16384, (1 << 30) - 1, 1 << 30, VMAX];
const BOUNDS32: [u32; 8] = [0, 63, 64, 16383, 16384, (1 << 30) - 1, 1 << 30, u32::MAX];
const BLENS: [u32; 6] = [0, 1, 63, 64, 16383, 16384];

fn vint() -> BoxedStrategy<u64> {
    gens::varint()
}

fn u32v() -> BoxedStrategy<u32> {
    prop_oneof![
        3 => proptest::sample::select(BOUNDS32.to_vec()),
        2 => 0u32..64,
        2 => 64u32..16384,
        2 => 16384u32..(1 << 30),
        2 => (1u32 << 30)..=u32::MAX,
    ]
    .boxed()
}

/// length of a byte field: the property's boundary set, small, or anything up to `max`
fn blen(max: u32) -> BoxedStrategy<u32> {
    let b: Vec<u32> = [0u32, 1, 2, 62, 63, 64, 65, 16382, 16383, 16384, 16385]
        .into_iter()
        .filter(|x| *x <= max)
        .collect();
    prop_oneof![
        3 => proptest::sample::select(b),
        4 => 0..=max.min(70),
        2 => 0..=max.min(1500),
        1 => 0..=max,
    ]
    .boxed()
}

fn addr() -> BoxedStrategy<Addr> {
    (any::<bool>(), any::<u64>(), any::<u64>(), prop_oneof![Just(0u16), Just(443), Just(u16::MAX), any::<u16>()])
        .prop_map(|(v6, hi, lo, port)| Addr {
            v6,
            hi: if v6 { hi } else { 0 },
            lo: if v6 { lo } else { lo & 0xffff_ffff },
            port,
        })
        .boxed()
}

/// `quirks`: also generate the value classes whose decode is known to diverge
/// on the unmodified tree (each has its own signature)
fn fspec(kind: usize, quirks: bool) -> BoxedStrategy<FSpec> {
    match kind {
        0 => Just(FSpec::Padding).boxed(),
        1 => Just(FSpec::Ping).boxed(),
        2 => {
            let ranges = prop_oneof![
                5 => proptest::collection::vec((vint(), vint()), 0..=3),
                3 => proptest::collection::vec((0u64..70, 0u64..70), 0..=40),
                1 => proptest::collection::vec((vint(), 0u64..3), 62..=66),
            ];
            (vint(), vint(), vint(), ranges, proptest::option::of((vint(), vint(), vint())))
                .prop_map(|(largest, delay, first, ranges, ecn)| FSpec::Ack { largest, delay, first, ranges, ecn })
                .boxed()
        }
        3 => (vint(), vint(), vint()).prop_map(|(sid, err, fsize)| FSpec::ResetStream { sid, err, fsize }).boxed(),
        4 => (vint(), vint()).prop_map(|(sid, err)| FSpec::StopSending { sid, err }).boxed(),
        5 => (vint(), blen(17000))
            .prop_map(move |(off, len)| {
                let mut off = off.min(VMAX - len as u64);
                if !quirks {
                    off = off.min((1 << 61) - 1);
                }
                FSpec::Crypto { off, len }
            })
            .boxed(),
        6 => blen(17000).prop_map(|len| FSpec::NewToken { len }).boxed(),
        7 => (vint(), prop_oneof![1 => Just(0u64), 3 => vint()], blen(17000), any::<bool>(), any::<bool>())
            .prop_map(|(sid, off, len, has_len, fin)| FSpec::Stream {
                sid,
                off: off.min(VMAX - len as u64),
                len,
                has_len,
                fin,
            })
            .boxed(),
        8 => vint().prop_map(|v| FSpec::MaxData { v }).boxed(),
        9 => (vint(), vint()).prop_map(|(sid, v)| FSpec::MaxStreamData { sid, v }).boxed(),
        10 => (any::<bool>(), vint(), 0u8..16)
            .prop_map(move |(uni, v, edge)| {
                // values above 2^60 are specified to be rejected (RFC 9000 §19.11): outside the domain
                let top = if quirks { 1u64 << 60 } else { (1 << 60) - 1 };
                let v = match edge {
                    0 => top,
                    1 => (1 << 60) - 1,
                    _ => v.min(top),
                };
                FSpec::MaxStreams { uni, v }
            })
            .boxed(),
        11 => vint().prop_map(|v| FSpec::DataBlocked { v }).boxed(),
        12 => (vint(), vint()).prop_map(|(sid, v)| FSpec::StreamDataBlocked { sid, v }).boxed(),
        // values above 2^60 are specified to be rejected (RFC 9000 §19.14): outside the domain
        13 => (any::<bool>(), vint()).prop_map(|(uni, v)| FSpec::StreamsBlocked { uni, v: v.min(1 << 60) }).boxed(),
        14 => (vint(), any::<u16>(), 1u8..=20, any::<u8>())
            .prop_map(|(seq, r, cid_len, seed)| FSpec::NewCid {
                seq,
                // retire_prior_to <= sequence: the others are specified to be rejected
                retire: match r % 4 {
                    0 => 0,
                    1 => seq,
                    _ => gens::upto(r, seq),
                },
                cid_len,
                seed,
            })
            .boxed(),
        15 => vint().prop_map(|seq| FSpec::RetireCid { seq }).boxed(),
        16 => any::<[u8; 8]>().prop_map(|data| FSpec::PathChallenge { data }).boxed(),
        17 => any::<[u8; 8]>().prop_map(|data| FSpec::PathResponse { data }).boxed(),
        18 => {
            let fty = if quirks {
                prop_oneof![
                    12 => (0u16..FTYPES.len() as u16).prop_map(Fty::Known),
                    1 => vint().prop_map(Fty::Ext),
                ]
                .boxed()
            } else {
                (0u16..FTYPES.len() as u16).prop_map(Fty::Known).boxed()
            };
            (prop_oneof![2 => 0u16..17, 1 => 17u16..NKINDS], fty, blen(17000), any::<bool>())
                .prop_map(|(kind, fty, reason, mb)| FSpec::CloseQuic { kind, fty, reason, mb })
                .boxed()
        }
        19 => (vint(), blen(17000), any::<bool>())
            .prop_map(|(code, reason, mb)| FSpec::CloseApp { code, reason, mb })
            .boxed(),
        20 => Just(FSpec::HandshakeDone).boxed(),
        21 => (any::<bool>(), blen(17000)).prop_map(|(has_len, len)| FSpec::Datagram { has_len, len }).boxed(),
        22 => (u32v(), addr(), u32v(), 0u8..6)
            .prop_map(|(seq, addr, tire, nat)| FSpec::AddAddress { seq, addr, tire, nat })
            .boxed(),
        23 => vint().prop_map(|seq| FSpec::RemoveAddress { seq }).boxed(),
        24 => (u32v(), u32v(), addr(), u32v(), 0u8..6)
            .prop_map(|(local, remote, addr, tire, nat)| FSpec::PunchMeNow { local, remote, addr, tire, nat })
            .boxed(),
        25 => (u32v(), u32v(), u32v())
            .prop_map(|(local, remote, probe)| FSpec::PunchHello { local, remote, probe })
            .boxed(),
        _ => (u32v(), u32v(), u32v())
            .prop_map(|(local, remote, probe)| FSpec::PunchDone { local, remote, probe })
            .boxed(),
    }
}

fn any_fspec(quirks: bool) -> BoxedStrategy<FSpec> {
    // one arm per frame kind; richer kinds get more weight
    let w = |k: usize| -> u32 {
        match k {
            0 | 1 | 20 => 1,
            2 | 7 | 18 => 8,
            5 | 6 | 19 | 21 | 14 => 5,
            _ => 3,
        }
    };
    let arms: Vec<(u32, BoxedStrategy<FSpec>)> = (0..27).map(|k| (w(k), fspec(k, quirks))).collect();
    proptest::strategy::Union::new_weighted(arms).boxed()
}

fn frame_case() -> BoxedStrategy<FrameCase> {
    (any_fspec(true), 0u8..8, any::<bool>())
        .prop_map(|(spec, garbage, alt)| FrameCase { spec, garbage, alt })
        .boxed()
}

// ---------------------------------------------------------------------------
// concatenation: N encodings decode to the N values (and stop with WrongType at
// the first frame the packet type does not permit)
// ---------------------------------------------------------------------------

#[derive(Debug, Clone, Serialize, Deserialize)]
struct SeqCase {
    frames: Vec<FSpec>,
}

fn seq_case() -> BoxedStrategy<SeqCase> {
    proptest::collection::vec(any_fspec(false), 1..=12)
        .prop_map(|mut frames| {
            // a frame without length field can only be the last one of a packet
            let n = frames.len();
            for (i, f) in frames.iter_mut().enumerate() {
                if i + 1 < n {
                    match f {
                        FSpec::Stream { has_len, .. } | FSpec::Datagram { has_len, .. } => *has_len = true,
                        _ => {}
                    }
                }
            }
            SeqCase { frames }
        })
        .boxed()
}

fn run_seq(case: &SeqCase, ctx: &mut CaseCtx) -> Outcome {
    let mut built = vec![];
    let mut wire = vec![];
    let mut nontrivial = 0;
    for (i, s) in case.frames.iter().enumerate() {
        let b = build(s)?;
        ensure!(
            !b.lenless || i + 1 == case.frames.len(),
            "harness",
            "length-less frame in the middle of a sequence"
        );
        let enc = encode(&b.frame)?;
        ensure!(enc == b.model, format!("bytes:{}", b.kind), "{s:?}: wrote {} expected {}", hex(&enc), hex(&b.model));
        wire.extend_from_slice(&enc);
        nontrivial += b.nontrivial as usize;
        built.push(b);
    }
    let raw = Bytes::from(wire);
    let types = packet_types();
    let mut full = 0;
    for (pi, ty) in types.all.iter().enumerate().take(5) {
        let stop = case.frames.iter().position(|s| !permitted(s, pi));
        let got: Vec<Result<(Frame, FrameType), FrameError>> = guarded(|| {
            let mut out = vec![];
            for item in FrameReader::new(raw.clone(), *ty) {
                let bad = item.is_err();
                out.push(item);
                if bad || out.len() > case.frames.len() + 1 {
                    break;
                }
            }
            Ok(out)
        })
        .map_err(|e| Fail::new("concat-panic", e.msg))?;
        let want = stop.unwrap_or(case.frames.len());
        for (i, b) in built.iter().enumerate().take(want) {
            match got.get(i) {
                Some(Ok((g, gty))) => {
                    ensure!(
                        g == &b.frame && *gty == b.frame.frame_type(),
                        "concat-value",
                        "{ty:?}: frame {i} decoded {} expected {}",
                        dbg_short(g),
                        dbg_short(&b.frame)
                    );
                }
                other => fail!(
                    "concat-value",
                    "{ty:?}: frame {i} ({}) of {}: {other:?}",
                    b.kind,
                    case.frames.len()
                ),
            }
        }
        match stop {
            None => {
                ensure_eq!(got.len(), want, "concat-count", "{ty:?}: number of frames read");
                full += 1;
            }
            Some(k) => {
                let fty = built[k].frame.frame_type();
                ensure!(
                    got.len() == k + 1 && got[k] == Err(FrameError::WrongType(fty, *ty)),
                    "concat-wrongtype",
                    "{ty:?}: frame {k} ({}) must stop the reader with WrongType, got {:?}",
                    built[k].kind,
                    got.get(k)
                );
            }
        }
    }
    ctx.class(format!("seq-len<={}", (case.frames.len().div_ceil(4)) * 4));
    ctx.class(format!("fully-decoded-in-{full}-types"));
    if case.frames.len() >= 2 && nontrivial >= 1 && full >= 1 {
        ctx.nontrivial();
    }
    Ok(())
}

// ---------------------------------------------------------------------------
// exhaustive: frame kind × flag combination × varint width boundary per field
// ---------------------------------------------------------------------------

fn product(lists: &[&[u64]], f: &mut dyn FnMut(&[u64])) {
    fn rec(lists: &[&[u64]], cur: &mut Vec<u64>, f: &mut dyn FnMut(&[u64])) {
        if cur.len() == lists.len() {
            f(cur);
            return;
        }
        for v in lists[cur.len()] {
            cur.push(*v);
            rec(lists, cur, f);
            cur.pop();
        }
    }
    rec(lists, &mut vec![], f);
}

fn enumerate_frames(deep: bool, emit: &mut dyn FnMut(FSpec)) {
    let b8: &[u64] = &BOUNDS8;
    let lo4: &[u64] = &[0, 64, 16384, 1 << 30];
    let hi4: &[u64] = &[63, 16383, (1 << 30) - 1, VMAX];
    let b32: Vec<u64> = BOUNDS32.iter().map(|x| *x as u64).collect();
    let w32: &[u64] = if deep { &b32 } else { &[0, 16383, 1 << 30, u32::MAX as u64] };
    let bools: &[u64] = &[0, 1];
    emit(FSpec::Padding);
    emit(FSpec::Ping);
    emit(FSpec::HandshakeDone);
    // ACK: fixed fields × {0,1,2 ranges} × {no ECN, ECN}
    let fixed: [&[u64]; 3] = if deep { [b8, b8, b8] } else { [hi4, lo4, hi4] };
    product(&fixed, &mut |x| {
        let mut range_sets: Vec<Vec<(u64, u64)>> = vec![vec![]];
        for g in lo4 {
            for a in hi4 {
                range_sets.push(vec![(*g, *a)]);
                range_sets.push(vec![(*a, *g), (*g, *a)]);
            }
        }
        let mut ecns: Vec<Option<(u64, u64, u64)>> = vec![None];
        if deep {
            product(&[hi4, lo4, hi4], &mut |e| ecns.push(Some((e[0], e[1], e[2]))));
        } else {
            for i in 0..4 {
                ecns.push(Some((hi4[i], lo4[(i + 1) % 4], hi4[(i + 2) % 4])));
            }
        }
        for ranges in &range_sets {
            for ecn in &ecns {
                emit(FSpec::Ack { largest: x[0], delay: x[1], first: x[2], ranges: ranges.clone(), ecn: *ecn });
            }
        }
    });
    product(&[b8, b8, b8], &mut |x| emit(FSpec::ResetStream { sid: x[0], err: x[1], fsize: x[2] }));
    product(&[b8, b8], &mut |x| {
        emit(FSpec::StopSending { sid: x[0], err: x[1] });
        emit(FSpec::MaxStreamData { sid: x[0], v: x[1] });
        emit(FSpec::StreamDataBlocked { sid: x[0], v: x[1] });
    });
    for v in b8 {
        emit(FSpec::MaxData { v: *v });
        emit(FSpec::DataBlocked { v: *v });
        emit(FSpec::RetireCid { seq: *v });
        emit(FSpec::RemoveAddress { seq: *v });
        for uni in [false, true] {
            emit(FSpec::StreamsBlocked { uni, v: (*v).min(1 << 60) });
        }
    }
    for v in [0, 63, 64, 16383, 16384, (1 << 30) - 1, 1 << 30, (1 << 60) - 1, 1 << 60] {
        for uni in [false, true] {
            emit(FSpec::MaxStreams { uni, v });
        }
    }
    for len in BLENS.iter().chain([65u32, 16385].iter()) {
        emit(FSpec::NewToken { len: *len });
        for has_len in [false, true] {
            emit(FSpec::Datagram { has_len, len: *len });
        }
        for off in [0, 63, 64, 16383, 16384, (1 << 30) - 1, 1 << 30, (1 << 61) - 1, 1 << 61, VMAX] {
            emit(FSpec::Crypto { off: off.min(VMAX - *len as u64), len: *len });
        }
    }
    product(&[b8, b8, bools, bools], &mut |x| {
        for len in BLENS {
            emit(FSpec::Stream {
                sid: x[0],
                off: x[1].min(VMAX - len as u64),
                len,
                has_len: x[2] == 1,
                fin: x[3] == 1,
            });
        }
    });
    for seq in b8 {
        for retire in [0, *seq / 2, *seq] {
            for cid_len in 1..=20u8 {
                emit(FSpec::NewCid { seq: *seq, retire, cid_len, seed: cid_len });
            }
        }
    }
    for data in [[0u8; 8], [0xff; 8], [1, 2, 3, 4, 5, 6, 7, 8]] {
        emit(FSpec::PathChallenge { data });
        emit(FSpec::PathResponse { data });
    }
    let kinds: Vec<u16> = (0..17).chain([17, 17 + 63, 17 + 64, 17 + 255]).collect();
    for kind in &kinds {
        for fi in 0..FTYPES.len() as u16 {
            for (reason, mb) in [(0, false), (1, false), (63, true), (64, false), (16383, false), (16384, true)] {
                if !deep && reason >= 16383 && *kind % 4 != 0 {
                    continue;
                }
                emit(FSpec::CloseQuic { kind: *kind, fty: Fty::Known(fi), reason, mb });
            }
        }
    }
    for v in [0x1f, 0x40, 0x3d7e97, VMAX] {
        emit(FSpec::CloseQuic { kind: 10, fty: Fty::Ext(v), reason: 3, mb: false });
    }
    for code in b8 {
        for reason in BLENS {
            for mb in [false, true] {
                emit(FSpec::CloseApp { code: *code, reason, mb });
            }
        }
    }
    let addrs = [
        Addr { v6: false, hi: 0, lo: 0x7f00_0001, port: 443 },
        Addr { v6: false, hi: 0, lo: 0xffff_ffff, port: 0 },
        Addr { v6: true, hi: 0x2001_0db8_0000_0000, lo: 1, port: 65535 },
        Addr { v6: true, hi: 0, lo: 0xffff_7f00_0001, port: 1 },
    ];
    for a in addrs {
        for nat in 0..6u8 {
            product(&[w32, w32], &mut |x| {
                emit(FSpec::AddAddress { seq: x[0] as u32, addr: a, tire: x[1] as u32, nat });
            });
            product(&[w32, w32, w32], &mut |x| {
                if deep || nat == (x[0] % 6) as u8 {
                    emit(FSpec::PunchMeNow { local: x[0] as u32, remote: x[1] as u32, addr: a, tire: x[2] as u32, nat });
                }
            });
        }
    }
    product(&[&b32, &b32, &b32], &mut |x| {
        emit(FSpec::PunchHello { local: x[0] as u32, remote: x[1] as u32, probe: x[2] as u32 });
        emit(FSpec::PunchDone { local: x[0] as u32, remote: x[1] as u32, probe: x[2] as u32 });
    });
}

// ---------------------------------------------------------------------------
// sender recipes: how the real callers size STREAM / CRYPTO / DATAGRAM frames
// before handing them to Package::dump
// ---------------------------------------------------------------------------

#[derive(Debug, Clone, Serialize, Deserialize)]
enum Recipe {
    /// Outgoing::try_load_data_into: encoding_strategy(capacity) → pre-padding → dump
    Stream { sid: u64, off: u64, len: u32, fin: bool, extra: u32 },
    /// crypto Sender::try_load_data: estimate_max_capacity(capacity, offset) → dump
    Crypto { off: u64, cap: u32 },
    /// StreamFrame::estimate_max_capacity → Len::Omit frame filling the packet
    StreamFill { sid: u64, off: u64, cap: u32, fin: bool },
    /// DatagramOutgoing::try_load_data_into (the real function)
    Datagram { len: u32, extra: u32 },
}

fn recipe_case() -> BoxedStrategy<Recipe> {
    let extra = || prop_oneof![3 => 0u32..6, 3 => 0u32..40, 1 => 0u32..1500].boxed();
    let cap = || {
        prop_oneof![
            3 => 0u32..80,
            2 => 60u32..80,
            2 => 16380u32..16420,
            3 => 0u32..1500,
            1 => 0u32..20000,
        ]
        .boxed()
    };
    prop_oneof![
        4 => (vint(), prop_oneof![1 => Just(0u64), 3 => vint()], blen(17000), any::<bool>(), extra()).prop_map(
            |(sid, off, len, fin, extra)| Recipe::Stream { sid, off: off.min(VMAX - len as u64), len, fin, extra }
        ),
        3 => (vint(), cap()).prop_map(|(off, cap)| Recipe::Crypto { off: off.min(VMAX - 20000), cap }),
        2 => (vint(), prop_oneof![1 => Just(0u64), 3 => vint()], cap(), any::<bool>())
            .prop_map(|(sid, off, cap, fin)| Recipe::StreamFill { sid, off: off.min(VMAX - 20000), cap, fin }),
        3 => (blen(17000), extra()).prop_map(|(len, extra)| Recipe::Datagram { len, extra }),
    ]
    .boxed()
}

/// decode a filled 1-RTT payload and compare with the expected frame list
fn expect_payload(payload: &[u8], want: &[Frame<Bytes>], sig: &str) -> Outcome {
    let raw = Bytes::copy_from_slice(payload);
    let got: Vec<_> = guarded(|| {
        let mut out = vec![];
        for item in FrameReader::new(raw.clone(), Type::Short(OneRtt(SpinBit::Zero))) {
            let bad = item.is_err();
            out.push(item);
            if bad {
                break;
            }
        }
        Ok(out)
    })?;
    ensure_eq!(got.len(), want.len(), sig, "number of frames in the payload ({} bytes)", payload.len());
    for (i, (g, w)) in got.iter().zip(want).enumerate() {
        match g {
            Ok((g, _)) => ensure!(g == w, sig, "frame {i}: decoded {} expected {}", dbg_short(g), dbg_short(w)),
            Err(e) => fail!(sig, "frame {i}: {e:?}"),
        }
    }
    Ok(())
}

fn run_recipe(case: &Recipe, ctx: &mut CaseCtx) -> Outcome {
    match case {
        Recipe::Stream { sid, off, len, fin, extra } => {
            let data = Bytes::from(gens::content(*sid ^ 0x55, *off, *len as usize));
            let mut frame = StreamFrame::new(sid_of(*sid), *off, *len as usize);
            frame.set_eos_flag(*fin);
            let hdr = 1 + vlen(*sid) + if *off != 0 { vlen(*off) } else { 0 };
            ensure_eq!(frame.encoding_size(), hdr, "size-declared:stream", "header size without length field");
            // precondition established by the caller's estimate_max_capacity predicate
            let capacity = hdr + *len as usize + *extra as usize;
            let st = guarded(|| Ok(frame.encoding_strategy(capacity)))
                .map_err(|e| Fail::new("recipe-stream-panic", e.msg))?;
            frame.set_len_bit(st.len_bit());
            let mut t = Fixed::new(capacity);
            let r = guarded(|| {
                t.put_bytes(0, st.pre_padding());
                let mut p = (frame, data.clone());
                Ok(p.dump(&mut t))
            })
            .map_err(|e| Fail::new("recipe-stream-panic", format!("capacity {capacity}, {st:?}: {}", e.msg)))?;
            ensure!(r.is_ok(), "recipe-stream-refused", "capacity {capacity}, {st:?}: {r:?}");
            let used = t.len;
            if st.len_bit() == Len::Omit {
                // a frame without length must end the packet
                ensure_eq!(used, capacity, "recipe-stream-omit-not-last", "bytes used, {st:?}");
                ctx.class("stream-omit");
            } else {
                ctx.class(if st.pre_padding() > 0 { "stream-explicit-padded" } else { "stream-explicit" });
            }
            let mut want: Vec<Frame<Bytes>> = vec![Frame::Padding(PaddingFrame); st.pre_padding()];
            want.push(Frame::Stream(frame, data));
            expect_payload(t.written(), &want, "recipe-stream-roundtrip")?;
            if st.len_bit() == Len::Omit || st.pre_padding() > 0 || *len >= 64 {
                ctx.nontrivial();
            }
        }
        Recipe::Crypto { off, cap } => {
            let cap = *cap as usize;
            let est = guarded(|| Ok(CryptoFrame::estimate_max_capacity(cap, *off)))
                .map_err(|e| Fail::new("recipe-crypto-panic", e.msg))?;
            let least = 1 + vlen(*off) + 1 + 1;
            match est {
                None => {
                    ensure!(cap < least, "recipe-crypto-none", "None although {cap} >= {least} bytes are free");
                    ctx.class("crypto-none");
                }
                Some(n) => {
                    ensure!(n >= 1, "recipe-crypto-zero", "estimate 0 for capacity {cap}");
                    let total = 1 + vlen(*off) + vlen(n as u64) + n;
                    ensure!(total <= cap, "recipe-crypto-overflow", "offset {off}: {n} data bytes need {total} > capacity {cap}");
                    let data = Bytes::from(gens::content(0xC0, *off, n));
                    let frame = CryptoFrame::new(vi(*off), vi(n as u64));
                    let mut t = Fixed::new(cap);
                    let r = guarded(|| {
                        let mut p = (frame, data.clone());
                        Ok(p.dump(&mut t))
                    })
                    .map_err(|e| Fail::new("recipe-crypto-panic", e.msg))?;
                    ensure!(r.is_ok(), "recipe-crypto-refused", "{r:?}");
                    ensure_eq!(t.len, total, "recipe-crypto-written", "bytes written");
                    let grow = 1 + vlen(*off) + vlen(n as u64 + 1) + n + 1;
                    ctx.class(if grow <= cap { "crypto-not-maximal" } else { "crypto-maximal" });
                    if *off < 1 << 61 {
                        expect_payload(t.written(), &[Frame::Crypto(frame, data)], "recipe-crypto-roundtrip")?;
                    }
                    if n >= 64 || *off >= 64 {
                        ctx.nontrivial();
                    }
                }
            }
        }
        Recipe::StreamFill { sid, off, cap, fin } => {
            let cap = *cap as usize;
            let est = guarded(|| Ok(StreamFrame::estimate_max_capacity(cap, sid_of(*sid), *off)))
                .map_err(|e| Fail::new("recipe-streamfill-panic", e.msg))?;
            let hdr = 1 + vlen(*sid) + if *off != 0 { vlen(*off) } else { 0 };
            match est {
                None => {
                    ensure!(cap <= hdr, "recipe-streamfill-none", "None although capacity {cap} > header {hdr}");
                    ctx.class("streamfill-none");
                }
                Some(n) => {
                    ensure!(hdr + n <= cap, "recipe-streamfill-overflow", "{n} data bytes + {hdr} > {cap}");
                    let data = Bytes::from(gens::content(*sid ^ 0x55, *off, n));
                    let mut frame = StreamFrame::new(sid_of(*sid), *off, n);
                    frame.set_eos_flag(*fin);
                    let st = guarded(|| Ok(frame.encoding_strategy(cap)))
                        .map_err(|e| Fail::new("recipe-streamfill-panic", e.msg))?;
                    frame.set_len_bit(st.len_bit());
                    let mut t = Fixed::new(cap);
                    let r = guarded(|| {
                        t.put_bytes(0, st.pre_padding());
                        let mut p = (frame, data.clone());
                        Ok(p.dump(&mut t))
                    })
                    .map_err(|e| Fail::new("recipe-streamfill-panic", e.msg))?;
                    ensure!(r.is_ok(), "recipe-streamfill-refused", "{r:?}");
                    ensure_eq!(t.len, cap, "recipe-stream-omit-not-last", "a maximal frame must fill the packet, {st:?}");
                    let mut want: Vec<Frame<Bytes>> = vec![Frame::Padding(PaddingFrame); st.pre_padding()];
                    want.push(Frame::Stream(frame, data));
                    expect_payload(t.written(), &want, "recipe-stream-roundtrip")?;
                    ctx.class("streamfill");
                    ctx.nontrivial();
                }
            }
        }
        Recipe::Datagram { len, extra } => {
            let data = Bytes::from(gens::content(0xDA, 0, *len as usize));
            let out = qdatagram::DatagramOutgoing::new(ArcSendWakers::default());
            let w = out.new_writer(1 << 20).map_err(|e| Fail::new("harness", e.to_string()))?;
            w.send_bytes(data.clone()).map_err(|e| Fail::new("harness", e.to_string()))?;
            let cap = *len as usize + *extra as usize;
            let mut t = Fixed::new(cap);
            let r = guarded(|| Ok(out.try_load_data_into(&mut t)))
                .map_err(|e| Fail::new("recipe-datagram-panic", format!("capacity {cap}: {}", e.msg)))?;
            if *extra == 0 {
                ensure!(r.is_err() && t.len == 0, "recipe-datagram-admitted", "no room for the type byte, yet {r:?}");
                ctx.class("datagram-refused");
                return Ok(());
            }
            ensure!(r.is_ok(), "recipe-datagram-refused", "capacity {cap} for {len} bytes: {r:?}");
            let with_len = 1 + vlen(*len as u64) + *len as usize;
            let mut want: Vec<Frame<Bytes>> = vec![];
            if cap >= with_len {
                ensure_eq!(t.len, with_len, "recipe-datagram-written", "bytes written with length field");
                want.push(Frame::Datagram(DatagramFrame::new(true, vi(*len as u64)), data));
                ctx.class("datagram-with-len");
            } else {
                // no length field: must be the last frame, so the packet must be full
                ensure_eq!(t.len, cap, "recipe-datagram-omit-not-last", "bytes written without length field");
                want = vec![Frame::Padding(PaddingFrame); cap - 1 - *len as usize];
                want.push(Frame::Datagram(DatagramFrame::new(false, vi(*len as u64)), data));
                ctx.class("datagram-no-len");
                ctx.nontrivial();
            }
            expect_payload(t.written(), &want, "recipe-datagram-roundtrip")?;
            if *len >= 64 {
                ctx.nontrivial();
            }
        }
    }
    Ok(())
}

// ---------------------------------------------------------------------------
// packet headers and coalesced packets
// ---------------------------------------------------------------------------

#[derive(Debug, Clone, Serialize, Deserialize, PartialEq)]
enum HSpec {
    VN { dcid: (u8, u8), scid: (u8, u8), versions: Vec<u32> },
    Retry { dcid: (u8, u8), scid: (u8, u8), token: u32, seed: u8 },
    Initial { dcid: (u8, u8), scid: (u8, u8), token: u32 },
    ZeroRtt { dcid: (u8, u8), scid: (u8, u8) },
    Handshake { dcid: (u8, u8), scid: (u8, u8) },
    OneRtt { spin: bool, dcid: (u8, u8) },
}

#[derive(Debug, Clone, Serialize, Deserialize)]
struct HeaderCase {
    h: HSpec,
    garbage: u8,
}

fn cid_spec() -> BoxedStrategy<(u8, u8)> {
    (prop_oneof![1 => Just(0u8), 1 => Just(20u8), 1 => Just(8u8), 3 => 0u8..=20], any::<u8>()).boxed()
}

fn hspec() -> BoxedStrategy<HSpec> {
    let tok = || prop_oneof![2 => proptest::sample::select(vec![0u32, 1, 63, 64, 300]), 2 => 0u32..80, 1 => 0u32..400];
    prop_oneof![
        1 => (cid_spec(), cid_spec(), proptest::collection::vec(prop_oneof![any::<u32>(), Just(1u32), Just(0u32)], 0..=16))
            .prop_map(|(dcid, scid, versions)| HSpec::VN { dcid, scid, versions }),
        2 => (cid_spec(), cid_spec(), 0u32..=200, any::<u8>())
            .prop_map(|(dcid, scid, token, seed)| HSpec::Retry { dcid, scid, token, seed }),
        3 => (cid_spec(), cid_spec(), tok()).prop_map(|(dcid, scid, token)| HSpec::Initial { dcid, scid, token }),
        1 => (cid_spec(), cid_spec()).prop_map(|(dcid, scid)| HSpec::ZeroRtt { dcid, scid }),
        1 => (cid_spec(), cid_spec()).prop_map(|(dcid, scid)| HSpec::Handshake { dcid, scid }),
        2 => (any::<bool>(), cid_spec()).prop_map(|(spin, dcid)| HSpec::OneRtt { spin, dcid }),
    ]
    .boxed()
}

struct BuiltHeader {
    kind: &'static str,
    header: Header,
    model: Vec<u8>,
    /// `EncodeHeader::size()` where the header kind announces one
    size: Option<usize>,
    dcid: Vec<u8>,
    scid: Option<Vec<u8>>,
    ty: Type,
}

fn put_long_prefix(m: &mut Vec<u8>, first: u8, version: u32, dcid: &[u8], scid: &[u8]) {
    m.push(first);
    m.extend_from_slice(&version.to_be_bytes());
    m.push(dcid.len() as u8);
    m.extend_from_slice(dcid);
    m.push(scid.len() as u8);
    m.extend_from_slice(scid);
}

fn build_header(h: &HSpec) -> BuiltHeader {
    let c = |s: &(u8, u8)| cid_bytes(s.0, s.1);
    let mut m = vec![];
    match h {
        HSpec::VN { dcid, scid, versions } => {
            let (d, s) = (c(dcid), c(scid));
            put_long_prefix(&mut m, 0x80, 0, &d, &s);
            for v in versions {
                m.extend_from_slice(&v.to_be_bytes());
            }
            let hd = LongHeaderBuilder::with_cid(ConnectionId::from_slice(&d), ConnectionId::from_slice(&s))
                .vn(versions.clone());
            BuiltHeader {
                kind: "vn",
                header: Header::VN(hd),
                model: m,
                size: None,
                dcid: d,
                scid: Some(s),
                ty: Type::Long(LongType::VersionNegotiation),
            }
        }
        HSpec::Retry { dcid, scid, token, seed } => {
            let (d, s) = (c(dcid), c(scid));
            let tok = gens::content(0x7E + *seed as u64, 0, *token as usize);
            let integrity: [u8; 16] = gens::content(0x1E + *seed as u64, 0, 16).try_into().unwrap();
            put_long_prefix(&mut m, 0xC0 | 0x30, 1, &d, &s);
            m.extend_from_slice(&tok);
            m.extend_from_slice(&integrity);
            let hd = LongHeaderBuilder::with_cid(ConnectionId::from_slice(&d), ConnectionId::from_slice(&s))
                .retry(tok, integrity);
            BuiltHeader {
                kind: "retry",
                header: Header::Retry(hd),
                model: m,
                size: None,
                dcid: d,
                scid: Some(s),
                ty: Type::Long(LongType::V1(Ver1::RETRY)),
            }
        }
        HSpec::Initial { dcid, scid, token } => {
            let (d, s) = (c(dcid), c(scid));
            let tok = gens::content(0x70, 0, *token as usize);
            put_long_prefix(&mut m, 0xC0, 1, &d, &s);
            mv(&mut m, tok.len() as u64);
            m.extend_from_slice(&tok);
            let hd = LongHeaderBuilder::with_cid(ConnectionId::from_slice(&d), ConnectionId::from_slice(&s))
                .initial(tok);
            let size = hd.size();
            BuiltHeader {
                kind: "initial",
                header: Header::Initial(hd),
                model: m,
                size: Some(size),
                dcid: d,
                scid: Some(s),
                ty: Type::Long(LongType::V1(Ver1::INITIAL)),
            }
        }
        HSpec::ZeroRtt { dcid, scid } => {
            let (d, s) = (c(dcid), c(scid));
            put_long_prefix(&mut m, 0xC0 | 0x10, 1, &d, &s);
            let hd = LongHeaderBuilder::with_cid(ConnectionId::from_slice(&d), ConnectionId::from_slice(&s))
                .zero_rtt();
            let size = hd.size();
            BuiltHeader {
                kind: "zero_rtt",
                header: Header::ZeroRtt(hd),
                model: m,
                size: Some(size),
                dcid: d,
                scid: Some(s),
                ty: Type::Long(LongType::V1(Ver1::ZERO_RTT)),
            }
        }
        HSpec::Handshake { dcid, scid } => {
            let (d, s) = (c(dcid), c(scid));
            put_long_prefix(&mut m, 0xC0 | 0x20, 1, &d, &s);
            let hd = LongHeaderBuilder::with_cid(ConnectionId::from_slice(&d), ConnectionId::from_slice(&s))
                .handshake();
            let size = hd.size();
            BuiltHeader {
                kind: "handshake",
                header: Header::Handshake(hd),
                model: m,
                size: Some(size),
                dcid: d,
                scid: Some(s),
                ty: Type::Long(LongType::V1(Ver1::HANDSHAKE)),
            }
        }
        HSpec::OneRtt { spin, dcid } => {
            let d = c(dcid);
            m.push(0x40 | if *spin { 0x20 } else { 0 });
            m.extend_from_slice(&d);
            let sp = if *spin { SpinBit::One } else { SpinBit::Zero };
            let hd = OneRttHeader::new(sp, ConnectionId::from_slice(&d));
            let size = hd.size();
            BuiltHeader {
                kind: "one_rtt",
                header: Header::OneRtt(hd),
                model: m,
                size: Some(size),
                dcid: d,
                scid: None,
                ty: Type::Short(OneRtt(sp)),
            }
        }
    }
}

/// field-wise comparison (the header types do not implement PartialEq)
fn same_header(got: &Header, h: &HSpec, b: &BuiltHeader, sig: &str) -> Outcome {
    ensure!(got.dcid()[..] == b.dcid[..], sig, "dcid {:?} expected {}", got.dcid(), hex(&b.dcid));
    let scid: Option<Vec<u8>> = match got {
        Header::VN(x) => Some(x.scid().to_vec()),
        Header::Retry(x) => Some(x.scid().to_vec()),
        Header::Initial(x) => Some(x.scid().to_vec()),
        Header::ZeroRtt(x) => Some(x.scid().to_vec()),
        Header::Handshake(x) => Some(x.scid().to_vec()),
        Header::OneRtt(_) => None,
    };
    ensure!(scid == b.scid, sig, "scid {scid:?} expected {:?}", b.scid);
    match (got, h) {
        (Header::VN(x), HSpec::VN { versions, .. }) => {
            ensure!(x.versions() == versions, sig, "versions {:?} expected {versions:?}", x.versions())
        }
        (Header::Retry(x), HSpec::Retry { token, seed, .. }) => {
            ensure!(
                x.token()[..] == gens::content(0x7E + *seed as u64, 0, *token as usize)[..]
                    && x.integrity()[..] == gens::content(0x1E + *seed as u64, 0, 16)[..],
                sig,
                "retry token / integrity tag differ"
            )
        }
        (Header::Initial(x), HSpec::Initial { token, .. }) => {
            ensure!(x.token()[..] == gens::content(0x70, 0, *token as usize)[..], sig, "initial token differs")
        }
        (Header::ZeroRtt(_), HSpec::ZeroRtt { .. }) | (Header::Handshake(_), HSpec::Handshake { .. }) => {}
        (Header::OneRtt(x), HSpec::OneRtt { spin, .. }) => {
            ensure_eq!(x.spin() == SpinBit::One, *spin, sig, "spin bit")
        }
        (g, _) => fail!(sig, "decoded a different header kind: {g:?}"),
    }
    Ok(())
}

fn run_header(case: &HeaderCase, ctx: &mut CaseCtx) -> Outcome {
    let b = build_header(&case.h);
    let kind = b.kind;
    ctx.class(kind);
    let mut enc = BytesMut::new();
    guarded(|| {
        enc.put_header(&b.header);
        Ok(())
    })
    .map_err(|e| Fail::new(format!("encode-panic:{kind}"), e.msg))?;
    ensure!(enc[..] == b.model[..], format!("bytes:{kind}"), "{:?}: wrote {} expected {}", case.h, hex(&enc), hex(&b.model));
    if let Some(size) = b.size {
        ensure_eq!(size, enc.len(), format!("size-declared:{kind}"), "EncodeHeader::size() vs bytes written");
    }
    ensure_eq!(b.header.dcid()[..], b.dcid[..], format!("accessor:{kind}"), "dcid()");
    // VN and Retry extend to the end of the datagram
    let tail: Vec<u8> = match case.h {
        HSpec::VN { .. } | HSpec::Retry { .. } => vec![],
        _ => (0..case.garbage).map(|i| 0xE0 | (i & 0xf)).collect(),
    };
    let mut wire = enc.to_vec();
    wire.extend_from_slice(&tail);
    let r = guarded(|| {
        let (rest, ty) = be_packet_type(&wire).map_err(|e| Fail::new(format!("decode-rejected:{kind}"), format!("type: {e:?}")))?;
        let (rest, hd) = be_header(ty, b.dcid.len(), rest)
            .map_err(|e| Fail::new(format!("decode-rejected:{kind}"), format!("header: {e:?}")))?;
        Ok((ty, hd, rest.to_vec()))
    });
    let (ty, hd, rest) = match r {
        Err(f) if f.signature.starts_with("panic@") => return Err(Fail::new(format!("decode-panic:{kind}"), f.msg)),
        other => other?,
    };
    ensure_eq!(ty, b.ty, format!("roundtrip:{kind}"), "packet type");
    ensure!(rest == tail, format!("consumed:{kind}"), "left {} expected {}", hex(&rest), hex(&tail));
    same_header(&hd, &case.h, &b, &format!("roundtrip:{kind}"))?;
    let nt = b.dcid.len() != 8
        || match &case.h {
            HSpec::Initial { token, .. } | HSpec::Retry { token, .. } => *token > 0,
            HSpec::VN { versions, .. } => !versions.is_empty(),
            HSpec::OneRtt { spin, .. } => *spin,
            _ => false,
        };
    if nt {
        ctx.nontrivial();
    }
    Ok(())
}

#[derive(Debug, Clone, Serialize, Deserialize)]
struct LongPkt {
    /// 0 Initial, 1 0-RTT, 2 Handshake
    kind: u8,
    dcid: (u8, u8),
    scid: (u8, u8),
    token: u32,
    /// packet number + protected payload + tag, >= 20 (header-protection sample)
    payload: u32,
    /// 0 = minimal Length encoding, 1/2/3 = forced 2/4/8 bytes
    width: u8,
}

#[derive(Debug, Clone, Serialize, Deserialize)]
struct PacketsCase {
    long: Vec<LongPkt>,
    /// trailing 1-RTT packet: (spin, payload)
    short: Option<(bool, u32)>,
    short_dcid: (u8, u8),
}

fn packets_case() -> BoxedStrategy<PacketsCase> {
    let pay = || prop_oneof![2 => Just(20u32), 1 => Just(63u32), 1 => Just(64u32), 3 => 20u32..200, 2 => 20u32..1500, 1 => Just(16384u32)];
    let lp = (0u8..3, cid_spec(), cid_spec(), prop_oneof![Just(0u32), Just(64u32), 0u32..100], pay(), 0u8..4)
        .prop_map(|(kind, dcid, scid, token, payload, width)| LongPkt { kind, dcid, scid, token, payload, width });
    (proptest::collection::vec(lp, 0..=3), proptest::option::of((any::<bool>(), pay())), cid_spec())
        .prop_map(|(long, short, short_dcid)| {
            // an empty datagram carries nothing to check
            let short = if long.is_empty() && short.is_none() { Some((false, 20)) } else { short };
            PacketsCase { long, short, short_dcid }
        })
        .boxed()
}

fn run_packets(case: &PacketsCase, ctx: &mut CaseCtx) -> Outcome {
    struct Want {
        h: HSpec,
        b: BuiltHeader,
        bytes: Vec<u8>,
        offset: usize,
    }
    let mut wants = vec![];
    let mut wire = vec![];
    for (i, p) in case.long.iter().enumerate() {
        let h = match p.kind % 3 {
            0 => HSpec::Initial { dcid: p.dcid, scid: p.scid, token: p.token },
            1 => HSpec::ZeroRtt { dcid: p.dcid, scid: p.scid },
            _ => HSpec::Handshake { dcid: p.dcid, scid: p.scid },
        };
        let b = build_header(&h);
        let mut pk = BytesMut::new();
        pk.put_header(&b.header);
        let hdr = pk.len();
        let plen = vi(p.payload as u64);
        match p.width {
            1 if p.payload < 1 << 14 => pk.encode_varint(&plen, EncodeBytes::Two),
            2 => pk.encode_varint(&plen, EncodeBytes::Four),
            3 => pk.encode_varint(&plen, EncodeBytes::Eight),
            _ => pk.put_varint(&plen),
        }
        let offset = pk.len();
        ensure!(offset > hdr, "harness", "length field");
        pk.extend_from_slice(&gens::content(0xBEEF + i as u64, 0, p.payload as usize));
        wire.extend_from_slice(&pk);
        wants.push(Want { h, b, bytes: pk.to_vec(), offset });
    }
    let short_dcid_len = cid_bytes(case.short_dcid.0, 0).len();
    if let Some((spin, payload)) = case.short {
        let h = HSpec::OneRtt { spin, dcid: case.short_dcid };
        let b = build_header(&h);
        let mut pk = BytesMut::new();
        pk.put_header(&b.header);
        let offset = pk.len();
        pk.extend_from_slice(&gens::content(0xFEED, 0, payload as usize));
        wire.extend_from_slice(&pk);
        wants.push(Want { h, b, bytes: pk.to_vec(), offset });
    }
    let got: Vec<_> = guarded(|| Ok(PacketReader::new(BytesMut::from(&wire[..]), short_dcid_len).collect::<Vec<_>>()))
        .map_err(|e| Fail::new("packets-panic", e.msg))?;
    ensure_eq!(got.len(), wants.len(), "packets-count", "packets read from a datagram of {} bytes", wire.len());
    for (i, (g, w)) in got.iter().zip(&wants).enumerate() {
        let Ok(Packet::Data(dp)) = g else {
            fail!("packets-rejected", "packet {i} ({}): {g:?}", w.b.kind);
        };
        ensure!(dp.bytes[..] == w.bytes[..], "packets-bytes", "packet {i}: bytes of the packet differ");
        ensure_eq!(dp.offset, w.offset, "packets-offset", "packet {i}: payload offset");
        ensure_eq!(dp.get_type(), w.b.ty, "packets-type", "packet {i}");
        let hd = match &dp.header {
            DataHeader::Long(long::DataHeader::Initial(x)) => Header::Initial(x.clone()),
            DataHeader::Long(long::DataHeader::ZeroRtt(x)) => Header::ZeroRtt(x.clone()),
            DataHeader::Long(long::DataHeader::Handshake(x)) => Header::Handshake(x.clone()),
            DataHeader::Short(x) => Header::OneRtt(*x),
        };
        same_header(&hd, &w.h, &w.b, "packets-header")?;
    }
    ctx.class(format!("coalesced-{}", wants.len()));
    if wants.len() >= 2 || case.long.iter().any(|p| p.width != 0 || p.payload >= 64 || p.token > 0) {
        ctx.nontrivial();
    }
    Ok(())
}

// ---------------------------------------------------------------------------
// scalars: varints, connection ids, addresses, stream ids, reset tokens
// ---------------------------------------------------------------------------

#[derive(Debug, Clone, Serialize, Deserialize)]
enum Scalar {
    Varint { v: u64, garbage: u8 },
    Cid { len: u8, seed: u8, garbage: u8 },
    Sock { a: Addr, garbage: u8 },
    Endpoint { agent: bool, a: Addr, b: Addr, garbage: u8 },
    Sid { server: bool, uni: bool, index: u64 },
    ResetToken { bytes: [u8; 16], garbage: u8 },
}

fn scalar_case() -> BoxedStrategy<Scalar> {
    prop_oneof![
        4 => (vint(), 0u8..4).prop_map(|(v, garbage)| Scalar::Varint { v, garbage }),
        2 => (0u8..=20, any::<u8>(), 0u8..4).prop_map(|(len, seed, garbage)| Scalar::Cid { len, seed, garbage }),
        2 => (addr(), 0u8..4).prop_map(|(a, garbage)| Scalar::Sock { a, garbage }),
        2 => (any::<bool>(), addr(), addr(), 0u8..4).prop_map(|(agent, a, mut b, garbage)| {
            // one family flag covers both addresses of an endpoint on the wire
            if b.v6 != a.v6 {
                b = Addr { v6: a.v6, hi: if a.v6 { b.lo } else { 0 }, lo: if a.v6 { b.lo } else { b.lo & 0xffff_ffff }, port: b.port };
            }
            Scalar::Endpoint { agent, a, b, garbage }
        }),
        2 => (any::<bool>(), any::<bool>(), vint()).prop_map(|(server, uni, v)| Scalar::Sid { server, uni, index: v >> 2 }),
        1 => (any::<[u8; 16]>(), 0u8..4).prop_map(|(bytes, garbage)| Scalar::ResetToken { bytes, garbage }),
    ]
    .boxed()
}

fn tail_of(n: u8) -> Vec<u8> {
    (0..n).map(|i| 0xD0 | i).collect()
}

fn run_scalar(case: &Scalar, ctx: &mut CaseCtx) -> Outcome {
    match case {
        Scalar::Varint { v, garbage } => {
            ctx.class("varint");
            let mut m = vec![];
            mv(&mut m, *v);
            let x = VarInt::from_u64(*v).map_err(|e| Fail::new("varint-ctor", format!("{e:?}")))?;
            ensure!(
                x.into_u64() == *v && VarInt::try_from(*v as u128) == Ok(x) && u64::from(x) == *v,
                "varint-ctor",
                "conversions of {v}"
            );
            let mut enc = vec![];
            enc.put_varint(&x);
            ensure!(enc == m, "bytes:varint", "{v}: wrote {} expected {}", hex(&enc), hex(&m));
            ensure_eq!(x.encoding_size(), enc.len(), "size-declared:varint", "encoding_size() of {v}");
            let tail = tail_of(*garbage);
            // every permitted width decodes to the same value and consumes exactly that width
            for (w, nb) in [(1usize, EncodeBytes::One), (2, EncodeBytes::Two), (4, EncodeBytes::Four), (8, EncodeBytes::Eight)] {
                if w < m.len() {
                    continue;
                }
                let mut e = vec![];
                e.encode_varint(&x, nb);
                ensure_eq!(e.len(), w, "bytes:varint", "encode_varint width");
                if w == m.len() {
                    ensure!(e == m, "bytes:varint", "encode_varint at minimal width differs from put_varint");
                }
                e.extend_from_slice(&tail);
                match be_varint(&e) {
                    Ok((rest, got)) => {
                        ensure!(got == x && rest == &tail[..], "roundtrip:varint", "{v} at width {w}: got {got} rest {}", hex(rest))
                    }
                    Err(err) => fail!("decode-rejected:varint", "{v} at width {w}: {err:?}"),
                }
            }
            if *v >= 64 {
                ctx.nontrivial();
            }
        }
        Scalar::Cid { len, seed, garbage } => {
            ctx.class("cid");
            let bytes = cid_bytes(*len, *seed);
            let cid = ConnectionId::from_slice(&bytes);
            ensure!(cid[..] == bytes[..] && cid.len() == bytes.len(), "roundtrip:cid", "from_slice / deref");
            let mut enc = vec![];
            enc.put_connection_id(&cid);
            let mut m = vec![bytes.len() as u8];
            m.extend_from_slice(&bytes);
            ensure!(enc == m, "bytes:cid", "wrote {} expected {}", hex(&enc), hex(&m));
            ensure_eq!(cid.encoding_size(), enc.len(), "size-declared:cid", "encoding_size()");
            let tail = tail_of(*garbage);
            enc.extend_from_slice(&tail);
            match be_connection_id(&enc) {
                Ok((rest, got)) => ensure!(got == cid && rest == &tail[..], "roundtrip:cid", "decoded {got:?} rest {}", hex(rest)),
                Err(e) => fail!("decode-rejected:cid", "length {}: {e:?}", bytes.len()),
            }
            match be_connection_id_with_len(&enc[1..], bytes.len()) {
                Ok((rest, got)) => ensure!(got == cid && rest == &tail[..], "roundtrip:cid", "with_len decoded {got:?}"),
                Err(e) => fail!("decode-rejected:cid", "with_len {}: {e:?}", bytes.len()),
            }
            if bytes.len() != 8 {
                ctx.nontrivial();
            }
        }
        Scalar::Sock { a, garbage } => {
            ctx.class(if a.v6 { "sock-v6" } else { "sock-v4" });
            let s = a.sock();
            let mut m = vec![];
            a.model(&mut m);
            let mut enc = vec![];
            enc.put_socket_addr(&s);
            ensure!(enc == m, "bytes:sockaddr", "{s}: wrote {} expected {}", hex(&enc), hex(&m));
            ensure_eq!(s.encoding_size(), enc.len(), "size-declared:sockaddr", "encoding_size()");
            ensure!(enc.len() <= s.max_encoding_size(), "size-max:sockaddr", "max_encoding_size()");
            let tail = tail_of(*garbage);
            enc.extend_from_slice(&tail);
            match be_socket_addr(&enc, a.family()) {
                Ok((rest, got)) => ensure!(got == s && rest == &tail[..], "roundtrip:sockaddr", "{s}: decoded {got}"),
                Err(e) => fail!("decode-rejected:sockaddr", "{s}: {e:?}"),
            }
            ctx.nontrivial();
        }
        Scalar::Endpoint { agent, a, b, garbage } => {
            ctx.class(if *agent { "endpoint-agent" } else { "endpoint-direct" });
            let ep = if *agent { EndpointAddr::with_agent(a.sock(), b.sock()) } else { EndpointAddr::direct(a.sock()) };
            let mut m = vec![];
            a.model(&mut m);
            if *agent {
                b.model(&mut m);
            }
            let mut enc = vec![];
            enc.put_endpoint_addr(ep);
            ensure!(enc == m, "bytes:endpoint", "{ep}: wrote {} expected {}", hex(&enc), hex(&m));
            ensure_eq!(ep.encoding_size(), enc.len(), "size-declared:endpoint", "encoding_size()");
            let tail = tail_of(*garbage);
            enc.extend_from_slice(&tail);
            match be_endpoint_addr(&enc, *agent as u8, a.family()) {
                Ok((rest, got)) => ensure!(got == ep && rest == &tail[..], "roundtrip:endpoint", "{ep}: decoded {got}"),
                Err(e) => fail!("decode-rejected:endpoint", "{ep}: {e:?}"),
            }
            ctx.nontrivial();
        }
        Scalar::Sid { server, uni, index } => {
            ctx.class("sid");
            let role = if *server { Role::Server } else { Role::Client };
            let dir = if *uni { Dir::Uni } else { Dir::Bi };
            let sid = StreamId::new(role, dir, *index);
            let wire_value = (*index << 2) | ((*uni as u64) << 1) | *server as u64;
            ensure!(
                sid.role() == role && sid.dir() == dir && sid.id() == *index && u64::from(sid) == wire_value,
                "roundtrip:sid",
                "accessors of {sid:?}"
            );
            let mut m = vec![];
            mv(&mut m, wire_value);
            let mut enc = vec![];
            enc.put_streamid(&sid);
            ensure!(enc == m, "bytes:sid", "wrote {} expected {}", hex(&enc), hex(&m));
            ensure_eq!(sid.encoding_size(), enc.len(), "size-declared:sid", "encoding_size()");
            enc.push(0xEE);
            match be_streamid(&enc) {
                Ok((rest, got)) => ensure!(got == sid && rest == [0xEE], "roundtrip:sid", "decoded {got:?}"),
                Err(e) => fail!("decode-rejected:sid", "{e:?}"),
            }
            if wire_value >= 64 || *uni || *server {
                ctx.nontrivial();
            }
        }
        Scalar::ResetToken { bytes, garbage } => {
            ctx.class("reset-token");
            let t = ResetToken::new(bytes);
            let mut enc = vec![];
            enc.put_reset_token(&t);
            ensure!(enc == bytes, "bytes:reset-token", "wrote {}", hex(&enc));
            ensure_eq!(t.encoding_size(), 16, "size-declared:reset-token", "encoding_size()");
            let tail = tail_of(*garbage);
            enc.extend_from_slice(&tail);
            match be_reset_token(&enc) {
                Ok((rest, got)) => ensure!(got == t && rest == &tail[..], "roundtrip:reset-token", "decoded {got:?}"),
                Err(e) => fail!("decode-rejected:reset-token", "{e:?}"),
            }
        }
    }
    Ok(())
}

// ---------------------------------------------------------------------------
// transport-parameter sets
// ---------------------------------------------------------------------------

#[derive(Debug, Clone, Serialize, Deserialize, PartialEq)]
struct Pref {
    v4: (u32, u16),
    v6: (u64, u64, u16),
    cid: (u8, u8),
    token_seed: u8,
}

#[derive(Debug, Clone, Serialize, Deserialize)]
struct ParamCase {
    server: bool,
    odcid: Option<(u8, u8)>,
    max_idle_ms: Option<u64>,
    reset_token: Option<u8>,
    max_udp: Option<u64>,
    /// ids 0x04..=0x09
    initial: [Option<u64>; 6],
    ack_delay_exp: Option<u64>,
    max_ack_delay_ms: Option<u64>,
    disable_migration: bool,
    preferred: Option<Pref>,
    active_cid_limit: Option<u64>,
    iscid: Option<(u8, u8)>,
    rscid: Option<(u8, u8)>,
    max_datagram: Option<u64>,
    grease: bool,
    client_name: Option<u32>,
}

fn opt<T: std::fmt::Debug + Clone + 'static>(s: BoxedStrategy<T>) -> BoxedStrategy<Option<T>> {
    proptest::option::weighted(0.6, s).boxed()
}

fn param_case() -> BoxedStrategy<ParamCase> {
    let pref = (any::<u32>(), any::<u16>(), any::<u64>(), any::<u64>(), any::<u16>(), cid_spec(), any::<u8>())
        .prop_map(|(a, p, hi, lo, p6, cid, token_seed)| Pref { v4: (a, p), v6: (hi, lo, p6), cid, token_seed })
        .boxed();
    let a = (
        any::<bool>(),
        proptest::option::weighted(0.85, cid_spec()),
        opt(vint()),
        opt(any::<u8>().boxed()),
        opt(prop_oneof![Just(1200u64), Just(65527u64), 1200u64..=65527].boxed()),
        proptest::array::uniform6(opt(vint())),
        opt(prop_oneof![Just(0u64), Just(20u64), 0u64..=20].boxed()),
        opt(vint()),
    );
    let b = (
        any::<bool>(),
        opt(pref),
        opt(prop_oneof![Just(2u64), Just(VMAX), vint().prop_map(|v| v.max(2))].boxed()),
        proptest::option::weighted(0.85, cid_spec()),
        opt(cid_spec()),
        opt(vint()),
        any::<bool>(),
        opt(prop_oneof![Just(0u32), Just(63u32), Just(64u32), 0u32..300].boxed()),
    );
    (a, b)
        .prop_map(|(a, b)| ParamCase {
            server: a.0,
            odcid: a.1,
            max_idle_ms: a.2,
            reset_token: a.3,
            max_udp: a.4,
            initial: a.5,
            ack_delay_exp: a.6,
            max_ack_delay_ms: a.7,
            disable_migration: b.0,
            preferred: b.1,
            active_cid_limit: b.2,
            iscid: b.3,
            rscid: b.4,
            max_datagram: b.5,
            grease: b.6,
            client_name: b.7,
        })
        .boxed()
}

/// (id, value, reference value bytes, server-only, client-only)
struct Entry {
    id: ParameterId,
    code: u64,
    value: ParameterValue,
    bytes: Vec<u8>,
    server_only: bool,
    client_only: bool,
}

fn param_entries(c: &ParamCase) -> Vec<Entry> {
    let mut out = vec![];
    let mut push = |id: ParameterId, code: u64, value: ParameterValue, bytes: Vec<u8>, so: bool, co: bool| {
        out.push(Entry { id, code, value, bytes, server_only: so, client_only: co })
    };
    let cidv = |s: &(u8, u8)| {
        let b = cid_bytes(s.0, s.1);
        (ParameterValue::ConnectionId(ConnectionId::from_slice(&b)), b)
    };
    let varint = |v: u64| {
        let mut b = vec![];
        mv(&mut b, v);
        (ParameterValue::VarInt(vi(v)), b)
    };
    let millis = |v: u64| {
        let mut b = vec![];
        mv(&mut b, v);
        (ParameterValue::Duration(Duration::from_millis(v)), b)
    };
    if let Some(s) = &c.odcid {
        let (v, b) = cidv(s);
        push(ParameterId::OriginalDestinationConnectionId, 0x00, v, b, true, false);
    }
    if let Some(ms) = c.max_idle_ms {
        let (v, b) = millis(ms);
        push(ParameterId::MaxIdleTimeout, 0x01, v, b, false, false);
    }
    if let Some(seed) = c.reset_token {
        let t = gens::content(0x5E + seed as u64, 0, 16);
        push(ParameterId::StatelessResetToken, 0x02, ParameterValue::ResetToken(ResetToken::new(&t)), t, true, false);
    }
    if let Some(x) = c.max_udp {
        let (v, b) = varint(x);
        push(ParameterId::MaxUdpPayloadSize, 0x03, v, b, false, false);
    }
    let ids = [
        ParameterId::InitialMaxData,
        ParameterId::InitialMaxStreamDataBidiLocal,
        ParameterId::InitialMaxStreamDataBidiRemote,
        ParameterId::InitialMaxStreamDataUni,
        ParameterId::InitialMaxStreamsBidi,
        ParameterId::InitialMaxStreamsUni,
    ];
    for (i, id) in ids.into_iter().enumerate() {
        if let Some(x) = c.initial[i] {
            // values inside their RFC 9000 ranges only (stream counts <= 2^60): others are C18's
            let x = if i >= 4 { x.min(1 << 60) } else { x };
            let (v, b) = varint(x);
            push(id, 0x04 + i as u64, v, b, false, false);
        }
    }
    if let Some(x) = c.ack_delay_exp {
        let (v, b) = varint(x);
        push(ParameterId::AckDelayExponent, 0x0a, v, b, false, false);
    }
    if let Some(ms) = c.max_ack_delay_ms {
        // RFC 9000 §18.2: values of 2^14 or greater are invalid
        let (v, b) = millis(ms.min((1 << 14) - 1));
        push(ParameterId::MaxAckDelay, 0x0b, v, b, false, false);
    }
    if c.disable_migration {
        push(ParameterId::DisableActiveMigration, 0x0c, ParameterValue::True, vec![], false, false);
    }
    if let Some(p) = &c.preferred {
        let cid = cid_bytes(p.cid.0, p.cid.1);
        let token = gens::content(0x9E + p.token_seed as u64, 0, 16);
        let ip6 = ((p.v6.0 as u128) << 64) | p.v6.1 as u128;
        let pa = PreferredAddress::new(
            SocketAddrV4::new(Ipv4Addr::from(p.v4.0), p.v4.1),
            SocketAddrV6::new(Ipv6Addr::from(ip6), p.v6.2, 0, 0),
            ConnectionId::from_slice(&cid),
            ResetToken::new(&token),
        );
        // RFC 9000 §18.2: IPv4 address (32), port (16), IPv6 address (128), port (16), CID len (8), CID, token (128)
        let mut b = vec![];
        b.extend_from_slice(&p.v4.0.to_be_bytes());
        b.extend_from_slice(&p.v4.1.to_be_bytes());
        b.extend_from_slice(&ip6.to_be_bytes());
        b.extend_from_slice(&p.v6.2.to_be_bytes());
        b.push(cid.len() as u8);
        b.extend_from_slice(&cid);
        b.extend_from_slice(&token);
        push(ParameterId::PreferredAddress, 0x0d, ParameterValue::PreferredAddress(pa), b, true, false);
    }
    if let Some(x) = c.active_cid_limit {
        let (v, b) = varint(x);
        push(ParameterId::ActiveConnectionIdLimit, 0x0e, v, b, false, false);
    }
    if let Some(s) = &c.iscid {
        let (v, b) = cidv(s);
        push(ParameterId::InitialSourceConnectionId, 0x0f, v, b, false, false);
    }
    if let Some(s) = &c.rscid {
        let (v, b) = cidv(s);
        push(ParameterId::RetrySourceConnectionId, 0x10, v, b, true, false);
    }
    if let Some(x) = c.max_datagram {
        let (v, b) = varint(x);
        push(ParameterId::MaxDatagramFrameSize, 0x20, v, b, false, false);
    }
    if c.grease {
        push(ParameterId::GreaseQuicBit, 0x2ab2, ParameterValue::True, vec![], false, false);
    }
    if let Some(n) = c.client_name {
        let name = gens::content(0xCC, 0, n as usize);
        push(ParameterId::ClientName, 0xffee, ParameterValue::Bytes(Bytes::from(name.clone())), name, false, true);
    }
    out
}

/// independent TLV reader: (id, value bytes) in wire order
fn read_tlvs(mut b: &[u8]) -> Result<Vec<(u64, Vec<u8>)>, Fail> {
    fn rv(b: &mut &[u8]) -> Result<u64, Fail> {
        let bad = || Fail::new("bytes:params", "truncated parameter encoding");
        let first = *b.first().ok_or_else(bad)?;
        let n = 1usize << (first >> 6);
        if b.len() < n {
            return Err(bad());
        }
        let mut v = (first & 0x3f) as u64;
        for x in &b[1..n] {
            v = (v << 8) | *x as u64;
        }
        *b = &b[n..];
        Ok(v)
    }
    let mut out = vec![];
    while !b.is_empty() {
        let id = rv(&mut b)?;
        let len = rv(&mut b)? as usize;
        if b.len() < len {
            return Err(Fail::new("bytes:params", format!("parameter {id:#x}: length {len} exceeds the buffer")));
        }
        out.push((id, b[..len].to_vec()));
        b = &b[len..];
    }
    Ok(out)
}

fn run_params_for<R>(c: &ParamCase, role: Role, ctx: &mut CaseCtx) -> Outcome
where
    R: IntoRole + RequiredParameters + Default + PartialEq + std::fmt::Debug,
{
    let mut p = qbase::param::core::Parameters::<R>::new();
    let mut want: Vec<(u64, Vec<u8>)> = vec![];
    let mut nontrivial = false;
    for e in param_entries(c) {
        let allowed = !(e.server_only && role != Role::Server) && !(e.client_only && role != Role::Client);
        let r = p.set(e.id, e.value.clone());
        if !allowed {
            ensure!(r.is_err(), "params-role", "{:?} accepted for {role}", e.id);
            ctx.class("foreign-id-refused");
            continue;
        }
        ensure!(r.is_ok(), "params-set", "{:?} = {:?} refused for {role}: {r:?}", e.id, e.value);
        ensure!(p.contains(e.id), "params-set", "{:?} missing after set", e.id);
        nontrivial |= e.bytes.len() > 1 || e.code >= 64;
        want.push((e.code, e.bytes));
    }
    let mut enc = BytesMut::new();
    guarded(|| {
        enc.put_parameters(&p);
        Ok(())
    })
    .map_err(|e| Fail::new("encode-panic:params", e.msg))?;
    // the map has no defined order: compare as sets of (id, value bytes)
    let mut got = read_tlvs(&enc)?;
    got.sort();
    want.sort();
    ensure!(got == want, "bytes:params", "{role}: wrote {got:02x?} expected {want:02x?}");

    let required: Vec<ParameterId> = R::required_parameters().into_iter().collect();
    let complete = required.iter().all(|id| p.contains(*id));
    let parsed = guarded(|| Ok(qbase::param::core::Parameters::<R>::parse_from_bytes(&enc)))
        .map_err(|e| Fail::new("decode-panic:params", format!("{role} {}: {}", hex(&enc), e.msg)))?;
    match parsed {
        Ok(q) => {
            ensure!(complete, "params-required", "{role}: parsed although a required parameter is absent");
            ensure!(q == p, "roundtrip:params", "{role}: decoded {q:?} != encoded {p:?}");
            let mut enc2 = BytesMut::new();
            enc2.put_parameters(&q);
            let mut again = read_tlvs(&enc2)?;
            again.sort();
            ensure!(again == want, "roundtrip:params", "{role}: re-encoding differs");
            ctx.class(format!("{role}-roundtrip"));
            if nontrivial {
                ctx.nontrivial();
            }
        }
        Err(e) => {
            ensure!(!complete, "decode-rejected:params", "{role}: own encoding {} rejected: {e:?}", hex(&enc));
            ctx.class(format!("{role}-lacks-required"));
        }
    }
    if role == Role::Server {
        // remembered (0-RTT) parameters are parsed without the required-id rule
        let q = guarded(|| Ok(ServerParameters::try_from_remembered_bytes(&enc)))
            .map_err(|e| Fail::new("decode-panic:params", e.msg))?;
        match q {
            Ok(q) => {
                let mut enc2 = BytesMut::new();
                enc2.put_parameters(&q);
                let mut again = read_tlvs(&enc2)?;
                again.sort();
                ensure!(again == want, "roundtrip:params", "remembered server parameters re-encode differently");
            }
            Err(e) => fail!("decode-rejected:params", "remembered: {e:?}"),
        }
    }
    Ok(())
}

fn run_params(c: &ParamCase, ctx: &mut CaseCtx) -> Outcome {
    if c.server {
        run_params_for::<Server>(c, Role::Server, ctx)
    } else {
        run_params_for::<Client>(c, Role::Client, ctx)
    }
}

// ---------------------------------------------------------------------------
// main
// ---------------------------------------------------------------------------

fn main() {
    let mut check = Check::from_env("C05", "exploration");
    check.rule(
        "case = one value (frame of any of the 26 kinds / header / coalesced datagram / varint / CID / address / stream id / \
         token / transport-parameter set) described by plain integers; the check builds the real value, encodes it, compares \
         with an independent reference encoder, checks encoding_size()/max_encoding_size(), decodes it in all 7 packet types, \
         and dumps it into hard-capacity targets of every size around the announced one. Fields are drawn from the varint \
         boundary set ∪ uniform per width class; byte fields from {0,1,63,64,16383,16384}±1 ∪ small ∪ ≤17000. \
         non-trivial = ≥1 numeric/length field outside the 1-byte varint class or a non-default flag (STREAM off/len/fin, \
         ACK ECN, uni, app-layer close, DATAGRAM len, extension frames whose type is 4 bytes, IPv6, spin, token present); for \
         sequences: ≥2 frames, ≥1 non-trivial frame, fully decoded in ≥1 packet type; for sender recipes: length omitted, \
         pre-padding, or ≥64 data bytes. distinct = by hash of the serialised case.",
    );
    check.assume("the reference encoder in c05.rs follows RFC 9000 §16–§19, RFC 9221 and, for the gm-quic extension frames (0x3d7e90…96), the field order of their decoders");
    check.assume("domain = values the public constructors build and the decoders are specified to accept (retire_prior_to <= sequence, CID 1..20 in NEW_CONNECTION_ID, offset+length <= 2^62-1, MAX_STREAMS <= 2^60, valid UTF-8 reason, whole-millisecond durations, one address family per endpoint address)");
    check.assume("for frames carrying data, Package::dump is only called with room for header+data (the callers' try_load_data_into sizes the data first); sizes between header and header+data are not exercised");
    check.assume("NEW_CONNECTION_ID values are obtained by decoding reference bytes because the public constructor draws a random reset token");

    let deep = !check.quick();

    // ---- exhaustive over kind × flags × width boundaries
    check.exhaustive::<FrameCase, _>("frames-exhaustive", true, |e| {
        let mut i = 0u32;
        let mut stopped = false;
        enumerate_frames(deep, &mut |spec| {
            if stopped {
                return;
            }
            i = i.wrapping_add(1);
            let case = FrameCase { spec, garbage: (i % 4) as u8, alt: i % 2 == 0 };
            e.case(&case, run_frame);
            stopped = e.stopped();
        });
    });

    // ---- exhaustive varint boundaries: 2^k-1, 2^k, 2^k+1 for every k
    check.exhaustive::<Scalar, _>("varint-boundaries", true, |e| {
        for k in 0..62u32 {
            for d in [-1i64, 0, 1] {
                let v = (1u64 << k).wrapping_add(d as u64);
                if v > VMAX {
                    continue;
                }
                for garbage in [0u8, 2] {
                    e.case(&Scalar::Varint { v, garbage }, run_scalar);
                }
            }
        }
        e.case(&Scalar::Varint { v: VMAX, garbage: 1 }, run_scalar);
        for len in 0..=20u8 {
            e.case(&Scalar::Cid { len, seed: len, garbage: 1 }, run_scalar);
        }
    });

    let n = check.pick(240_000, 12_000_000);
    check.stage("frames-random", n, 16, frame_case, run_frame);
    let n = check.pick(40_000, 2_000_000);
    check.stage("frames-concat", n, 16, seq_case, run_seq);
    let n = check.pick(60_000, 3_000_000);
    check.stage("sender-recipes", n, 16, recipe_case, run_recipe);
    let n = check.pick(40_000, 2_000_000);
    check.stage("headers", n, 16, || (hspec(), 0u8..6).prop_map(|(h, garbage)| HeaderCase { h, garbage }), run_header);
    let n = check.pick(20_000, 1_000_000);
    check.stage("packets-coalesced", n, 16, packets_case, run_packets);
    let n = check.pick(60_000, 3_000_000);
    check.stage("scalars", n, 16, scalar_case, run_scalar);
    let n = check.pick(30_000, 1_500_000);
    check.stage("transport-params", n, 16, param_case, run_params);
    let _ = json!(null);
    check.finish();
}
