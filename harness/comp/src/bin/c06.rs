//! C06 — packet protection round-trips and rejects any modified packet.
//!
//! Sender  = `qevent::packet::PacketWriter` (the wrapper the real transmit path uses around
//!           `qbase::packet::PacketWriter`) + frame packages + `PadTo20` + `encrypt_and_protect_packet`.
//! Receiver = `PacketReader` -> `CipherPacket::{decrypt_long_packet, decrypt_short_packet}` exactly as
//!           `qinterface/src/component/route/{queue,packet}.rs` and `qconnection/src/space/*.rs` chain them.
//! Keys    = real rustls/ring keys: Initial keys as `qconnection/src/builder.rs::initial_keys_with`
//!           derives them; Handshake / 0-RTT / 1-RTT keys + `Secrets` from in-memory rustls QUIC
//!           handshakes (one full + one resumed handshake per cipher suite, once per process).
//!
//! Stages
//!   exhaustive-small : every (type, dcid len, pn width, tiny body, suite, key phase) round trip,
//!                      with a complete single-bit sweep of a sub-grid
//!   roundtrip        : random datagrams of 1..3 coalesced packets
//!   tamper-sweep     : random datagram, every bit (<=200 bytes) or 256 sampled bits of one packet flipped
//!   variants         : wrong packet number / wrong key / truncation / cross-generation
//!   keyupdate-history: two 1-RTT endpoints, key updates, reordering, tampering in between
//!
//! Verdicts never depend on the key values (which differ per process: the TLS handshake is not
//! seedable); only how often a flipped bit runs into one of the findings below does.
//!
//! Findings of the unmodified tree carry their own signatures (`SIG_*`): they fail the case unless
//! listed in known-findings.jsonl, in which case they are counted and the case continues.

use std::sync::{Arc, OnceLock};

use bytes::{BufMut, Bytes, BytesMut};
use proptest::prelude::*;
use qbase::{
    cid::ConnectionId,
    frame::{CryptoFrame, PingFrame},
    packet::{
        DataHeader, GetDcid, GetScid, Packet, PacketNumber, PacketReader,
        header::{
            EncodeHeader, HandshakeHeader, InitialHeader, LongHeaderBuilder, OneRttHeader,
            ZeroRttHeader, long,
        },
        io::{AssemblePacket, PadTo20, PadToFull},
        keys::{ArcOneRttKeys, ArcOneRttPacketKeys, DirectionalKeys, Keys as QKeys},
        signal::{KeyPhaseBit, SpinBit},
    },
    varint::VarInt,
};
use qevent::packet::PacketWriter;
use qinterface::component::route::{CipherPacket, PlainPacket};
use rustls::quic::{HeaderProtectionKey, PacketKey, Secrets};
use serde::{Deserialize, Serialize};
use serde_json::json;
use vcore::{CaseCtx, Check, Fail, Outcome, ensure, ensure_eq, fail, gens};

// ---------------------------------------------------------------------------------------------
// key material (once per process)
// ---------------------------------------------------------------------------------------------

const CA_CERT: &[u8] = include_bytes!("/repo/tests/keychain/localhost/ca.cert");
const SERVER_CERT: &[u8] = include_bytes!("/repo/tests/keychain/localhost/server.cert");
const SERVER_KEY: &[u8] = include_bytes!("/repo/tests/keychain/localhost/server.key");

/// Thin delegating wrappers: `ArcOneRttKeys::set_keys` consumes boxed rustls keys, the process-wide
/// key material is shared through `Arc`s. The cryptography is the real rustls/ring key underneath.
struct HpW(Arc<dyn HeaderProtectionKey>);
impl HeaderProtectionKey for HpW {
    fn encrypt_in_place(
        &self,
        sample: &[u8],
        first: &mut u8,
        packet_number: &mut [u8],
    ) -> Result<(), rustls::Error> {
        self.0.encrypt_in_place(sample, first, packet_number)
    }
    fn decrypt_in_place(
        &self,
        sample: &[u8],
        first: &mut u8,
        packet_number: &mut [u8],
    ) -> Result<(), rustls::Error> {
        self.0.decrypt_in_place(sample, first, packet_number)
    }
    fn sample_len(&self) -> usize {
        self.0.sample_len()
    }
}
struct PkW(Arc<dyn PacketKey>);
impl PacketKey for PkW {
    fn encrypt_in_place(
        &self,
        packet_number: u64,
        header: &[u8],
        payload: &mut [u8],
    ) -> Result<rustls::quic::Tag, rustls::Error> {
        self.0.encrypt_in_place(packet_number, header, payload)
    }
    fn decrypt_in_place<'a>(
        &self,
        packet_number: u64,
        header: &[u8],
        payload: &'a mut [u8],
    ) -> Result<&'a [u8], rustls::Error> {
        self.0.decrypt_in_place(packet_number, header, payload)
    }
    fn tag_len(&self) -> usize {
        self.0.tag_len()
    }
    fn confidentiality_limit(&self) -> u64 {
        self.0.confidentiality_limit()
    }
    fn integrity_limit(&self) -> u64 {
        self.0.integrity_limit()
    }
}

fn rebox(k: &QKeys) -> rustls::quic::Keys {
    rustls::quic::Keys {
        local: rustls::quic::DirectionalKeys {
            header: Box::new(HpW(k.local.header.clone())),
            packet: Box::new(PkW(k.local.packet.clone())),
        },
        remote: rustls::quic::DirectionalKeys {
            header: Box::new(HpW(k.remote.header.clone())),
            packet: Box::new(PkW(k.remote.packet.clone())),
        },
    }
}

/// Everything one cipher suite's handshakes yielded. Index 0 = client, 1 = server.
struct SuiteKeys {
    name: &'static str,
    handshake: [QKeys; 2],
    one_rtt: [(QKeys, Secrets); 2],
    /// 0-RTT: client encrypts, server decrypts
    zero_rtt: [DirectionalKeys; 2],
}

mod tls {
    use std::sync::Arc;

    use rustls::{
        DigitallySignedStruct, SignatureScheme,
        client::danger::{HandshakeSignatureValid, ServerCertVerified, ServerCertVerifier},
        pki_types::{CertificateDer, PrivateKeyDer, ServerName, UnixTime, pem::PemObject},
        quic::{ClientConnection, Connection, KeyChange, ServerConnection, Version},
    };

    /// The certificate is only a vehicle to obtain real traffic keys; its validity period must
    /// not make the check depend on the wall clock.
    #[derive(Debug)]
    struct AcceptAny(Arc<rustls::crypto::CryptoProvider>);
    impl ServerCertVerifier for AcceptAny {
        fn verify_server_cert(
            &self,
            _: &CertificateDer<'_>,
            _: &[CertificateDer<'_>],
            _: &ServerName<'_>,
            _: &[u8],
            _: UnixTime,
        ) -> Result<ServerCertVerified, rustls::Error> {
            Ok(ServerCertVerified::assertion())
        }
        fn verify_tls12_signature(
            &self,
            m: &[u8],
            c: &CertificateDer<'_>,
            d: &DigitallySignedStruct,
        ) -> Result<HandshakeSignatureValid, rustls::Error> {
            rustls::crypto::verify_tls12_signature(m, c, d, &self.0.signature_verification_algorithms)
        }
        fn verify_tls13_signature(
            &self,
            m: &[u8],
            c: &CertificateDer<'_>,
            d: &DigitallySignedStruct,
        ) -> Result<HandshakeSignatureValid, rustls::Error> {
            rustls::crypto::verify_tls13_signature(m, c, d, &self.0.signature_verification_algorithms)
        }
        fn supported_verify_schemes(&self) -> Vec<SignatureScheme> {
            self.0.signature_verification_algorithms.supported_schemes()
        }
    }

    pub struct Harvest {
        pub handshake: [Option<rustls::quic::Keys>; 2],
        pub one_rtt: [Option<(rustls::quic::Keys, rustls::quic::Secrets)>; 2],
        pub zero_rtt: [Option<rustls::quic::DirectionalKeys>; 2],
    }

    fn step(from: &mut Connection, to: &mut Connection, who: usize, h: &mut Harvest) -> bool {
        let mut progressed = false;
        loop {
            let mut buf = Vec::new();
            let change = from.write_hs(&mut buf);
            if buf.is_empty() && change.is_none() {
                break;
            }
            progressed = true;
            if !buf.is_empty() {
                to.read_hs(&buf).expect("in-memory TLS handshake failed (read_hs)");
            }
            match change {
                Some(KeyChange::Handshake { keys }) => h.handshake[who] = Some(keys),
                Some(KeyChange::OneRtt { keys, next }) => h.one_rtt[who] = Some((keys, next)),
                None => {}
            }
        }
        progressed
    }

    pub fn configs(
        suite: rustls::SupportedCipherSuite,
    ) -> (Arc<rustls::ClientConfig>, Arc<rustls::ServerConfig>) {
        let mut provider = rustls::crypto::ring::default_provider();
        provider.cipher_suites = vec![suite];
        let provider = Arc::new(provider);
        let certs: Vec<CertificateDer<'static>> = CertificateDer::pem_slice_iter(super::SERVER_CERT)
            .collect::<Result<_, _>>()
            .expect("server.cert");
        let key = PrivateKeyDer::from_pem_slice(super::SERVER_KEY).expect("server.key");
        let _ = super::CA_CERT;
        let mut server = rustls::ServerConfig::builder_with_provider(provider.clone())
            .with_protocol_versions(&[&rustls::version::TLS13])
            .unwrap()
            .with_no_client_auth()
            .with_single_cert(certs, key)
            .expect("server config");
        server.max_early_data_size = u32::MAX;
        server.alpn_protocols = vec![b"verif".to_vec()];
        let mut client = rustls::ClientConfig::builder_with_provider(provider.clone())
            .with_protocol_versions(&[&rustls::version::TLS13])
            .unwrap()
            .dangerous()
            .with_custom_certificate_verifier(Arc::new(AcceptAny(provider)))
            .with_no_client_auth();
        client.enable_early_data = true;
        client.alpn_protocols = vec![b"verif".to_vec()];
        (Arc::new(client), Arc::new(server))
    }

    /// One in-memory QUIC-TLS handshake (no network, no packets: CRYPTO data is handed over directly).
    pub fn handshake(client: &Arc<rustls::ClientConfig>, server: &Arc<rustls::ServerConfig>) -> Harvest {
        let params = vec![0x01, 0x02, 0x67, 0x10]; // opaque to rustls
        let mut c: Connection = ClientConnection::new(
            client.clone(),
            Version::V1,
            ServerName::try_from("localhost").unwrap(),
            params.clone(),
        )
        .expect("client connection")
        .into();
        let mut s: Connection = ServerConnection::new(server.clone(), Version::V1, params)
            .expect("server connection")
            .into();
        let mut h = Harvest {
            handshake: [None, None],
            one_rtt: [None, None],
            zero_rtt: [None, None],
        };
        for round in 0..12 {
            let a = step(&mut c, &mut s, 0, &mut h);
            if round == 0 {
                h.zero_rtt[0] = c.zero_rtt_keys();
                h.zero_rtt[1] = s.zero_rtt_keys();
            }
            let b = step(&mut s, &mut c, 1, &mut h);
            if !a && !b && !c.is_handshaking() && !s.is_handshaking() {
                break;
            }
        }
        assert!(!c.is_handshaking() && !s.is_handshaking(), "handshake did not complete");
        h
    }
}

fn build_suite(name: &'static str, suite: rustls::SupportedCipherSuite) -> SuiteKeys {
    let (cc, sc) = tls::configs(suite);
    // first handshake: full; delivers session tickets. second: resumed, yields 0-RTT keys.
    let _first = tls::handshake(&cc, &sc);
    let mut h = tls::handshake(&cc, &sc);
    let zero_c = h.zero_rtt[0].take().expect("client 0-RTT keys (resumption)");
    let zero_s = h.zero_rtt[1].take().expect("server 0-RTT keys (resumption)");
    let hs_c = QKeys::from(h.handshake[0].take().expect("client handshake keys"));
    let hs_s = QKeys::from(h.handshake[1].take().expect("server handshake keys"));
    let (k_c, sec_c) = h.one_rtt[0].take().expect("client 1-RTT keys");
    let (k_s, sec_s) = h.one_rtt[1].take().expect("server 1-RTT keys");
    SuiteKeys {
        name,
        handshake: [hs_c, hs_s],
        one_rtt: [(QKeys::from(k_c), sec_c), (QKeys::from(k_s), sec_s)],
        zero_rtt: [DirectionalKeys::from(zero_c), DirectionalKeys::from(zero_s)],
    }
}

fn material() -> &'static [SuiteKeys; 3] {
    static M: OnceLock<[SuiteKeys; 3]> = OnceLock::new();
    M.get_or_init(|| {
        use rustls::crypto::ring::cipher_suite::*;
        [
            build_suite("aes128gcm", TLS13_AES_128_GCM_SHA256),
            build_suite("aes256gcm", TLS13_AES_256_GCM_SHA384),
            build_suite("chacha20poly1305", TLS13_CHACHA20_POLY1305_SHA256),
        ]
    })
}

/// `qconnection/src/builder.rs::initial_keys_with`, verbatim.
fn initial_keys_with(origin_dcid: &ConnectionId, side: rustls::Side) -> QKeys {
    static P: OnceLock<Arc<rustls::crypto::CryptoProvider>> = OnceLock::new();
    let provider = P.get_or_init(|| Arc::new(rustls::crypto::ring::default_provider()));
    provider
        .cipher_suites
        .iter()
        .find_map(|cs| match (cs.suite(), cs.tls13()) {
            (rustls::CipherSuite::TLS13_AES_128_GCM_SHA256, Some(suite)) => Some(suite.quic_suite()),
            _ => None,
        })
        .flatten()
        .expect("crypto provider does not provide supported cipher suite")
        .keys(origin_dcid, side, rustls::quic::Version::V1)
        .into()
}

fn side(i: usize) -> rustls::Side {
    if i == 0 { rustls::Side::Client } else { rustls::Side::Server }
}

// ---------------------------------------------------------------------------------------------
// endpoints
// ---------------------------------------------------------------------------------------------

/// The key state of one endpoint (role 0 = client, 1 = server), built through the public
/// `qbase::packet::keys` API the way the connection does.
struct Endpoint {
    role: usize,
    initial: QKeys,
    handshake: QKeys,
    zero_rtt: DirectionalKeys,
    one_rtt: ArcOneRttKeys,
}

impl Endpoint {
    fn new(role: usize, suite: usize, odcid: &ConnectionId) -> Self {
        let m = &material()[suite];
        let one_rtt = ArcOneRttKeys::new_pending();
        one_rtt.set_keys(rebox(&m.one_rtt[role].0), m.one_rtt[role].1.clone());
        Self {
            role,
            initial: initial_keys_with(odcid, side(role)),
            handshake: m.handshake[role].clone(),
            zero_rtt: m.zero_rtt[role].clone(),
            one_rtt,
        }
    }

    fn one_rtt_pk(&self) -> ArcOneRttPacketKeys {
        self.one_rtt.remote_keys().expect("1-RTT keys installed").1
    }

    /// current key phase of this endpoint (what it would put into the next short header)
    fn phase(&self) -> bool {
        self.one_rtt_pk().lock_guard().get_local().0.into()
    }

    /// keys for sending a packet of type `ty`, as the spaces' `new_packet` obtain them
    fn tx_keys(&self, ty: Ty) -> Option<(DirectionalKeys, KeyPhaseBit)> {
        match ty {
            Ty::Initial => Some((self.initial.local.clone(), KeyPhaseBit::Zero)),
            Ty::Handshake => Some((self.handshake.local.clone(), KeyPhaseBit::Zero)),
            Ty::ZeroRtt => (self.role == 0).then(|| (self.zero_rtt.clone(), KeyPhaseBit::Zero)),
            Ty::OneRtt => {
                let (hpk, pk) = self.one_rtt.get_local_keys()?;
                let (phase, pk) = pk.lock_guard().get_local();
                Some((DirectionalKeys { header: hpk, packet: pk }, phase))
            }
        }
    }
}

// ---------------------------------------------------------------------------------------------
// case description
// ---------------------------------------------------------------------------------------------

#[derive(Debug, Clone, Copy, Serialize, Deserialize, PartialEq, Eq, PartialOrd, Ord)]
enum Ty {
    Initial,
    ZeroRtt,
    Handshake,
    OneRtt,
}

impl Ty {
    fn idx(self) -> usize {
        self as usize
    }
    fn name(self) -> &'static str {
        ["initial", "0rtt", "handshake", "1rtt"][self.idx()]
    }
}

#[derive(Debug, Clone, Serialize, Deserialize, PartialEq)]
enum BodyOp {
    Ping,
    /// `put_bytes(0, n)` — how the stack pads
    Padding(u16),
    /// CRYPTO frame (not in 0-RTT)
    Crypto { off: u32, len: u16 },
    /// opaque bytes written through `BufMut` (stream / datagram loaders write this way)
    Raw(u16),
    /// `PadToFull`
    Fill,
}

#[derive(Debug, Clone, Serialize, Deserialize)]
struct Pkt {
    ty: Ty,
    token_len: u16,
    pn: u64,
    /// 0 = `PacketNumber::encode(pn, largest_acked)` (what gm-quic sends); 1..=4 = forced width
    /// (what other implementations may send)
    width: u8,
    /// pn - largest_acked, mapped monotonically into 0..=min(pn, 2^31-1)
    la_back: u16,
    /// pn - expected, mapped monotonically into the decodable window
    exp_back: u16,
    /// expected - pn when exp_back maps to 0 (reordered arrival)
    exp_fwd: u8,
    spin: bool,
    body: Vec<BodyOp>,
}

#[derive(Debug, Clone, Serialize, Deserialize)]
struct Dgram {
    suite: u8,
    /// sender role: 0 = client sends to server
    from: u8,
    dcid_len: u8,
    scid_len: u8,
    odcid_len: u8,
    seed: u8,
    /// datagram capacity
    cap: u16,
    /// key updates the 1-RTT sender performed before this datagram
    ks: u8,
    /// the receiver retires the old key (`phase_out`) after each update, as the key API's doc demands
    retire: bool,
    pkts: Vec<Pkt>,
}

fn cid(seed: u8, salt: u64, len: usize) -> ConnectionId {
    ConnectionId::from_slice(&gens::content(seed as u64 ^ (salt << 8), 0, len))
}

// ---------------------------------------------------------------------------------------------
// sender
// ---------------------------------------------------------------------------------------------

/// What was assembled for one packet (the reference the receiver's output is compared with).
#[derive(Debug, Clone)]
struct Sent {
    ty: Ty,
    off: usize,
    len: usize,
    hdr_len: usize,
    pn: u64,
    pn_len: usize,
    expected: u64,
    phase: bool,
    spin: bool,
    dcid: Vec<u8>,
    scid: Vec<u8>,
    token: Vec<u8>,
    body: Vec<u8>,
}

fn varint_bytes(v: u64) -> Vec<u8> {
    if v < 1 << 6 {
        vec![v as u8]
    } else if v < 1 << 14 {
        ((1u16 << 14) | v as u16).to_be_bytes().to_vec()
    } else if v < 1 << 30 {
        ((2u32 << 30) | v as u32).to_be_bytes().to_vec()
    } else {
        ((3u64 << 62) | v).to_be_bytes().to_vec()
    }
}

/// The packet number as the receiver parses it from the wire. (`PacketNumber::encode` leaves the
/// upper byte of a `U24` unmasked; only its low 24 bits are written.)
fn on_wire(enc: PacketNumber) -> PacketNumber {
    match enc {
        PacketNumber::U24(x) => PacketNumber::U24(x & 0x00ff_ffff),
        other => other,
    }
}

/// (encoded pn, expected value handed to the receiver's decoder)
fn pn_plan(p: &Pkt) -> (PacketNumber, u64) {
    let pn = p.pn;
    let (enc, hwin) = match p.width {
        1 => (PacketNumber::U8(pn as u8), 1u64 << 7),
        2 => (PacketNumber::U16(pn as u16), 1 << 15),
        3 => (PacketNumber::U24(pn as u32 & 0xff_ffff), 1 << 23),
        4 => (PacketNumber::U32(pn as u32), 1 << 31),
        _ => {
            let d = gens::upto(p.la_back, pn.min((1 << 31) - 1));
            let enc = PacketNumber::encode(pn, pn - d);
            // receiver's next expected number lies in (largest_acked, pn]: window d+1
            (enc, d + 1)
        }
    };
    let hwin = hwin.min(1u64 << (8 * enc.size() - 1));
    let back = gens::upto(p.exp_back, pn.min(hwin - 1));
    let expected = if back == 0 {
        (pn + (p.exp_fwd as u64).min(100)).min(gens::VARINT_MAX)
    } else {
        pn - back
    };
    (enc, expected)
}

/// Assemble the body into any packet writer; returns the bytes the body must consist of.
fn load_body(w: &mut PacketWriter<'_>, p: &Pkt, seed: u8) -> Result<Vec<u8>, Fail> {
    let mut want: Vec<u8> = vec![];
    for (i, op) in p.body.iter().enumerate() {
        match op {
            BodyOp::Ping => {
                if w.assemble_packet(&mut PingFrame).is_ok() {
                    want.push(0x01);
                }
            }
            BodyOp::Padding(n) => {
                let n = (*n as usize).min(w.remaining_mut());
                w.put_bytes(0, n);
                want.extend(std::iter::repeat_n(0u8, n));
            }
            BodyOp::Crypto { off, len } => {
                if p.ty == Ty::ZeroRtt {
                    continue;
                }
                // the real loader (CryptoStream outgoing) sizes the data with estimate_max_capacity first
                let need = 1 + varint_bytes(*off as u64).len() + varint_bytes(*len as u64).len() + *len as usize;
                if w.remaining_mut() < need {
                    continue;
                }
                let data = Bytes::from(gens::content(seed as u64 + 77, *off as u64, *len as usize));
                let frame = CryptoFrame::new(VarInt::from_u32(*off), VarInt::from_u32(*len as u32));
                if w.assemble_packet(&mut (frame, data.clone())).is_ok() {
                    want.push(0x06);
                    want.extend(varint_bytes(*off as u64));
                    want.extend(varint_bytes(*len as u64));
                    want.extend_from_slice(&data);
                }
            }
            BodyOp::Raw(n) => {
                let n = (*n as usize).min(w.remaining_mut());
                let data = gens::content(seed as u64 + 13 * i as u64, p.pn, n);
                w.put_slice(&data);
                want.extend_from_slice(&data);
            }
            BodyOp::Fill => {
                if !w.is_empty() {
                    let n = w.remaining_mut();
                    if w.assemble_packet(&mut PadToFull).is_ok() {
                        want.extend(std::iter::repeat_n(0u8, n));
                    }
                }
            }
        }
    }
    if w.is_empty() {
        return Ok(want);
    }
    // every real transmit path finishes with PadTo20 (path/burst.rs, space.rs)
    let before = w.payload_len();
    w.assemble_packet(&mut PadTo20)
        .map_err(|_| Fail::new("harness", "PadTo20 refused a non-empty packet"))?;
    want.extend(std::iter::repeat_n(0u8, w.payload_len() - before));
    Ok(want)
}

/// Assemble, encrypt and protect one packet at `buf[off..]`. `None` = the real sender would not
/// have produced a packet either (no room / nothing loaded / no keys for this role).
fn send_packet(
    ep: &Endpoint,
    p: &Pkt,
    d: (&ConnectionId, &ConnectionId, u8),
    buf: &mut [u8],
    off: usize,
) -> Result<Option<Sent>, Fail> {
    let (dcid, scid, seed) = d;
    let Some((keys, phase)) = ep.tx_keys(p.ty) else {
        return Ok(None);
    };
    let (enc, expected) = pn_plan(p);
    // only a client puts a token into its Initial packets
    let token = if p.ty == Ty::Initial && ep.role == 0 {
        gens::content(seed as u64 + 5, 0, p.token_len as usize)
    } else {
        vec![]
    };
    let room = &mut buf[off..];
    let (hdr_len, writer) = match p.ty {
        Ty::Initial => {
            let h = LongHeaderBuilder::with_cid(*dcid, *scid).initial(token.clone());
            (h.size() + h.length_encoding(), PacketWriter::new_long(&h, room, (p.pn, enc), keys))
        }
        Ty::ZeroRtt => {
            let h = LongHeaderBuilder::with_cid(*dcid, *scid).zero_rtt();
            (h.size() + h.length_encoding(), PacketWriter::new_long(&h, room, (p.pn, enc), keys))
        }
        Ty::Handshake => {
            let h = LongHeaderBuilder::with_cid(*dcid, *scid).handshake();
            (h.size() + h.length_encoding(), PacketWriter::new_long(&h, room, (p.pn, enc), keys))
        }
        Ty::OneRtt => {
            let h = OneRttHeader::new(SpinBit::from(p.spin), *dcid);
            (h.size(), PacketWriter::new_short(&h, room, (p.pn, enc), keys, phase))
        }
    };
    let Ok(mut writer) = writer else {
        return Ok(None); // Signals::CONGESTION: not enough room, the real sender skips too
    };
    let want = load_body(&mut writer, p, seed)?;
    if writer.is_empty() {
        return Ok(None);
    }
    // what the writer holds right before protection is "what was assembled"
    let body_off = hdr_len + enc.size();
    let body_end = hdr_len + writer.payload_len();
    let snapshot = writer.buffer()[body_off..body_end].to_vec();
    ensure!(
        snapshot == want,
        "assembly-mismatch",
        "{} packet body in the writer differs from the loaded packages: {} vs {} bytes",
        p.ty.name(),
        snapshot.len(),
        want.len()
    );
    let expect_len = writer.packet_len();
    let (len, info) = writer.encrypt_and_protect_packet();
    ensure_eq!(len, expect_len, "sent-len", "encrypt_and_protect_packet length vs packet_len()");
    ensure_eq!(info.packet_number(), p.pn, "sent-pn", "PacketInfo pn");
    Ok(Some(Sent {
        ty: p.ty,
        off,
        len,
        hdr_len,
        pn: p.pn,
        pn_len: enc.size(),
        expected,
        phase: phase.into(),
        spin: p.spin,
        dcid: dcid.to_vec(),
        scid: if p.ty == Ty::OneRtt { vec![] } else { scid.to_vec() },
        token,
        body: want,
    }))
}

// ---------------------------------------------------------------------------------------------
// receiver
// ---------------------------------------------------------------------------------------------

#[derive(Debug, Clone, PartialEq)]
struct Plain {
    ty: Ty,
    dcid: Vec<u8>,
    scid: Vec<u8>,
    token: Vec<u8>,
    spin: bool,
    pn: u64,
    body: Vec<u8>,
    size: usize,
    payload_len: usize,
}

#[derive(Debug, Clone, PartialEq)]
enum Res {
    /// `None`: discarded
    Dropped,
    /// `Some(Err(_))`: connection error
    ConnErr(String),
    /// `Some(Ok(_))`: handed to frame parsing
    Accepted(Plain),
}

#[derive(Debug, Clone, PartialEq)]
enum Ev {
    ReaderErr,
    Vn,
    Retry,
    Data { ty: Ty, off: usize, len: usize, res: Res },
}

/// Receive-side view: which keys decrypt which packet type, and the pn decoder state per space.
struct Rx<'a> {
    initial: &'a DirectionalKeys,
    handshake: &'a DirectionalKeys,
    zero_rtt: Option<&'a DirectionalKeys>,
    one_rtt: (Arc<dyn HeaderProtectionKey>, ArcOneRttPacketKeys),
    dcid_len: usize,
    expected: [u64; 4],
}

impl<'a> Rx<'a> {
    fn of(ep: &'a Endpoint, dcid_len: usize, expected: [u64; 4]) -> Self {
        Self {
            initial: &ep.initial.remote,
            handshake: &ep.handshake.remote,
            zero_rtt: (ep.role == 1).then_some(&ep.zero_rtt),
            one_rtt: ep.one_rtt.remote_keys().expect("1-RTT keys installed"),
            dcid_len,
            expected,
        }
    }

    fn long<H>(
        &self,
        ty: Ty,
        cp: CipherPacket<H>,
        keys: &DirectionalKeys,
        f: impl FnOnce(&PlainPacket<H>) -> (Vec<u8>, Vec<u8>, Vec<u8>),
    ) -> Res
    where
        qevent::quic::PacketHeaderBuilder: for<'x> From<&'x H>,
    {
        let exp = self.expected[ty.idx()];
        match cp.decrypt_long_packet(keys.header.as_ref(), keys.packet.as_ref(), |pn| Ok(pn.decode(exp))) {
            None => Res::Dropped,
            Some(Err(e)) => Res::ConnErr(format!("{e:?}")),
            Some(Ok(pp)) => {
                let (dcid, scid, token) = f(&pp);
                Res::Accepted(Plain {
                    ty,
                    dcid,
                    scid,
                    token,
                    spin: false,
                    pn: pp.pn(),
                    body: pp.body().to_vec(),
                    size: pp.size(),
                    payload_len: pp.payload_len(),
                })
            }
        }
    }

    /// The receive path of `qinterface::component::route` + the spaces' `decrypt_*_packet`.
    fn receive(&self, datagram: &[u8]) -> Vec<Ev> {
        let mut out = vec![];
        let mut off = 0usize;
        for item in PacketReader::new(BytesMut::from(datagram), self.dcid_len) {
            let packet = match item {
                Err(_) => {
                    out.push(Ev::ReaderErr);
                    continue;
                }
                Ok(Packet::VN(_)) => {
                    out.push(Ev::Vn);
                    continue;
                }
                Ok(Packet::Retry(_)) => {
                    out.push(Ev::Retry);
                    continue;
                }
                Ok(Packet::Data(p)) => p,
            };
            let len = packet.bytes.len();
            let (ty, res) = match packet.header {
                DataHeader::Long(long::DataHeader::Initial(h)) => {
                    let cp: CipherPacket<InitialHeader> = CipherPacket::new(h, packet.bytes, packet.offset);
                    let res = self.long(Ty::Initial, cp, self.initial, |pp| {
                        (pp.dcid().to_vec(), pp.scid().to_vec(), pp.token().clone())
                    });
                    (Ty::Initial, res)
                }
                DataHeader::Long(long::DataHeader::Handshake(h)) => {
                    let cp: CipherPacket<HandshakeHeader> = CipherPacket::new(h, packet.bytes, packet.offset);
                    let res = self.long(Ty::Handshake, cp, self.handshake, |pp| {
                        (pp.dcid().to_vec(), pp.scid().to_vec(), vec![])
                    });
                    (Ty::Handshake, res)
                }
                DataHeader::Long(long::DataHeader::ZeroRtt(h)) => {
                    let cp: CipherPacket<ZeroRttHeader> = CipherPacket::new(h, packet.bytes, packet.offset);
                    let res = match self.zero_rtt {
                        // a client never has 0-RTT decrypt keys: `get_decrypt_keys()?` → None
                        None => Res::Dropped,
                        Some(k) => self.long(Ty::ZeroRtt, cp, k, |pp| {
                            (pp.dcid().to_vec(), pp.scid().to_vec(), vec![])
                        }),
                    };
                    (Ty::ZeroRtt, res)
                }
                DataHeader::Short(h) => {
                    let cp: CipherPacket<OneRttHeader> = CipherPacket::new(h, packet.bytes, packet.offset);
                    let exp = self.expected[Ty::OneRtt.idx()];
                    let res = match cp.decrypt_short_packet(self.one_rtt.0.as_ref(), &self.one_rtt.1, |pn| {
                        Ok(pn.decode(exp))
                    }) {
                        None => Res::Dropped,
                        Some(Err(e)) => Res::ConnErr(format!("{e:?}")),
                        Some(Ok(pp)) => Res::Accepted(Plain {
                            ty: Ty::OneRtt,
                            dcid: pp.dcid().to_vec(),
                            scid: vec![],
                            token: vec![],
                            spin: pp.spin().into(),
                            pn: pp.pn(),
                            body: pp.body().to_vec(),
                            size: pp.size(),
                            payload_len: pp.payload_len(),
                        }),
                    };
                    (Ty::OneRtt, res)
                }
            };
            out.push(Ev::Data { ty, off, len, res });
            off += len;
        }
        out
    }
}

fn matches_sent(p: &Plain, s: &Sent) -> Result<(), String> {
    macro_rules! eq {
        ($a:expr, $b:expr, $what:expr) => {
            if $a != $b {
                return Err(format!("{}: got {:?}, sent {:?}", $what, $a, $b));
            }
        };
    }
    eq!(p.ty, s.ty, "type");
    eq!(p.pn, s.pn, "packet number");
    eq!(p.dcid, s.dcid, "dcid");
    eq!(p.scid, s.scid, "scid");
    eq!(p.token, s.token, "token");
    eq!(p.spin, s.spin, "spin bit");
    eq!(p.size, s.len, "size()");
    eq!(p.payload_len, s.pn_len + s.body.len(), "payload_len()");
    if p.body != s.body {
        let at = p.body.iter().zip(&s.body).position(|(a, b)| a != b);
        return Err(format!(
            "body differs (len {} vs {}, first difference at {:?})",
            p.body.len(),
            s.body.len(),
            at
        ));
    }
    Ok(())
}

// ---------------------------------------------------------------------------------------------
// building a datagram from a case
// ---------------------------------------------------------------------------------------------

struct World {
    tx: Endpoint,
    rx: Endpoint,
    dcid: ConnectionId,
    datagram: Vec<u8>,
    sent: Vec<Sent>,
    expected: [u64; 4],
}

/// finding: the second (and any later) key update of the peer can not be followed because nothing
/// in the stack ever retires the previous key (`phase_out` has no caller)
const SIG_KEYUPDATE: &str = "keyupdate-next-generation-dropped-old-key-never-retired";
/// finding: reserved-bit check runs on unauthenticated bytes
const SIG_RESERVED: &str = "unauthenticated-packet-reserved-bits-connection-error";
/// finding (C03's): long-header CID length > 20 panics in the datagram reader
const SIG_CIDLEN_PANIC: &str = "reader-panic-long-header-cid-length-gt20";
/// observation outside the letter of the statement (nothing is delivered, the original still
/// decrypts): an unauthenticated key-phase bit installs the next keys, send keys included.
/// Never a verdict of this check; counted when listed in known-findings.
const SIG_PREAUTH_UPDATE: &str = "unauthenticated-key-phase-bit-triggers-key-update";

/// Signatures listed in known-findings.jsonl for this property.
static KNOWN: OnceLock<Vec<String>> = OnceLock::new();

/// A defect surfaced in the middle of a case. If it is a listed known finding, count it and go on
/// (the rest of the case is still checked); otherwise it is the verdict of this case.
fn tolerate(ctx: &mut CaseCtx, f: Fail) -> Outcome {
    let listed = KNOWN.get().is_some_and(|k| {
        k.iter().any(|p| match p.strip_suffix('*') {
            Some(prefix) => f.signature.starts_with(prefix),
            None => *p == f.signature,
        })
    });
    if listed {
        ctx.known.push(f);
        Ok(())
    } else {
        Err(f)
    }
}

/// Bring the 1-RTT key state of both ends to "sender performed `ks` key updates", driving the
/// receiver only through its real receive path (one delivered packet per generation).
fn advance_generations(w: &mut World, d: &Dgram, ctx: &mut CaseCtx) -> Result<bool, Fail> {
    for g in 0..d.ks {
        // a packet in generation g, delivered
        let ok = deliver_probe(w, d, 1_000 + g as u64)?;
        if !ok {
            if g >= 2 && !d.retire {
                tolerate(
                    ctx,
                    Fail::new(
                        SIG_KEYUPDATE,
                        format!("1-RTT packet of key generation {g} dropped by a receiver that followed generations 0..{g} (old key still installed)"),
                    ),
                )?;
                return Ok(false);
            }
            fail!("roundtrip-dropped", "1-RTT warm-up packet of key generation {g} was not accepted (retire={})", d.retire);
        }
        if d.retire && g >= 1 {
            w.rx.one_rtt_pk().lock_guard().phase_out();
        }
        // the peer initiates a key update (it has seen its packet of generation g acknowledged)
        w.tx.one_rtt_pk().lock_guard().update();
    }
    Ok(true)
}

/// One small 1-RTT packet tx → rx; true iff accepted and identical.
fn deliver_probe(w: &mut World, d: &Dgram, pn: u64) -> Result<bool, Fail> {
    let p = Pkt {
        ty: Ty::OneRtt,
        token_len: 0,
        pn,
        width: 0,
        la_back: 0,
        exp_back: 0,
        exp_fwd: 0,
        spin: false,
        body: vec![BodyOp::Ping, BodyOp::Raw(9)],
    };
    let mut buf = vec![0u8; 64];
    let scid = ConnectionId::default();
    let Some(s) = send_packet(&w.tx, &p, (&w.dcid, &scid, d.seed), &mut buf, 0)? else {
        fail!("harness", "probe packet not produced");
    };
    let mut exp = [0u64; 4];
    exp[Ty::OneRtt.idx()] = s.expected;
    let evs = Rx::of(&w.rx, w.dcid.len(), exp).receive(&buf[..s.len]);
    match evs.as_slice() {
        [Ev::Data { res: Res::Accepted(pl), .. }] => {
            matches_sent(pl, &s).map_err(|m| Fail::new("roundtrip-mismatch", format!("probe: {m}")))?;
            Ok(true)
        }
        [Ev::Data { res: Res::Dropped, .. }] => Ok(false),
        other => fail!("roundtrip-dropped", "probe packet: {other:?}"),
    }
}

fn build(d: &Dgram, ctx: &mut CaseCtx) -> Result<Option<World>, Fail> {
    let suite = d.suite as usize % 3;
    let from = (d.from & 1) as usize;
    let odcid = cid(d.seed, 3, d.odcid_len as usize);
    let dcid = cid(d.seed, 1, d.dcid_len as usize);
    let scid = cid(d.seed, 2, d.scid_len as usize);
    let mut w = World {
        tx: Endpoint::new(from, suite, &odcid),
        rx: Endpoint::new(1 - from, suite, &odcid),
        dcid,
        datagram: vec![],
        sent: vec![],
        expected: [0; 4],
    };
    if d.pkts.iter().any(|p| p.ty == Ty::OneRtt) && d.ks > 0 {
        if !advance_generations(&mut w, d, ctx)? {
            return Ok(None);
        }
    }
    let mut buf = vec![0u8; d.cap as usize];
    let mut off = 0;
    for p in &d.pkts {
        if let Some(s) = send_packet(&w.tx, p, (&w.dcid, &scid, d.seed), &mut buf, off)? {
            off += s.len;
            w.expected[p.ty.idx()] = s.expected;
            let short = s.ty == Ty::OneRtt;
            w.sent.push(s);
            if short {
                break; // a short-header packet ends the datagram
            }
        }
    }
    buf.truncate(off);
    w.datagram = buf;
    Ok(Some(w))
}

// ---------------------------------------------------------------------------------------------
// oracle: round trip
// ---------------------------------------------------------------------------------------------

fn classify(d: &Dgram, w: &World, ctx: &mut CaseCtx) {
    ctx.class(format!("packets={}", w.sent.len()));
    ctx.class(format!("suite={}", material()[d.suite as usize % 3].name));
    for s in &w.sent {
        ctx.class(format!("type={}", s.ty.name()));
        ctx.class(format!("pnlen={}", s.pn_len));
        ctx.class(match s.body.len() {
            0..=3 => "body<=3",
            4..=20 => "body<=20",
            21..=200 => "body<=200",
            201..=1000 => "body<=1000",
            _ => "body>1000",
        });
        ctx.class(match s.dcid.len() {
            0 => "dcid=0",
            1..=7 => "dcid=1..7",
            8 => "dcid=8",
            9..=19 => "dcid=9..19",
            _ => "dcid=20",
        });
        if s.ty == Ty::Initial {
            ctx.class(match s.token.len() {
                0 => "token=0",
                1..=63 => "token<64",
                _ => "token>=64",
            });
        }
        if s.ty == Ty::OneRtt {
            ctx.class(format!("keyphase={} gen={} retire={}", s.phase as u8, d.ks, d.retire));
        }
        if s.pn >= 1 << 32 {
            ctx.class("pn>=2^32");
        }
        if s.len + s.off == d.cap as usize {
            ctx.class("fills-datagram");
        }
        if s.pn_len + s.body.len() + 16 == 20 {
            ctx.class("minimal-20-byte-sample");
        }
    }
}

fn check_roundtrip(w: &World, evs: &[Ev]) -> Outcome {
    ensure_eq!(evs.len(), w.sent.len(), "roundtrip-split", "packets found in the datagram: {evs:?}");
    for (ev, s) in evs.iter().zip(&w.sent) {
        match ev {
            Ev::Data { ty, off, len, res } => {
                ensure!(
                    *ty == s.ty && *off == s.off && *len == s.len,
                    "roundtrip-split",
                    "reader split: {} at {}+{}, sent {} at {}+{}",
                    ty.name(),
                    off,
                    len,
                    s.ty.name(),
                    s.off,
                    s.len
                );
                match res {
                    Res::Accepted(p) => {
                        if let Err(m) = matches_sent(p, s) {
                            fail!("roundtrip-mismatch", "{} pn={} : {m}", s.ty.name(), s.pn);
                        }
                    }
                    Res::Dropped => fail!(
                        "roundtrip-dropped",
                        "{} packet pn={} pn_len={} body={}B dcid={}B phase={} was discarded by the matching receiver",
                        s.ty.name(),
                        s.pn,
                        s.pn_len,
                        s.body.len(),
                        s.dcid.len(),
                        s.phase as u8
                    ),
                    Res::ConnErr(e) => fail!(
                        "roundtrip-connection-error",
                        "{} packet pn={} made the matching receiver raise {e}",
                        s.ty.name(),
                        s.pn
                    ),
                }
            }
            other => fail!("roundtrip-split", "expected a {} packet, reader produced {other:?}", s.ty.name()),
        }
    }
    Ok(())
}

fn run_roundtrip(d: &Dgram, ctx: &mut CaseCtx) -> Outcome {
    let Some(w) = build(d, ctx)? else {
        ctx.class("ended-at-known-finding");
        return Ok(());
    };
    if w.sent.is_empty() {
        ctx.class("nothing-sent");
        return Ok(());
    }
    for (p, s) in d.pkts.iter().zip(&w.sent) {
        // sanity of the plan itself (packet-number coding is C07's subject)
        let (enc, exp) = pn_plan(p);
        if s.pn == p.pn {
            ensure_eq!(on_wire(enc).decode(exp), p.pn, "pn-decode-mismatch", "PacketNumber::decode({exp}) of {enc:?}");
        }
    }
    let phase_before = w.rx.phase();
    let evs = Rx::of(&w.rx, w.dcid.len(), w.expected).receive(&w.datagram);
    let last_gen_is_new = d.ks > 0 && w.sent.iter().any(|s| s.ty == Ty::OneRtt);
    match check_roundtrip(&w, &evs) {
        Err(f)
            if f.signature == "roundtrip-dropped"
                && last_gen_is_new
                && d.ks >= 2
                && !d.retire
                && only_short_dropped(&w, &evs) =>
        {
            ctx.class("known:keyupdate-dropped");
            return Err(Fail::new(SIG_KEYUPDATE, f.msg));
        }
        r => r?,
    }
    // a 1-RTT packet in a new generation makes the receiver follow the key update
    if let Some(s) = w.sent.iter().find(|s| s.ty == Ty::OneRtt) {
        ensure_eq!(w.rx.phase(), s.phase, "keyphase-not-followed", "receiver key phase after accepting a phase-{} packet", s.phase as u8);
        let _ = phase_before;
    }
    // receiving is repeatable: the same datagram decrypts identically again (no state damage)
    let again = Rx::of(&w.rx, w.dcid.len(), w.expected).receive(&w.datagram);
    ensure!(again == evs, "roundtrip-not-repeatable", "second receipt of the same datagram differs");
    classify(d, &w, ctx);
    if w.sent.iter().any(|s| s.body.len() > 20 && !s.dcid.is_empty()) {
        ctx.nontrivial();
    }
    Ok(())
}

fn only_short_dropped(w: &World, evs: &[Ev]) -> bool {
    evs.len() == w.sent.len()
        && evs.iter().zip(&w.sent).all(|(e, s)| match e {
            Ev::Data { res: Res::Accepted(p), .. } => matches_sent(p, s).is_ok(),
            Ev::Data { res: Res::Dropped, ty: Ty::OneRtt, .. } => true,
            _ => false,
        })
}

// ---------------------------------------------------------------------------------------------
// oracle: tampering
// ---------------------------------------------------------------------------------------------

#[derive(Default)]
struct TamperStats {
    flips: u64,
    reader_rejected: u64,
    dropped: u64,
    conn_err: u64,
    panics: u64,
    preauth_updates: u64,
}

/// Present a modified datagram. Whatever is accepted must be an untouched original packet other
/// than `target`; nothing may raise a connection error.
fn check_tampered(
    w: &World,
    rx_ep: &Endpoint,
    tampered: &[u8],
    target: usize,
    what: &str,
    ctx: &mut CaseCtx,
    st: &mut TamperStats,
) -> Outcome {
    st.flips += 1;
    let phase_before = rx_ep.phase();
    let evs = match vcore::guarded(|| Ok(Rx::of(rx_ep, w.dcid.len(), w.expected).receive(tampered))) {
        Ok(evs) => evs,
        Err(f) => {
            if f.signature.starts_with("panic@qbase/src/packet/io.rs")
                && f.msg.contains("parsing packet header never generates error or failure")
            {
                st.panics += 1;
                return tolerate(ctx, Fail::new(SIG_CIDLEN_PANIC, format!("{what}: {}", f.msg)));
            }
            return Err(Fail::new(format!("tamper-{}", f.signature), format!("{what}: {}", f.msg)));
        }
    };
    let t = &w.sent[target];
    let mut reached_crypto = false;
    for ev in &evs {
        match ev {
            Ev::ReaderErr | Ev::Vn | Ev::Retry => {}
            Ev::Data { off, len, res, ty } => {
                let overlaps_target = *off < t.off + t.len && t.off < off + len;
                if overlaps_target {
                    reached_crypto = true;
                }
                match res {
                    Res::Dropped => {}
                    Res::ConnErr(e) => {
                        st.conn_err += 1;
                        ensure!(
                            e.contains("ProtocolViolation") && e.contains("reserved bits"),
                            "tamper-connection-error-other",
                            "{what}: {} packet at {off} raised {e}",
                            ty.name()
                        );
                        tolerate(
                            ctx,
                            Fail::new(SIG_RESERVED, format!("{what}: {} packet raised {e} before authentication", ty.name())),
                        )?;
                    }
                    Res::Accepted(p) => {
                        let original = w
                            .sent
                            .iter()
                            .enumerate()
                            .find(|(i, s)| *i != target && s.off == *off && s.len == *len && matches_sent(p, s).is_ok());
                        ensure!(
                            original.is_some(),
                            "tamper-accepted",
                            "{what}: a {} packet (pn {}, {} body bytes) at {off}+{len} was accepted; target packet {} pn {} at {}+{}",
                            p.ty.name(),
                            p.pn,
                            p.body.len(),
                            t.ty.name(),
                            t.pn,
                            t.off,
                            t.len
                        );
                    }
                }
            }
        }
    }
    if reached_crypto {
        st.dropped += 1;
    } else {
        st.reader_rejected += 1;
    }
    if rx_ep.phase() != phase_before {
        st.preauth_updates += 1;
        ctx.known.push(Fail::new(
            SIG_PREAUTH_UPDATE,
            format!("{what}: receiver's send key phase toggled although nothing authenticated"),
        ));
    }
    Ok(())
}

/// Name the variant in an oracle failure, but keep the signatures of the findings stable.
fn prefixed(variant: &str, f: Fail) -> Fail {
    if f.signature.starts_with("tamper-") {
        Fail::new(format!("{variant}-{}", f.signature), f.msg)
    } else {
        f
    }
}

#[derive(Debug, Clone, Serialize, Deserialize)]
struct SweepCase {
    d: Dgram,
    target: u16,
    /// positions for packets > 200 bytes
    picks: Vec<u16>,
}

/// bit positions (relative to the target packet) to flip
fn sweep_positions(s: &Sent, picks: &[u16]) -> Vec<usize> {
    let nbits = s.len * 8;
    if s.len <= 200 {
        return (0..nbits).collect();
    }
    let mut v: Vec<usize> = vec![];
    // structure-aware part: first byte, the whole header, pn, the hp sample, the last two tag bytes
    v.extend(0..8);
    let pn_off = s.hdr_len;
    let hdr_bits = (pn_off + 4 + 16) * 8;
    let step = (hdr_bits / 96).max(1);
    v.extend((8..hdr_bits).step_by(step));
    v.extend((nbits - 16)..nbits);
    v.sort_unstable();
    v.dedup();
    // the rest of the 256 positions: drawn uniformly over the packet
    for p in picks {
        if v.len() >= 256 {
            break;
        }
        let b = gens::idx(*p, nbits);
        if !v.contains(&b) {
            v.push(b);
        }
    }
    v.sort_unstable();
    v
}

fn run_sweep(c: &SweepCase, ctx: &mut CaseCtx) -> Outcome {
    let d = &c.d;
    let Some(w) = build(d, ctx)? else {
        ctx.class("ended-at-known-finding");
        return Ok(());
    };
    if w.sent.is_empty() {
        ctx.class("nothing-sent");
        return Ok(());
    }
    let target = gens::idx(c.target, w.sent.len());
    let t = w.sent[target].clone();
    // fresh receiver state for the sweep: tampered packets first, the original afterwards
    let positions = sweep_positions(&t, &c.picks);
    let mut st = TamperStats::default();
    let mut buf = w.datagram.clone();
    for bit in &positions {
        let (byte, mask) = (t.off + bit / 8, 0x80u8 >> (bit % 8));
        buf[byte] ^= mask;
        let what = format!("bit {} (byte {} mask {:#04x}) of {} packet", bit, bit / 8, mask, t.ty.name());
        let r = check_tampered(&w, &w.rx, &buf, target, &what, ctx, &mut st);
        buf[byte] ^= mask;
        r?;
    }
    // metamorphic: after all the rejected packets the untouched original still decrypts
    let evs = Rx::of(&w.rx, w.dcid.len(), w.expected).receive(&w.datagram);
    if let Err(f) = check_roundtrip(&w, &evs) {
        if f.signature == "roundtrip-dropped" && d.ks >= 2 && !d.retire && only_short_dropped(&w, &evs) {
            return Err(Fail::new(SIG_KEYUPDATE, f.msg));
        }
        return Err(Fail::new(format!("after-tamper-{}", f.signature), f.msg));
    }
    ctx.class(format!("sweep:type={}", t.ty.name()));
    ctx.class(if t.len <= 200 { "sweep:exhaustive-bits" } else { "sweep:sampled-bits" });
    ctx.class(format!("sweep:packets={}", w.sent.len()));
    if st.conn_err > 0 {
        ctx.class("sweep:saw-reserved-bits-connerr");
    }
    if st.preauth_updates > 0 {
        ctx.class("sweep:saw-preauth-key-update");
    }
    if st.panics > 0 {
        ctx.class("sweep:saw-cidlen-panic");
    }
    if st.reader_rejected > 0 {
        ctx.class("sweep:some-flips-rejected-by-reader");
    }
    ctx.note(json!({
        "target": t.ty.name(), "packet_len": t.len, "flips": st.flips,
        "reached_header_unprotection_or_aead": st.dropped, "rejected_by_reader": st.reader_rejected,
        "connection_errors": st.conn_err, "reader_panics": st.panics,
    }));
    if st.dropped > 0 && t.body.len() > 20 && !t.dcid.is_empty() {
        ctx.nontrivial();
    }
    Ok(())
}

// ---------------------------------------------------------------------------------------------
// oracle: variants (wrong pn / wrong key / truncation)
// ---------------------------------------------------------------------------------------------

#[derive(Debug, Clone, Serialize, Deserialize)]
enum Variant {
    /// the receiver's pn state is off by k decode windows
    WrongPn { up: bool, k: u8 },
    /// receiver uses its keys for the opposite direction (a reflected packet)
    Reflected,
    /// receiver belongs to a connection with other secrets (other suite / other original dcid)
    OtherConnection { suite_shift: u8 },
    /// last n bytes of the datagram cut off
    Truncated { n: u16 },
    /// receiver's 1-RTT keys are `gap` (>= 2) generations away from the sender's
    CrossGeneration { gap: u8, receiver_ahead: bool },
}

#[derive(Debug, Clone, Serialize, Deserialize)]
struct VariantCase {
    d: Dgram,
    v: Variant,
}

fn run_variant(c: &VariantCase, ctx: &mut CaseCtx) -> Outcome {
    let d = &c.d;
    let Some(mut w) = build(d, ctx)? else {
        ctx.class("ended-at-known-finding");
        return Ok(());
    };
    if w.sent.is_empty() {
        ctx.class("nothing-sent");
        return Ok(());
    }
    let last = w.sent.len() - 1;
    let mut st = TamperStats::default();
    let suite = d.suite as usize % 3;
    let from = (d.from & 1) as usize;
    let odcid = cid(d.seed, 3, d.odcid_len as usize);
    match &c.v {
        Variant::WrongPn { up, k } => {
            // shift the receiver's expectation by whole windows: the truncated pn decodes to
            // pn ± k·2^(8·len) and the nonce is wrong. All packets of the datagram are affected.
            let k = (*k as u64).max(1);
            let mut exp = w.expected;
            let mut affected = vec![];
            for (i, s) in w.sent.iter().enumerate() {
                let win = 1u64 << (8 * s.pn_len);
                let e = exp[s.ty.idx()];
                let ne = if *up { e.checked_add(k * win).filter(|v| *v + win < (1 << 62)) } else { e.checked_sub(k * win) };
                // only a state from which the truncated number really decodes to another value
                let wire = on_wire(pn_plan(&d.pkts.iter().find(|p| p.ty == s.ty).unwrap()).0);
                if let Some(ne) = ne.filter(|ne| wire.decode(*ne) != s.pn) {
                    exp[s.ty.idx()] = ne;
                    affected.push(i);
                }
            }
            if affected.is_empty() {
                ctx.class("variant:wrong-pn-not-applicable");
                return Ok(());
            }
            let saved = w.expected;
            w.expected = exp;
            let evs = Rx::of(&w.rx, w.dcid.len(), w.expected).receive(&w.datagram);
            for (i, ev) in evs.iter().enumerate() {
                if !affected.contains(&i) {
                    continue;
                }
                match ev {
                    Ev::Data { res: Res::Dropped, .. } => {}
                    Ev::Data { res: Res::Accepted(p), .. } => fail!(
                        "wrong-pn-accepted",
                        "{} packet sent as pn {} accepted as pn {} (expected {} instead of {})",
                        p.ty.name(),
                        w.sent[i].pn,
                        p.pn,
                        exp[p.ty.idx()],
                        saved[p.ty.idx()]
                    ),
                    other => fail!("wrong-pn-other", "packet {i}: {other:?}"),
                }
            }
            w.expected = saved;
            ctx.class("variant:wrong-pn");
        }
        Variant::Reflected => {
            // the sender itself receives its own datagram
            let r = check_tampered(&w, &w.tx, &w.datagram, usize::MAX.min(last), "reflected datagram", ctx, &mut st);
            // every packet is "the target" here: nothing at all may be accepted
            r.map_err(|f| prefixed("reflected", f))?;
            let evs = vcore::guarded(|| Ok(Rx::of(&w.tx, w.dcid.len(), w.expected).receive(&w.datagram)))?;
            for ev in &evs {
                if let Ev::Data { res: Res::Accepted(p), .. } = ev {
                    fail!("reflected-accepted", "own {} packet pn {} accepted by its sender", p.ty.name(), p.pn);
                }
            }
            ctx.class("variant:reflected");
        }
        Variant::OtherConnection { suite_shift } => {
            let other_suite = (suite + 1 + (*suite_shift as usize % 2)) % 3;
            let other_odcid = cid(d.seed.wrapping_add(1), 9, d.odcid_len as usize);
            let stranger = Endpoint::new(1 - from, other_suite, &other_odcid);
            let evs = vcore::guarded(|| Ok(Rx::of(&stranger, w.dcid.len(), w.expected).receive(&w.datagram)))?;
            for ev in &evs {
                match ev {
                    Ev::Data { res: Res::Accepted(p), .. } => {
                        fail!("wrong-key-accepted", "{} packet pn {} accepted under another connection's keys", p.ty.name(), p.pn)
                    }
                    Ev::Data { res: Res::ConnErr(e), ty, .. } => {
                        ensure!(e.contains("reserved bits"), "wrong-key-connection-error-other", "{e}");
                        tolerate(ctx, Fail::new(SIG_RESERVED, format!("{} packet under foreign keys raised {e}", ty.name())))?;
                    }
                    _ => {}
                }
            }
            ctx.class("variant:other-connection");
        }
        Variant::Truncated { n } => {
            let n = 1 + gens::upto(*n, (w.datagram.len() as u64 - 1).min(48) - 1) as usize;
            let cut = &w.datagram[..w.datagram.len() - n];
            check_tampered(&w, &w.rx, cut, last, &format!("datagram truncated by {n}"), ctx, &mut st)
                .map_err(|f| prefixed("truncated", f))?;
            ctx.class("variant:truncated");
        }
        Variant::CrossGeneration { gap, receiver_ahead } => {
            let Some(si) = w.sent.iter().position(|s| s.ty == Ty::OneRtt) else {
                ctx.class("variant:cross-generation-not-applicable");
                return Ok(());
            };
            // a second receiver whose key generation differs by >= 2 from the sender's
            let gap = 2 + (*gap as usize % 2);
            let sender_gen = d.ks as usize;
            let recv_gen = if *receiver_ahead { sender_gen + gap } else { sender_gen.saturating_sub(gap) };
            if recv_gen.abs_diff(sender_gen) < 2 {
                ctx.class("variant:cross-generation-not-applicable");
                return Ok(());
            }
            let other = Endpoint::new(1 - from, suite, &odcid);
            for _ in 0..recv_gen {
                let pk = other.one_rtt_pk();
                let mut g = pk.lock_guard();
                g.update();
                g.phase_out();
            }
            let evs = Rx::of(&other, w.dcid.len(), w.expected).receive(&w.datagram);
            match evs.get(si) {
                Some(Ev::Data { res: Res::Dropped, .. }) => {}
                Some(Ev::Data { res: Res::Accepted(p), .. }) => fail!(
                    "cross-generation-accepted",
                    "1-RTT packet pn {} of key generation {sender_gen} accepted by a receiver at generation {recv_gen}",
                    p.pn
                ),
                other => fail!("cross-generation-other", "{other:?}"),
            }
            ctx.class("variant:cross-generation");
        }
    }
    // the matching receiver still gets the original
    let evs = Rx::of(&w.rx, w.dcid.len(), w.expected).receive(&w.datagram);
    if let Err(f) = check_roundtrip(&w, &evs) {
        if f.signature == "roundtrip-dropped" && d.ks >= 2 && !d.retire && only_short_dropped(&w, &evs) {
            return Err(Fail::new(SIG_KEYUPDATE, f.msg));
        }
        return Err(Fail::new(format!("after-variant-{}", f.signature), f.msg));
    }
    if w.sent.iter().any(|s| s.body.len() > 20 && !s.dcid.is_empty()) {
        ctx.nontrivial();
    }
    Ok(())
}


// ---------------------------------------------------------------------------------------------
// oracle: 1-RTT key-update histories
// ---------------------------------------------------------------------------------------------

#[derive(Debug, Clone, Serialize, Deserialize)]
enum HOp {
    /// endpoint `from` sends a 1-RTT packet; `hold` keeps it in flight for a later `Deliver`
    Send { from: u8, body: u16, hold: bool },
    /// deliver (and consume) an in-flight packet
    Deliver { idx: u16 },
    /// deliver a copy of an in-flight / the latest packet with one bit flipped
    Tamper { idx: u16, bit: u16 },
    /// the endpoint initiates a key update (only when RFC 9001 6.1 allows it)
    Update { who: u8 },
    /// the endpoint discards its previous receive key (`phase_out`), once the peer has followed
    Retire { who: u8 },
}

#[derive(Debug, Clone, Serialize, Deserialize)]
struct HCase {
    suite: u8,
    dcid_len: u8,
    seed: u8,
    /// the harness retires old keys on its own as soon as that is safe (what the key API's doc asks
    /// the owner to do); false = behave like the stack, which never calls `phase_out`
    auto_retire: bool,
    ops: Vec<HOp>,
}

struct Flight {
    to: usize,
    generation: u32,
    sent: Sent,
    bytes: Vec<u8>,
}

fn run_history(c: &HCase, ctx: &mut CaseCtx) -> Outcome {
    let suite = c.suite as usize % 3;
    let odcid = cid(c.seed, 3, 8);
    let dcid = cid(c.seed, 1, c.dcid_len as usize);
    let scid = ConnectionId::default();
    let eps = [Endpoint::new(0, suite, &odcid), Endpoint::new(1, suite, &odcid)];
    // reference model: generation of each endpoint and whether it still holds the previous receive key
    let mut generation = [0u32; 2];
    let mut old_retained = [false; 2];
    let mut next_pn = [0u64; 2];
    let mut flights: Vec<Flight> = vec![];
    let mut latest: Option<Flight> = None;
    let (mut followed, mut reordered_old, mut tampered, mut delivered) = (0u32, 0u32, 0u32, 0u32);
    let mut st = TamperStats::default();
    let mut tainted = false;

    // the ideal receiver's verdict, and the state change on acceptance
    fn ideal_accepts(g: u32, c: u32, old: bool) -> bool {
        g == c || (g + 1 == c && old) || g == c + 1
    }

    for (step, op) in c.ops.iter().enumerate() {
        let mut to_deliver: Option<Flight> = None;
        match op {
            HOp::Send { from, body, hold } => {
                let from = (*from & 1) as usize;
                let p = Pkt {
                    ty: Ty::OneRtt,
                    token_len: 0,
                    pn: next_pn[from],
                    width: 0,
                    la_back: 0,
                    exp_back: 0,
                    exp_fwd: 0,
                    spin: step % 2 == 1,
                    body: vec![BodyOp::Ping, BodyOp::Raw(1 + *body)],
                };
                next_pn[from] += 1;
                let mut buf = vec![0u8; 1400];
                let Some(s) = send_packet(&eps[from], &p, (&dcid, &scid, c.seed), &mut buf, 0)? else {
                    fail!("harness", "step {step}: packet not produced");
                };
                ensure_eq!(
                    s.phase,
                    generation[from] % 2 == 1,
                    "history-send-phase",
                    "step {step}: key phase of a packet sent in generation {}",
                    generation[from]
                );
                buf.truncate(s.len);
                let f = Flight { to: 1 - from, generation: generation[from], sent: s, bytes: buf };
                latest = Some(Flight { to: f.to, generation: f.generation, sent: f.sent.clone(), bytes: f.bytes.clone() });
                if *hold && flights.len() < 6 {
                    flights.push(f);
                } else {
                    to_deliver = Some(f);
                }
            }
            HOp::Deliver { idx } => {
                if flights.is_empty() {
                    continue;
                }
                to_deliver = Some(flights.remove(gens::idx(*idx, flights.len())));
            }
            HOp::Tamper { idx, bit } => {
                let f = if flights.is_empty() {
                    match &latest {
                        Some(f) => f,
                        None => continue,
                    }
                } else {
                    &flights[gens::idx(*idx, flights.len())]
                };
                let bit = gens::idx(*bit, f.bytes.len() * 8);
                let mut bytes = f.bytes.clone();
                bytes[bit / 8] ^= 0x80 >> (bit % 8);
                let rx = &eps[f.to];
                let before = rx.phase();
                let mut exp = [0u64; 4];
                exp[Ty::OneRtt.idx()] = f.sent.expected;
                let evs = Rx::of(rx, dcid.len(), exp).receive(&bytes);
                st.flips += 1;
                tampered += 1;
                for ev in &evs {
                    match ev {
                        Ev::Data { res: Res::Accepted(p), .. } => fail!(
                            "tamper-accepted",
                            "step {step}: 1-RTT packet pn {} accepted with bit {bit} flipped",
                            p.pn
                        ),
                        Ev::Data { res: Res::ConnErr(e), .. } => {
                            ensure!(e.contains("reserved bits"), "tamper-connection-error-other", "step {step}: {e}");
                            st.conn_err += 1;
                            tolerate(ctx, Fail::new(SIG_RESERVED, format!("step {step}: bit {bit}: {e}")))?;
                        }
                        _ => {}
                    }
                }
                if rx.phase() != before {
                    // the code installed the next generation for an unauthenticated packet; follow it
                    st.preauth_updates += 1;
                    ctx.known.push(Fail::new(
                        SIG_PREAUTH_UPDATE,
                        format!("step {step}: bit {bit} flipped: receiver moved to key phase {}", rx.phase() as u8),
                    ));
                    generation[f.to] += 1;
                    old_retained[f.to] = true;
                    // from here on the history contains a key update at a moment no conforming
                    // endpoint would have chosen
                    tainted = true;
                }
            }
            HOp::Update { who } => {
                let who = (*who & 1) as usize;
                // RFC 9001 6.1 / 6.5: only after the peer has been seen using the current keys, and
                // late enough (3 PTO) that nothing protected with older keys is still in flight —
                // by then a conforming receiver has discarded its old read keys
                if generation[who] != generation[1 - who]
                    || generation[who] >= 6
                    || flights.iter().any(|f| f.generation < generation[who])
                {
                    continue;
                }
                eps[who].one_rtt_pk().lock_guard().update();
                generation[who] += 1;
                old_retained[who] = true;
            }
            HOp::Retire { who } => {
                let who = (*who & 1) as usize;
                try_retire(who, &eps, &generation, &mut old_retained, &flights);
            }
        }
        if let Some(f) = to_deliver {
            let rx = &eps[f.to];
            let (g, cur, old) = (f.generation, generation[f.to], old_retained[f.to]);
            let mut exp = [0u64; 4];
            exp[Ty::OneRtt.idx()] = f.sent.expected;
            let evs = Rx::of(rx, dcid.len(), exp).receive(&f.bytes);
            let accepted = match evs.as_slice() {
                [Ev::Data { res: Res::Accepted(p), .. }] => {
                    matches_sent(p, &f.sent)
                        .map_err(|m| Fail::new("roundtrip-mismatch", format!("step {step}: {m}")))?;
                    true
                }
                [Ev::Data { res: Res::Dropped, .. }] => false,
                other => fail!("roundtrip-connection-error", "step {step}: untouched packet: {other:?}"),
            };
            let ideal = ideal_accepts(g, cur, old);
            if ideal && !accepted {
                if g == cur + 1 && cur >= 1 && old && tainted {
                    // consequence of the premature update above: the peer legitimately still holds
                    // its old read key (RFC 9001 6.5 allows this drop)
                    ctx.class("history:ended-at-drop-after-preauth-update");
                    return Ok(());
                }
                if g == cur + 1 && cur >= 1 && old {
                    ensure!(
                        !c.auto_retire,
                        "roundtrip-dropped",
                        "step {step}: generation {g} packet dropped at generation {cur} although the old key was retired whenever possible"
                    );
                    ctx.class("history:ended-at-keyupdate-finding");
                    return Err(Fail::new(
                        SIG_KEYUPDATE,
                        format!(
                            "step {step}: packet of key generation {g} dropped by an endpoint at generation {cur} that still holds the key of generation {}",
                            cur - 1
                        ),
                    ));
                }
                fail!(
                    "roundtrip-dropped",
                    "step {step}: 1-RTT packet pn {} of key generation {g} discarded by its receiver (generation {cur}, previous key retained: {old})",
                    f.sent.pn
                );
            }
            ensure!(
                ideal || !accepted,
                "cross-generation-accepted",
                "step {step}: packet of generation {g} accepted by an endpoint at generation {cur} (previous key retained: {old})"
            );
            if accepted {
                delivered += 1;
                if g == cur + 1 {
                    generation[f.to] = g;
                    old_retained[f.to] = true;
                    followed += 1;
                } else if g + 1 == cur {
                    reordered_old += 1;
                }
            }
        }
        if c.auto_retire {
            for who in 0..2 {
                try_retire(who, &eps, &generation, &mut old_retained, &flights);
            }
        }
        for who in 0..2 {
            ensure_eq!(
                eps[who].phase(),
                generation[who] % 2 == 1,
                "history-key-phase",
                "step {step} ({op:?}): key phase of endpoint {who} at generation {}",
                generation[who]
            );
        }
    }
    ctx.class(format!("history:followed-updates={}", followed.min(4)));
    ctx.class(format!("history:auto-retire={}", c.auto_retire));
    if reordered_old > 0 {
        ctx.class("history:old-generation-packet-after-update");
    }
    if tampered > 0 {
        ctx.class("history:tampered-delivery");
    }
    if st.preauth_updates > 0 {
        ctx.class("history:saw-preauth-key-update");
    }
    ctx.class(format!("history:max-generation={}", generation[0].max(generation[1]).min(6)));
    if followed >= 1 && delivered >= 2 && (tampered > 0 || reordered_old > 0) {
        ctx.nontrivial();
    }
    Ok(())
}

/// `phase_out` once it is safe: the peer has followed and nothing older is still in flight.
fn try_retire(who: usize, eps: &[Endpoint; 2], generation: &[u32; 2], old_retained: &mut [bool; 2], flights: &[Flight]) {
    if !old_retained[who] || generation[who] == 0 || generation[who] != generation[1 - who] {
        return;
    }
    if flights.iter().any(|f| f.to == who && f.generation < generation[who]) {
        return;
    }
    eps[who].one_rtt_pk().lock_guard().phase_out();
    old_retained[who] = false;
}

fn history_strategy() -> BoxedStrategy<HCase> {
    let op = prop_oneof![
        6 => (0u8..2, prop_oneof![0u16..6, 0u16..1200], prop_oneof![3 => Just(false), 1 => Just(true)])
            .prop_map(|(from, body, hold)| HOp::Send { from, body, hold }),
        2 => any::<u16>().prop_map(|idx| HOp::Deliver { idx }),
        2 => (any::<u16>(), prop_oneof![0u16..2184, any::<u16>()]).prop_map(|(idx, bit)| HOp::Tamper { idx, bit }),
        3 => (0u8..2).prop_map(|who| HOp::Update { who }),
        1 => (0u8..2).prop_map(|who| HOp::Retire { who }),
    ];
    (
        0u8..3,
        prop_oneof![Just(8u8), 0u8..=20],
        any::<u8>(),
        prop_oneof![2 => Just(true), 1 => Just(false)],
        proptest::collection::vec(op, 1..40),
    )
        .prop_map(|(suite, dcid_len, seed, auto_retire, ops)| HCase { suite, dcid_len, seed, auto_retire, ops })
        .boxed()
}

// ---------------------------------------------------------------------------------------------
// exhaustive small grid
// ---------------------------------------------------------------------------------------------

#[derive(Debug, Clone, Serialize, Deserialize)]
struct SmallCase {
    d: Dgram,
    sweep: bool,
}

fn run_small(c: &SmallCase, ctx: &mut CaseCtx) -> Outcome {
    if c.sweep {
        run_sweep(&SweepCase { d: c.d.clone(), target: 0, picks: vec![] }, ctx)
    } else {
        let r = run_roundtrip(&c.d, ctx);
        // in the grid every produced packet counts: the grid *is* the boundary set
        ctx.nontrivial = r.is_ok() && !ctx.classes.iter().any(|c| c == "nothing-sent");
        r
    }
}

fn small_grid(e: &mut vcore::Enumerator<SmallCase>, thorough: bool) {
    let variants: [(Ty, u16, u8); 8] = [
        (Ty::Initial, 0, 0),
        (Ty::Initial, 63, 0),
        (Ty::Initial, 64, 0),
        (Ty::ZeroRtt, 0, 0),
        (Ty::Handshake, 0, 0),
        (Ty::OneRtt, 0, 0),
        (Ty::OneRtt, 0, 1),
        (Ty::OneRtt, 0, 2),
    ];
    let bodies: &[u16] = if thorough { &[1, 2, 3, 4, 5, 6, 17, 18, 19, 20, 21] } else { &[1, 2, 3, 4, 5] };
    for suite in 0u8..3 {
        for (ty, token_len, ks) in variants {
            for from in 0u8..2 {
                if ty == Ty::ZeroRtt && from == 1 {
                    continue;
                }
                for dcid_len in 0u8..=20 {
                    for width in 1u8..=4 {
                        for body in bodies {
                            let sweep_here = matches!(dcid_len, 0 | 8 | 20) && matches!(width, 1 | 4) && *body == 1 && from == 0;
                            for sweep in [false, true] {
                                if sweep && !sweep_here {
                                    continue;
                                }
                                let d = Dgram {
                                    suite,
                                    from,
                                    dcid_len,
                                    scid_len: 20 - dcid_len,
                                    odcid_len: 8,
                                    seed: dcid_len.wrapping_mul(7) ^ width,
                                    cap: 1200,
                                    ks,
                                    retire: true,
                                    pkts: vec![Pkt {
                                        ty,
                                        token_len,
                                        pn: [0x7f, 0x80, 0xfedc, 0x00ab_cdef, 0x89ab_cdef_0123][width as usize],
                                        width,
                                        la_back: 0,
                                        exp_back: 0,
                                        exp_fwd: 0,
                                        spin: width % 2 == 0 && ty == Ty::OneRtt,
                                        body: vec![BodyOp::Raw(*body)],
                                    }],
                                };
                                e.case(&SmallCase { d, sweep }, run_small);
                                if e.stopped() {
                                    return;
                                }
                            }
                        }
                    }
                }
            }
        }
    }
}

// ---------------------------------------------------------------------------------------------
// generators
// ---------------------------------------------------------------------------------------------

fn pn_strategy() -> BoxedStrategy<u64> {
    prop_oneof![
        4 => 0u64..300,
        2 => 0u64..(1 << 17),
        2 => (1u64 << 15)..(1 << 33),
        1 => gens::varint(),
        1 => ((1u64 << 62) - 70_000)..(1u64 << 62),
    ]
    .boxed()
}

fn body_strategy(max: u16) -> BoxedStrategy<Vec<BodyOp>> {
    let op = prop_oneof![
        2 => Just(BodyOp::Ping),
        2 => (0u16..40).prop_map(BodyOp::Padding),
        3 => (prop_oneof![0u32..100, any::<u32>().prop_map(|x| x >> 2)], prop_oneof![0u16..30, 0u16..max])
            .prop_map(|(off, len)| BodyOp::Crypto { off, len }),
        3 => prop_oneof![1u16..8, 1u16..64, 1u16..=max].prop_map(BodyOp::Raw),
        1 => Just(BodyOp::Fill),
    ];
    proptest::collection::vec(op, 1..5).boxed()
}

fn pkt_strategy(ty: Ty) -> BoxedStrategy<Pkt> {
    (
        prop_oneof![3 => Just(0u16), 2 => 1u16..64, 2 => 64u16..=300],
        pn_strategy(),
        prop_oneof![3 => Just(0u8), 1 => 1u8..=4],
        (any::<u16>(), prop_oneof![Just(0u16), any::<u16>()], prop_oneof![3 => Just(0u8), 1 => 0u8..=100]),
        any::<bool>(),
        body_strategy(1500),
    )
        .prop_map(move |(token_len, pn, width, (la_back, exp_back, exp_fwd), spin, body)| Pkt {
            ty,
            token_len: if ty == Ty::Initial { token_len } else { 0 },
            pn,
            width,
            la_back,
            exp_back,
            exp_fwd,
            spin: spin && ty == Ty::OneRtt,
            body,
        })
        .boxed()
}

/// Packet types of one datagram: long-header packets in the order the stack coalesces them,
/// an optional short-header packet last. 0-RTT only travels client → server.
fn types_strategy(from: u8) -> BoxedStrategy<Vec<Ty>> {
    let longs: Vec<Ty> = if from == 0 {
        vec![Ty::Initial, Ty::ZeroRtt, Ty::Handshake]
    } else {
        vec![Ty::Initial, Ty::Handshake]
    };
    (proptest::collection::vec(any::<bool>(), longs.len()), 0u8..4)
        .prop_map(move |(take, short)| {
            let mut v: Vec<Ty> = longs.iter().zip(&take).filter(|(_, t)| **t).map(|(l, _)| *l).collect();
            v.truncate(if short > 0 { 2 } else { 3 });
            if short > 0 || v.is_empty() {
                v.push(Ty::OneRtt);
            }
            v
        })
        .boxed()
}

fn dgram_strategy() -> BoxedStrategy<Dgram> {
    (0u8..2)
        .prop_flat_map(|from| {
            (Just(from), types_strategy(from)).prop_flat_map(|(from, tys)| {
                let pkts: Vec<BoxedStrategy<Pkt>> = tys.iter().map(|t| pkt_strategy(*t)).collect();
                (
                    Just(from),
                    0u8..3,
                    prop_oneof![2 => Just(8u8), 1 => Just(0u8), 1 => Just(20u8), 3 => 0u8..=20],
                    prop_oneof![2 => Just(8u8), 1 => Just(0u8), 3 => 0u8..=20],
                    prop_oneof![3 => Just(8u8), 2 => 8u8..=20],
                    any::<u8>(),
                    prop_oneof![2 => Just(1200u16), 2 => Just(1472u16), 1 => Just(1500u16), 3 => 60u16..1500],
                    prop_oneof![4 => Just(0u8), 2 => Just(1u8), 1 => Just(2u8), 1 => Just(3u8)],
                    prop_oneof![3 => Just(true), 1 => Just(false)],
                    pkts,
                )
            })
        })
        .prop_map(|(from, suite, dcid_len, scid_len, odcid_len, seed, cap, ks, retire, pkts)| Dgram {
            suite,
            from,
            dcid_len,
            scid_len,
            odcid_len,
            seed,
            cap,
            ks,
            retire,
            pkts,
        })
        .boxed()
}

fn sweep_strategy() -> BoxedStrategy<SweepCase> {
    (dgram_strategy(), any::<u16>(), proptest::collection::vec(any::<u16>(), 170))
        .prop_map(|(mut d, target, picks)| {
            // keep most sweeps on packets small enough for an exhaustive bit sweep
            if d.seed % 4 != 0 {
                d.cap = d.cap.min(120 + (d.seed as u16 % 4) * 80);
            }
            SweepCase { d, target, picks }
        })
        .boxed()
}

fn variant_strategy() -> BoxedStrategy<VariantCase> {
    let v = prop_oneof![
        3 => (any::<bool>(), 1u8..4).prop_map(|(up, k)| Variant::WrongPn { up, k }),
        2 => Just(Variant::Reflected),
        2 => (0u8..2).prop_map(|suite_shift| Variant::OtherConnection { suite_shift }),
        2 => any::<u16>().prop_map(|n| Variant::Truncated { n }),
        2 => (0u8..2, any::<bool>()).prop_map(|(gap, receiver_ahead)| Variant::CrossGeneration { gap, receiver_ahead }),
    ];
    (dgram_strategy(), v).prop_map(|(d, v)| VariantCase { d, v }).boxed()
}

// ---------------------------------------------------------------------------------------------
// main
// ---------------------------------------------------------------------------------------------

fn main() {
    let mut check = Check::from_env("C06", "exploration");
    check.rule(
        "case = one datagram of 1..3 coalesced packets (Initial w/ token 0..300, 0-RTT, Handshake, 1-RTT) built with the real \
         PacketWriter + packages + PadTo20 and real rustls/ring keys (3 cipher suites; Initial keys per builder.rs), received \
         through PacketReader -> CipherPacket::decrypt_*; non-trivial (roundtrip/variants) = some accepted packet has a body > 20 \
         bytes and a non-empty DCID; non-trivial (tamper-sweep) = additionally at least one flipped bit got past the datagram \
         reader into header unprotection/AEAD; non-trivial (keyupdate-history) = >=1 key update followed and >=1 tampered or \
         reordered delivery; exhaustive-small: every packet the grid produces (the grid is the boundary set: dcid 0..20 x pn \
         width 1..4 x body 1..5 at the 20-byte sampling minimum x type/token/key generation x 3 suites). distinct = by hash of the serialised case.",
    );
    check.assume("cipher packets are opaque bodies for this property: bodies are PING/PADDING/CRYPTO frames and raw bytes written through BufMut");
    check.assume("the pn decoder handed to decrypt_* is PacketNumber::decode(expected) with `expected` inside the RFC 9000 A.3 window (decode correctness is C07)");
    check.assume("a peer initiates a key update only after its previous generation was received and nothing protected with older keys is still in flight (RFC 9001 6.1, 6.5)");
    let _ = material(); // handshakes happen here, once
    KNOWN.get_or_init(|| vcore::load_known_findings("C06").into_iter().map(|k| k.signature).collect());

    let thorough = !check.quick();
    check.exhaustive::<SmallCase, _>("exhaustive-small", true, |e| small_grid(e, thorough));
    let n = check.pick(120_000, 3_000_000);
    check.stage("roundtrip", n, 16, dgram_strategy, run_roundtrip);
    let n = check.pick(12_000, 200_000);
    check.stage("tamper-sweep", n, 16, sweep_strategy, run_sweep);
    let n = check.pick(80_000, 2_000_000);
    check.stage("variants", n, 16, variant_strategy, run_variant);
    let n = check.pick(60_000, 2_000_000);
    check.stage("keyupdate-history", n, 16, history_strategy, run_history);
    check.finish();
}
