//! C19 — datagrams are carried whole, within the peer's size limit, or not at all.
//!
//! Component level: two `qdatagram::DatagramFlow`s (sender A, receiver B).  The
//! application side of A is driven through `DatagramWriter`, the protocol side
//! through the real `DatagramFlow::try_load_data_into` into a hard-capacity packet
//! target (other frames before / after in the same packet, every remaining-space
//! value).  Every assembled packet is parsed back with `FrameReader`; packets that
//! are not lost are handed frame by frame to B (`ReceiveFrame::recv_frame`) and read
//! back through `DatagramReader`.  Frames of arbitrary size are also injected into B
//! directly (a peer that ignores our limit).
//!
//! Oracle (reference model = two FIFO queues of payloads):
//!  * on an open connection `send` refuses iff `1 + len > peer limit` (limit 0: no writer
//!    is handed out, or one that refuses everything);
//!  * a load call either refuses and leaves packet + queue untouched, or appends
//!    PADDING* + exactly one DATAGRAM frame whose payload is the queue head;
//!    an empty packet with room for `1 + len` bytes must take the head;
//!    the no-length form must leave no room behind it (anything the assembler
//!    appended later would become payload);
//!  * the frame put on the wire must itself respect the peer's limit
//!    (RFC 9221 §3: type + length + payload);
//!  * the whole packet decodes to exactly: frames before, datagrams, frames after;
//!  * the receiver accepts iff `frame size <= local max`, otherwise ProtocolViolation;
//!    accepted payloads come out unchanged, in order, nothing invented; a reader parked
//!    in poll_recv is woken by an arrival;
//!  * an accepted send wakes a packet-assembly task that waits on the signals
//!    `try_load_data_into` reported for the empty queue;
//!  * final drain with full-size empty packets: everything accepted comes out;
//!  * after a connection error nothing is demanded any more except: no datagram reaches
//!    a packet, and the reader does not invent data.
//!
//! Known findings on the unmodified tree (own signatures, search continues behind them):
//! `sent-frame-exceeds-peer-limit`, `accepted-oversized-blocks-queue`.

use std::{
    collections::VecDeque,
    future::Future,
    pin::Pin,
    sync::{
        Arc,
        atomic::{AtomicU64, Ordering},
    },
    task::{Context, Poll, Wake, Waker},
};

use bytes::{BufMut, Bytes, buf::UninitSlice};
use proptest::prelude::*;
use qbase::{
    error::{Error as QError, ErrorKind, QuicError},
    frame::{
        CryptoFrame, DatagramFrame, EncodeSize, Frame, FrameReader, FrameType, MaxDataFrame,
        PaddingFrame, PingFrame, io::ReceiveFrame,
    },
    net::{
        addr::EndpointAddr,
        route::Pathway,
        tx::{ArcSendWaker, ArcSendWakers, Signals},
    },
    packet::{
        Package, RecordFrame, SpinBit,
        r#type::{Type, short::OneRtt},
    },
    util::ContinuousData,
    varint::VarInt,
};
use qdatagram::{DatagramFlow, DatagramReader, DatagramWriter};
use serde::{Deserialize, Serialize};
use serde_json::json;
use vcore::{CaseCtx, Check, Fail, Outcome, ensure, ensure_eq, fail, gens, guarded};

// ---------------------------------------------------------------------------
// case
// ---------------------------------------------------------------------------

/// A frame other than DATAGRAM sharing the packet.
#[derive(Debug, Clone, Serialize, Deserialize, PartialEq)]
enum Other {
    Ping,
    Pad,
    MaxData(u32),
    /// CRYPTO frame carrying `n` bytes (a data frame with an explicit length)
    Crypto(u8),
}

/// Payload capacity of the packet offered to the datagram queue.
#[derive(Debug, Clone, Serialize, Deserialize, PartialEq)]
enum Cap {
    Abs(u32),
    /// bytes of the frames before + with-length size of the first `k` queued
    /// datagrams + `d`  (so `d` walks the last one across its size boundaries)
    Fit { k: u8, d: i8 },
    /// bytes of the frames before + payload length of the queue head + `d`
    Head { d: i8 },
    /// a full-size packet of this path
    Full,
}

/// A payload length, given absolutely or relative to a boundary of the case
/// (so the boundary survives shrinking of the other parameters).
#[derive(Debug, Clone, Serialize, Deserialize, PartialEq)]
enum Len {
    Abs(u32),
    /// smallest frame (1 + len) = peer limit + d
    Limit(i8),
    /// len = room of a full-size packet + d
    Full(i8),
}

impl Len {
    fn resolve(&self, limit: u64, full: u32) -> u32 {
        let v: i128 = match self {
            Len::Abs(v) => *v as i128,
            Len::Limit(d) => limit as i128 - 1 + *d as i128,
            Len::Full(d) => full as i128 + *d as i128,
        };
        v.clamp(0, 70_000) as u32
    }
}

#[derive(Debug, Clone, Serialize, Deserialize, PartialEq)]
enum Op {
    /// the application hands a datagram of `len` bytes to a writer handle
    Send { len: Len, slice: bool, second: bool },
    /// one packet is assembled: frames before, `loads` calls of try_load_data_into
    /// (255 = until it refuses, like `Repeat`), frames after while room remains
    Packet { cap: Cap, pre: Vec<Other>, loads: u8, post: Vec<Other>, lost: bool },
    /// the peer application reads one datagram: 0 poll_recv, 1 recv(), 2 read(&mut [u8; n]), 3 read_buf
    Read { how: u8, n: u32 },
    /// a DATAGRAM frame arrives at B that did not come from A (arbitrary size)
    Inject { len: Len, with_len: bool },
    /// connection error reported to flow A (false) or B (true)
    Close { b: bool },
}

#[derive(Debug, Clone, Serialize, Deserialize)]
struct Case {
    /// max_datagram_frame_size advertised by B = limit of A's writer = B's local maximum
    limit: u64,
    /// payload room of a full-size empty packet on this path (used by the final drain)
    full: u32,
    ops: Vec<Op>,
}

// ---------------------------------------------------------------------------
// hard-capacity packet target (what PacketWriter is to the real callers)
// ---------------------------------------------------------------------------

struct Fixed {
    buf: Vec<u8>,
    len: usize,
}

impl Fixed {
    fn new(cap: usize) -> Self {
        Self { buf: vec![0xA5; cap], len: 0 }
    }
    fn written(&self) -> &[u8] {
        &self.buf[..self.len]
    }
}

unsafe impl BufMut for Fixed {
    fn remaining_mut(&self) -> usize {
        self.buf.len() - self.len
    }
    unsafe fn advance_mut(&mut self, cnt: usize) {
        if cnt > self.remaining_mut() {
            panic!("advance out of bounds: advancing by {cnt} with {} left", self.remaining_mut());
        }
        self.len += cnt;
    }
    fn chunk_mut(&mut self) -> &mut UninitSlice {
        let at = self.len;
        UninitSlice::new(&mut self.buf[at..])
    }
}

impl<D: ContinuousData> RecordFrame<Frame<D>, D> for Fixed {
    fn record_frame(&mut self, _frame: &Frame<D>) {}
}

// ---------------------------------------------------------------------------
// helpers
// ---------------------------------------------------------------------------

fn vlen(v: u64) -> usize {
    match v {
        0..=63 => 1,
        64..=16383 => 2,
        16384..=1_073_741_823 => 4,
        _ => 8,
    }
}

fn vi(v: u64) -> VarInt {
    VarInt::from_u64(v).expect("varint range")
}

const PKT: Type = Type::Short(OneRtt(SpinBit::Zero));

struct CountWaker(AtomicU64);
impl Wake for CountWaker {
    fn wake(self: Arc<Self>) {
        self.0.fetch_add(1, Ordering::SeqCst);
    }
    fn wake_by_ref(self: &Arc<Self>) {
        self.0.fetch_add(1, Ordering::SeqCst);
    }
}

fn parse(payload: &[u8]) -> Result<Vec<Frame<Bytes>>, Fail> {
    let raw = Bytes::copy_from_slice(payload);
    guarded(|| {
        let mut out = vec![];
        for item in FrameReader::new(raw.clone(), PKT) {
            match item {
                Ok((f, _)) => out.push(f),
                Err(e) => return Err(Fail::new("packet-undecodable", format!("{e:?} after {} frames", out.len()))),
            }
        }
        Ok(out)
    })
}

fn short(f: &Frame<Bytes>) -> String {
    match f {
        Frame::Datagram(d, b) => format!("DATAGRAM(len_field={}, len={}, payload={}B)", d.encode_len(), d.len().into_u64(), b.len()),
        Frame::Crypto(c, b) => format!("CRYPTO({c:?}, {}B)", b.len()),
        other => format!("{other:?}"),
    }
}

/// payload of the `id`-th datagram the application sends / the `id`-th injected one:
/// a window into one position-dependent pseudo-random buffer, at an offset unique to the datagram
fn payload(id: u64, injected: bool, len: usize) -> Vec<u8> {
    static BASE: std::sync::OnceLock<Vec<u8>> = std::sync::OnceLock::new();
    let base = BASE.get_or_init(|| gens::content(0xDA, 0, 70_008 + 8192));
    let off = ((2 * id + injected as u64) * 13 % 8192) as usize;
    base[off..off + len].to_vec()
}

fn other_frame(o: &Other) -> (Frame<Bytes>, usize) {
    match o {
        Other::Ping => (Frame::Ping(PingFrame), 1),
        Other::Pad => (Frame::Padding(PaddingFrame), 1),
        Other::MaxData(v) => (Frame::MaxData(MaxDataFrame::new(vi(*v as u64))), 1 + vlen(*v as u64)),
        Other::Crypto(n) => {
            let data = Bytes::from(gens::content(0xC0, 0, *n as usize));
            let f = CryptoFrame::new(vi(0), vi(*n as u64));
            (Frame::Crypto(f, data), 1 + 1 + vlen(*n as u64) + *n as usize)
        }
    }
}

/// Put another frame into the packet the way the real sources do (Package::dump),
/// only when it fits completely (the real sources size their data first).
fn put_other(o: &Other, t: &mut Fixed, want: &mut Vec<Frame<Bytes>>) -> Outcome {
    let (f, size) = other_frame(o);
    if t.remaining_mut() < size {
        return Ok(());
    }
    let before = t.len;
    fn d<P: Package<Fixed>>(mut p: P, t: &mut Fixed) -> Result<qbase::packet::PacketContent, Signals> {
        p.dump(t)
    }
    let r = match f.clone() {
        Frame::Ping(x) => d(x, t),
        Frame::Padding(x) => d(x, t),
        Frame::MaxData(x) => d(x, t),
        Frame::Crypto(x, data) => d((x, data), t),
        _ => unreachable!(),
    };
    ensure!(r.is_ok() && t.len - before == size, "harness", "other frame {o:?}: {r:?}, wrote {}", t.len - before);
    want.push(f);
    Ok(())
}

// ---------------------------------------------------------------------------
// the world: real flows + reference model
// ---------------------------------------------------------------------------

#[derive(Default)]
struct Seen {
    send_ok: u32,
    send_refused: u32,
    send_boundary: bool,
    load_ok: u32,
    load_nolen: u32,
    load_refused_space: u32,
    load_boundary: bool,
    multi_in_packet: bool,
    shared_packet: bool,
    lost_datagrams: u32,
    delivered: u32,
    read_ok: u32,
    read_pending: u32,
    inject_ok: u32,
    inject_violation: u32,
    inject_boundary: bool,
    wake_tx: u32,
    wake_rx: u32,
    closed_a: bool,
    closed_b: bool,
    blocked: bool,
    over_limit_sent: u32,
}

struct World {
    limit: u64,
    full: u32,
    a: DatagramFlow,
    b: DatagramFlow,
    writers: [Option<DatagramWriter>; 2],
    reader: Option<DatagramReader>,
    // model
    queue: VecDeque<(u64, Vec<u8>)>,
    rx: VecDeque<Vec<u8>>,
    a_err: bool,
    b_err: bool,
    next_id: u64,
    next_inj: u64,
    // wakers
    tx_waker: ArcSendWaker,
    tx_count: Arc<CountWaker>,
    rx_count: Arc<CountWaker>,
    rx_armed: Option<u64>,
    seen: Seen,
}

fn conn_error() -> QError {
    QuicError::new(ErrorKind::Internal, FrameType::Padding.into(), "verif: connection error").into()
}

impl World {
    fn new(limit: u64, full: u32, ctx: &mut CaseCtx) -> Result<Self, Fail> {
        let wakers = ArcSendWakers::default();
        let tx_waker = ArcSendWaker::new();
        let addr = |p: u16| EndpointAddr::direct(std::net::SocketAddr::from(([10, 0, 0, 1], p)));
        wakers.insert(Pathway::new(addr(1), addr(2)), &tx_waker);
        // A's own receive limit plays no role in the A -> B direction; B's send side is unused
        let a = DatagramFlow::new(limit, wakers);
        let b = DatagramFlow::new(limit, ArcSendWakers::default());
        let w = a.writer(limit);
        let r = b.reader();
        if limit == 0 {
            // RFC 9221 §3: 0 / absent = the extension is not supported.  No writer / reader is the
            // documented behaviour; a handle that refuses everything would satisfy the property too,
            // so a handle that is handed out is simply driven like any other.
            ctx.class("limit=0");
            ctx.class(if w.is_ok() { "limit=0:writer-handed-out" } else { "limit=0:no-writer" });
            ctx.class(if r.is_ok() { "limit=0:reader-handed-out" } else { "limit=0:no-reader" });
        } else {
            ensure!(w.is_ok(), "writer-unavailable", "writer({limit}) failed on an open connection: {:?}", w.as_ref().err());
            ensure!(r.is_ok(), "reader-unavailable", "reader() failed on an open connection with local max {limit}: {:?}", r.as_ref().err());
        }
        Ok(Self {
            limit,
            full,
            a,
            b,
            writers: [w.ok(), None],
            reader: r.ok(),
            queue: VecDeque::new(),
            rx: VecDeque::new(),
            a_err: false,
            b_err: false,
            next_id: 0,
            next_inj: 0,
            tx_waker,
            tx_count: Arc::new(CountWaker(AtomicU64::new(0))),
            rx_count: Arc::new(CountWaker(AtomicU64::new(0))),
            rx_armed: None,
            seen: Seen::default(),
        })
    }

    fn near_limit(&self, frame_size: u64) -> bool {
        frame_size + 3 >= self.limit && frame_size <= self.limit + 3
    }

    // ------------------------------------------------------------- send
    fn send(&mut self, step: usize, len: u32, slice: bool, second: bool) -> Outcome {
        let len = len as usize;
        let h = second as usize;
        if self.writers[h].is_none() {
            // a second handle is obtained the same way as the first
            let w = self.a.writer(self.limit);
            if w.is_err() && (self.limit == 0 || self.a_err) {
                return Ok(()); // no way to send at all
            }
            ensure!(w.is_ok(), "writer-unavailable", "step {step}: another writer on an open connection: {:?}", w.as_ref().err());
            self.writers[h] = w.ok();
        }
        let id = self.next_id;
        self.next_id += 1;
        let data = payload(id, false, len);

        // a packet-assembly task that found the queue empty parks on the signals it was given
        let mut parked: Option<Pin<Box<dyn Future<Output = ()>>>> = None;
        let tx_waker = Waker::from(self.tx_count.clone());
        if !self.a_err && self.queue.is_empty() {
            let mut t = Fixed::new(1200);
            let r = self.a.try_load_data_into(&mut t);
            let Err(sig) = r else {
                fail!("load-from-empty-queue", "step {step}: try_load_data_into succeeded on an empty queue")
            };
            ensure_eq!(t.len, 0, "load-from-empty-queue", "step {step}: bytes written from an empty queue");
            let w = self.tx_waker.clone();
            let mut fut: Pin<Box<dyn Future<Output = ()>>> = Box::pin(async move { w.wait_for(sig).await });
            let mut cx = Context::from_waker(&tx_waker);
            // a stale "condition met" flag from an earlier wake makes the first wait return at once;
            // the task would retry, find nothing and wait again
            let mut pending = false;
            for _ in 0..3 {
                if fut.as_mut().poll(&mut cx).is_pending() {
                    pending = true;
                    break;
                }
                let w = self.tx_waker.clone();
                fut = Box::pin(async move { w.wait_for(sig).await });
            }
            ensure!(pending, "harness", "step {step}: send waker never parks on {sig:?}");
            parked = Some(fut);
        }
        let woken_before = self.tx_count.0.load(Ordering::SeqCst);

        let w = self.writers[h].as_ref().unwrap();
        let r = if slice { w.send(&data) } else { w.send_bytes(Bytes::from(data.clone())) };

        if self.a_err {
            // the property speaks about open connections; whatever send answers now, nothing may
            // reach a packet any more (checked by the loads)
            return Ok(());
        }
        let fits = 1 + len as u64 <= self.limit;
        if self.near_limit(1 + len as u64) {
            self.seen.send_boundary = true;
        }
        match (&r, fits) {
            (Ok(()), true) => {
                self.queue.push_back((id, data));
                self.seen.send_ok += 1;
            }
            (Err(_), false) => self.seen.send_refused += 1,
            (Ok(()), false) => fail!(
                "send-accepted-too-large",
                "step {step}: send({len}) accepted although even the smallest frame (1+{len}) exceeds the peer's max_datagram_frame_size {}",
                self.limit
            ),
            (Err(e), true) => fail!(
                "send-refused-fitting",
                "step {step}: send({len}) refused ({e}) although a {}-byte frame fits the peer's max_datagram_frame_size {}",
                1 + len,
                self.limit
            ),
        }
        if let (Some(mut fut), true) = (parked, r.is_ok()) {
            let woken = self.tx_count.0.load(Ordering::SeqCst);
            let mut cx = Context::from_waker(&tx_waker);
            ensure!(
                woken > woken_before && fut.as_mut().poll(&mut cx).is_ready(),
                "send-does-not-wake-sender",
                "step {step}: packet assembly parked on the signals reported for the empty queue was not woken by an accepted send (wakes {woken_before} -> {woken})"
            );
            self.seen.wake_tx += 1;
        }
        Ok(())
    }

    // ------------------------------------------------------------- one load call
    /// returns whether a datagram was loaded
    fn load_once(&mut self, step: usize, t: &mut Fixed, want: &mut Vec<Frame<Bytes>>, ctx: &mut CaseCtx) -> Result<bool, Fail> {
        let before = t.len;
        let rem = t.remaining_mut();
        let r = guarded(|| Ok(self.a.try_load_data_into(t)))
            .map_err(|e| Fail::new("load-panic", format!("step {step}: room {rem}, head {:?}: {}", self.queue.front().map(|h| h.1.len()), e.msg)))?;
        let wrote = t.len - before;
        if self.a_err || self.queue.is_empty() {
            ensure!(r.is_err() && wrote == 0, "load-from-empty-queue", "step {step}: {r:?}, {wrote} bytes written with nothing to send (closed {})", self.a_err);
            return Ok(false);
        }
        let l = self.queue.front().unwrap().1.len();
        if rem + 3 >= 1 + l && rem <= 1 + vlen(l as u64) + l + 3 {
            self.seen.load_boundary = true;
        }
        match r {
            Err(sig) => {
                ensure_eq!(wrote, 0, "load-refused-but-wrote", "step {step}: refused ({sig:?}) yet bytes were written");
                if before == 0 && rem > l {
                    fail!(
                        "load-refused-fitting",
                        "step {step}: an empty packet with {rem} bytes of room refused ({sig:?}) the queued {l}-byte datagram (needs {})",
                        1 + l
                    );
                }
                if rem <= l {
                    self.seen.load_refused_space += 1;
                    ctx.class(format!("refuse-space:{sig:?}"));
                }
                // the head must still be there: checked by later loads / the final drain
                Ok(false)
            }
            Ok(()) => {
                ensure!(rem > l, "load-overrun", "step {step}: loaded a {l}-byte datagram into {rem} bytes of room");
                let frames = parse(&t.buf[before..t.len]).map_err(|e| Fail::new(e.signature, format!("step {step}: bytes written by the load: {}", e.msg)))?;
                let n_dgram = frames.iter().filter(|f| matches!(f, Frame::Datagram(..))).count();
                ensure_eq!(n_dgram, 1, "load-frame-count", "step {step}: DATAGRAM frames written by one load call [{}]", frames.iter().map(short).collect::<Vec<_>>().join(", "));
                let (id, data) = self.queue.pop_front().unwrap();
                for (i, f) in frames.iter().enumerate() {
                    let last = i + 1 == frames.len();
                    match f {
                        Frame::Padding(_) if !last => {}
                        Frame::Datagram(df, body) if last => {
                            ensure!(
                                body[..] == data[..],
                                "load-payload",
                                "step {step}: datagram #{id} ({l} bytes) went out as {} with different payload (room {rem})",
                                short(f)
                            );
                            ensure_eq!(df.len().into_u64(), l as u64, "load-payload", "step {step}: frame length");
                            let wire = df.encoding_size() + body.len();
                            if !df.encode_len() {
                                self.seen.load_nolen += 1;
                                ensure_eq!(
                                    t.remaining_mut(),
                                    0,
                                    "nolen-not-last",
                                    "step {step}: length-less DATAGRAM ({l} bytes) written with room left in the packet (room before {rem})"
                                );
                            }
                            if wire as u64 > self.limit {
                                self.seen.over_limit_sent += 1;
                                ctx.known.push(Fail::new(
                                    "sent-frame-exceeds-peer-limit",
                                    format!(
                                        "step {step}: accepted {l}-byte datagram put on the wire as a {wire}-byte DATAGRAM frame (length field {} bytes) > peer max_datagram_frame_size {}; room was {rem}",
                                        df.encoding_size() - 1,
                                        self.limit
                                    ),
                                ));
                            }
                        }
                        other => fail!("load-foreign-frame", "step {step}: load call wrote {} at position {i}/{}", short(other), frames.len()),
                    }
                }
                want.extend(frames);
                self.seen.load_ok += 1;
                Ok(true)
            }
        }
    }

    // ------------------------------------------------------------- receiver
    fn deliver(&mut self, step: usize, f: DatagramFrame, body: Bytes, from_a: bool) -> Outcome {
        let wire = f.encoding_size() as u64 + body.len() as u64;
        let r = self.b.recv_frame((f, body.clone()));
        if self.b_err {
            // not an open connection any more: no verdict; remember what was taken so that a later
            // read can still be told from invented data
            if r.is_ok() {
                self.rx.push_back(body.to_vec());
            }
            return Ok(());
        }
        if wire <= self.limit {
            ensure!(r.is_ok(), "recv-refused-within-limit", "step {step}: {wire}-byte DATAGRAM frame refused with local max {}: {r:?}", self.limit);
            self.rx.push_back(body.to_vec());
            self.seen.delivered += 1;
            if let Some(at) = self.rx_armed.take() {
                let now = self.rx_count.0.load(Ordering::SeqCst);
                ensure!(now > at, "recv-does-not-wake-reader", "step {step}: reader parked in poll_recv was not woken by an arriving datagram");
                self.seen.wake_rx += 1;
            }
        } else {
            match &r {
                Ok(()) => fail!("recv-accepted-over-limit", "step {step}: {wire}-byte DATAGRAM frame accepted with local max_datagram_frame_size {}", self.limit),
                Err(e) => {
                    ensure_eq!(e.kind(), ErrorKind::ProtocolViolation, "recv-over-limit-error-kind", "step {step}: error for an oversized DATAGRAM frame");
                }
            }
            if !from_a {
                // the connection reacts to the error the way qconnection does (lib.rs: on_conn_error on every component)
                let e = r.unwrap_err();
                self.close_b(&e);
                self.seen.inject_violation += 1;
            }
            // from A: this is the consequence of `sent-frame-exceeds-peer-limit`; the datagram
            // counts as lost and the search continues on a connection that is kept open
        }
        Ok(())
    }

    /// After a connection error the property has nothing more to say about B, except that the
    /// reader must not invent data: a read may fail, park, or hand out what was received before.
    fn close_b(&mut self, e: &QError) {
        self.b.on_conn_error(e);
        self.b_err = true;
        self.seen.closed_b = true;
        self.rx_armed = None;
    }

    fn read(&mut self, step: usize, how: u8, n: u32) -> Outcome {
        let Some(reader) = self.reader.as_mut() else {
            return Ok(());
        };
        let waker = Waker::from(self.rx_count.clone());
        let mut cx = Context::from_waker(&waker);
        let n = n as usize;
        // normalise the four read flavours to (bytes obtained, how much of the datagram they must cover)
        let mut slice_buf = vec![0u8; n];
        let mut vec_buf: Vec<u8> = Vec::new();
        let polled: Poll<std::io::Result<Vec<u8>>> = match how {
            0 => reader.poll_recv(&mut cx).map(|r| r.map(|b| b.to_vec())),
            1 => Pin::new(&mut reader.recv()).poll(&mut cx).map(|r| r.map(|b| b.to_vec())),
            2 => Pin::new(&mut reader.read(&mut slice_buf)).poll(&mut cx).map(|r| r.map(|k| vec![0; k])),
            _ => Pin::new(&mut reader.read_buf(&mut vec_buf)).poll(&mut cx).map(|r| r.map(|k| vec![0; k])),
        };
        if self.b_err && !matches!(polled, Poll::Ready(Ok(_))) {
            return Ok(());
        }
        match (polled, self.rx.pop_front()) {
            (Poll::Pending, None) => {
                self.rx_armed = Some(self.rx_count.0.load(Ordering::SeqCst));
                self.seen.read_pending += 1;
            }
            (Poll::Pending, Some(w)) => fail!("read-pending-with-data", "step {step}: Pending although a {}-byte datagram was received", w.len()),
            (Poll::Ready(Err(e)), _) => fail!("read-error-on-open", "step {step}: {e}"),
            (Poll::Ready(Ok(got)), None) => fail!("read-invented", "step {step}: reader produced {} bytes nobody sent", got.len()),
            (Poll::Ready(Ok(got)), Some(w)) => {
                let got: Vec<u8> = match how {
                    0 | 1 => got,
                    2 => {
                        ensure_eq!(got.len(), w.len().min(n), "read-len", "step {step}: read() into {n} bytes of a {}-byte datagram", w.len());
                        slice_buf[..got.len()].to_vec()
                    }
                    _ => {
                        ensure_eq!(got.len(), vec_buf.len(), "read-len", "step {step}: read_buf() return value vs bytes appended");
                        vec_buf.clone()
                    }
                };
                let expect = if how == 2 { &w[..w.len().min(n)] } else { &w[..] };
                ensure!(
                    got[..] == *expect,
                    "read-payload",
                    "step {step}: reader returned {} bytes (first {:02x?}), expected the next received datagram of {} bytes (first {:02x?})",
                    got.len(),
                    &got[..got.len().min(8)],
                    w.len(),
                    &w[..w.len().min(8)]
                );
                self.seen.read_ok += 1;
            }
        }
        Ok(())
    }

    // ------------------------------------------------------------- packet
    fn resolve_cap(&self, cap: &Cap, pre_bytes: usize) -> usize {
        let with_len = |l: usize| 1 + vlen(l as u64) + l;
        let v: i64 = match cap {
            Cap::Abs(c) => *c as i64,
            Cap::Full => self.full as i64,
            Cap::Fit { k, d } => {
                pre_bytes as i64 + self.queue.iter().take(*k as usize).map(|q| with_len(q.1.len())).sum::<usize>() as i64 + *d as i64
            }
            Cap::Head { d } => pre_bytes as i64 + self.queue.front().map(|q| q.1.len()).unwrap_or(0) as i64 + *d as i64,
        };
        v.clamp(0, 70_000) as usize
    }

    #[allow(clippy::too_many_arguments)]
    fn packet(&mut self, step: usize, cap: &Cap, pre: &[Other], loads: u8, post: &[Other], lost: bool, ctx: &mut CaseCtx) -> Outcome {
        let pre_bytes: usize = pre.iter().map(|o| other_frame(o).1).sum();
        let cap = self.resolve_cap(cap, pre_bytes);
        let mut t = Fixed::new(cap);
        let mut want: Vec<Frame<Bytes>> = vec![];
        for o in pre {
            put_other(o, &mut t, &mut want)?;
        }
        let others_before = want.len();
        let mut loaded = 0u32;
        let max_loads = if loads == 255 { self.queue.len() + 1 } else { loads as usize };
        for _ in 0..max_loads {
            let ok = self.load_once(step, &mut t, &mut want, ctx)?;
            if ok {
                loaded += 1;
            } else if loads == 255 {
                break;
            }
        }
        let dgram_end = want.len();
        for o in post {
            put_other(o, &mut t, &mut want)?;
        }
        if loaded >= 2 {
            self.seen.multi_in_packet = true;
        }
        if loaded >= 1 && (others_before > 0 || want.len() > dgram_end) {
            self.seen.shared_packet = true;
        }
        // the packet as a whole, the way the receiving endpoint sees it
        let got = parse(t.written()).map_err(|e| Fail::new(e.signature, format!("step {step}: whole packet ({} bytes): {}", t.len, e.msg)))?;
        ensure_eq!(
            got.len(),
            want.len(),
            "packet-frames",
            "step {step}: frames in the packet: got [{}], put [{}]",
            got.iter().map(short).collect::<Vec<_>>().join(", "),
            want.iter().map(short).collect::<Vec<_>>().join(", ")
        );
        for (i, (g, w)) in got.iter().zip(&want).enumerate() {
            ensure!(g == w, "packet-frames", "step {step}: frame {i} decodes as {} but {} was written", short(g), short(w));
        }
        if lost {
            self.seen.lost_datagrams += loaded;
            return Ok(());
        }
        for f in got {
            if let Frame::Datagram(df, body) = f {
                self.deliver(step, df, body, true)?;
            }
        }
        Ok(())
    }

    // ------------------------------------------------------------- inject / close
    fn inject(&mut self, step: usize, len: u32, with_len: bool) -> Outcome {
        let id = self.next_inj;
        self.next_inj += 1;
        let data = Bytes::from(payload(id, true, len as usize));
        let f = DatagramFrame::new(with_len, vi(len as u64));
        let wire = f.encoding_size() as u64 + len as u64;
        if self.near_limit(wire) {
            self.seen.inject_boundary = true;
        }
        let before = self.seen.inject_violation;
        let was_open = !self.b_err;
        self.deliver(step, f, data, false)?;
        if was_open && self.seen.inject_violation == before {
            self.seen.inject_ok += 1;
        }
        Ok(())
    }

    fn close(&mut self, b: bool) {
        let e = conn_error();
        if b {
            if !self.b_err {
                self.close_b(&e);
            }
        } else {
            self.a.on_conn_error(&e);
            self.a_err = true;
            self.queue.clear();
            self.seen.closed_a = true;
        }
    }

    // ------------------------------------------------------------- final drain
    fn finish(&mut self, full: u32, ctx: &mut CaseCtx) -> Outcome {
        let step = usize::MAX;
        let full = full as usize;
        // full-size empty packets, as many as it takes
        let mut rounds = 0;
        while !self.queue.is_empty() && !self.a_err {
            let before = self.queue.len();
            self.packet(step, &Cap::Abs(full as u32), &[], 255, &[], false, ctx)?;
            rounds += 1;
            if self.queue.len() == before {
                break;
            }
            ensure!(rounds < 10_000, "harness", "drain does not terminate");
        }
        if let Some((id, head)) = self.queue.front() {
            let l = head.len();
            // load_once already insists that an empty packet with room > l takes the head
            ensure!(l >= full, "load-refused-fitting", "final drain: head of {l} bytes left behind by an empty packet of {full}");
            self.seen.blocked = true;
            ctx.known.push(Fail::new(
                "accepted-oversized-blocks-queue",
                format!(
                    "datagram #{id} of {l} bytes was accepted by send (peer limit {}) but can never be loaded into a full-size empty packet with {full} bytes of room; it stays at the head of the queue and the {} datagram(s) behind it are never sent",
                    self.limit,
                    self.queue.len() - 1
                ),
            ));
        }
        // the peer application drains everything it was given
        while !self.rx.is_empty() && !self.b_err && self.reader.is_some() {
            self.read(step, 0, 0)?;
        }
        if !self.b_err && self.reader.is_some() {
            self.read(step, 0, 0)?; // must be Pending: nothing invented, nothing duplicated
        }
        Ok(())
    }
}

fn run(case: &Case, ctx: &mut CaseCtx) -> Outcome {
    let mut w = World::new(case.limit, case.full, ctx)?;
    for (step, op) in case.ops.iter().enumerate() {
        match op {
            Op::Send { len, slice, second } => {
                if case.limit == 0 {
                    ctx.class("send-disabled");
                    continue;
                }
                w.send(step, len.resolve(case.limit, case.full), *slice, *second)?
            }
            Op::Packet { cap, pre, loads, post, lost } => w.packet(step, cap, pre, *loads, post, *lost, ctx)?,
            Op::Read { how, n } => w.read(step, *how, *n)?,
            Op::Inject { len, with_len } => w.inject(step, len.resolve(case.limit, case.full), *with_len)?,
            Op::Close { b } => w.close(*b),
        }
    }
    w.finish(case.full, ctx)?;

    let s = &w.seen;
    let flag = |ctx: &mut CaseCtx, c: bool, name: &str| {
        if c {
            ctx.class(name);
        }
    };
    flag(ctx, s.send_ok > 0, "send-accepted");
    flag(ctx, s.send_refused > 0, "send-refused");
    flag(ctx, s.send_boundary, "send-within-3-of-limit");
    flag(ctx, s.load_ok > 0, "load-ok");
    flag(ctx, s.load_nolen > 0, "load-no-length-form");
    flag(ctx, s.load_refused_space > 0, "load-refused-no-room");
    flag(ctx, s.load_boundary, "load-within-3-of-capacity");
    flag(ctx, s.multi_in_packet, "several-datagrams-in-one-packet");
    flag(ctx, s.shared_packet, "datagram-shares-packet-with-other-frames");
    flag(ctx, s.lost_datagrams > 0, "datagram-lost");
    flag(ctx, s.delivered > 0, "delivered");
    flag(ctx, s.read_ok > 0, "read-ok");
    flag(ctx, s.read_pending > 0, "read-pending");
    flag(ctx, s.inject_ok > 0, "inject-accepted");
    flag(ctx, s.inject_violation > 0, "inject-protocol-violation");
    flag(ctx, s.inject_boundary, "inject-within-3-of-limit");
    flag(ctx, s.wake_tx > 0, "send-wakes-assembly");
    flag(ctx, s.wake_rx > 0, "arrival-wakes-reader");
    flag(ctx, s.closed_a, "closed-sender");
    flag(ctx, s.closed_b, "closed-receiver");
    flag(ctx, s.blocked, "queue-blocked-by-oversized");
    flag(ctx, s.over_limit_sent > 0, "frame-over-peer-limit-sent");
    flag(ctx, s.lost_datagrams > 0 && s.read_ok >= 2, "order-across-loss");
    // non-trivial: a size within 3 bytes of a limit or of the remaining capacity was exercised
    // on a path that did something (accepted / refused / loaded / judged by the receiver)
    let boundary = (s.send_boundary && s.send_ok + s.send_refused > 0)
        || (s.load_boundary && s.load_ok + s.load_refused_space > 0)
        || (s.inject_boundary && s.inject_ok + s.inject_violation > 0);
    if boundary {
        ctx.nontrivial();
        ctx.note(json!({
            "limit": case.limit, "sent": s.send_ok, "refused": s.send_refused, "loaded": s.load_ok,
            "no_length_form": s.load_nolen, "delivered": s.delivered, "read": s.read_ok,
            "lost": s.lost_datagrams, "violations_by_injection": s.inject_violation,
        }));
    }
    Ok(())
}

// ---------------------------------------------------------------------------
// generators
// ---------------------------------------------------------------------------

fn limit_strategy() -> BoxedStrategy<u64> {
    prop_oneof![
        3 => Just(0u64),
        12 => proptest::sample::select(vec![1u64, 2, 3, 100, 1200]),
        8 => proptest::sample::select(vec![63u64, 64, 65, 66, 67, 16383, 16384, 16385, 16386, 16387, 16388]),
        8 => 1u64..=80,
        8 => 1u64..=2000,
        3 => 1u64..=20_000,
        // limits of 64 KiB and more make every near-limit datagram tens of kilobytes: drawn less often (cost)
        2 => Just(65535u64),
        1 => proptest::sample::select(vec![1u64 << 20, (1 << 32) + 5, (1 << 62) - 1]),
    ]
    .boxed()
}

/// datagram payload length: 0 … beyond the limit, around the length-field boundaries,
/// around the packet size
fn len_strategy() -> BoxedStrategy<Len> {
    prop_oneof![
        5 => (-7i8..=3).prop_map(Len::Limit),                             // 1+len = limit-7 … limit+3
        3 => (0u32..=8).prop_map(Len::Abs),
        2 => (0u32..=200).prop_map(Len::Abs),
        2 => proptest::sample::select(vec![62u32, 63, 64, 65, 16382, 16383, 16384, 16385]).prop_map(Len::Abs),
        2 => (-12i8..=3).prop_map(Len::Full),                             // around a full packet
        1 => (0u32..=20_000).prop_map(Len::Abs),
    ]
    .boxed()
}

fn other_strategy() -> BoxedStrategy<Other> {
    prop_oneof![
        2 => Just(Other::Ping),
        1 => Just(Other::Pad),
        2 => prop_oneof![0u32..64, 64u32..16384, 16384u32..1_000_000].prop_map(Other::MaxData),
        2 => (0u8..=80).prop_map(Other::Crypto),
    ]
    .boxed()
}

fn cap_strategy() -> BoxedStrategy<Cap> {
    prop_oneof![
        4 => (1u8..=4, -4i8..=6).prop_map(|(k, d)| Cap::Fit { k, d }),
        3 => (-3i8..=12).prop_map(|d| Cap::Head { d }),
        2 => Just(Cap::Full),
        1 => (0u32..=1500).prop_map(Cap::Abs),
        1 => (0u32..=40).prop_map(Cap::Abs),
    ]
    .boxed()
}

fn op_strategy(rx_heavy: bool) -> BoxedStrategy<Op> {
    let send = (len_strategy(), any::<bool>(), prop::bool::weighted(0.2))
        .prop_map(|(len, slice, second)| Op::Send { len, slice, second });
    let packet = (
        cap_strategy(),
        prop_oneof![3 => Just(vec![]), 2 => proptest::collection::vec(other_strategy(), 0..=3)],
        prop_oneof![3 => Just(255u8), 2 => Just(1u8), 1 => 0u8..=4],
        prop_oneof![2 => Just(vec![]), 2 => proptest::collection::vec(other_strategy(), 0..=2)],
        prop::bool::weighted(0.15),
    )
        .prop_map(|(cap, pre, loads, post, lost)| Op::Packet { cap, pre, loads, post, lost });
    let read = (0u8..=3, prop_oneof![0u32..=8, 0u32..=2000]).prop_map(|(how, n)| Op::Read { how, n });
    // frames from a peer that may ignore our limit: sizes around the local maximum (mostly just inside)
    let inj_len = prop_oneof![
        5 => (-9i8..=1).prop_map(Len::Limit),
        3 => (-60i8..=-3).prop_map(Len::Limit),
        2 => (0u32..=64).prop_map(Len::Abs),
        1 => (0u32..=20_000).prop_map(Len::Abs),
    ];
    let inject = (inj_len, any::<bool>()).prop_map(|(len, with_len)| Op::Inject { len, with_len });
    let close = any::<bool>().prop_map(|b| Op::Close { b });
    if rx_heavy {
        prop_oneof![2 => send, 3 => packet, 6 => read, 8 => inject, 1 => close].boxed()
    } else {
        prop_oneof![40 => send, 40 => packet, 15 => read, 2 => inject, 1 => close].boxed()
    }
}

fn case_strategy(max_ops: usize, rx_heavy: bool) -> BoxedStrategy<Case> {
    (
        limit_strategy(),
        prop_oneof![3 => 1100u32..=1500, 1 => Just(1200u32), 1 => Just(1452u32)],
        proptest::collection::vec(op_strategy(rx_heavy), 0..=max_ops),
    )
        .prop_map(|(limit, full, ops)| Case { limit, full, ops })
        .boxed()
}

// ---------------------------------------------------------------------------
// exhaustive small grid
// ---------------------------------------------------------------------------

fn grid(e: &mut vcore::Enumerator<Case>, deep: bool) {
    let limits: Vec<u64> = if deep {
        (0..=8).chain([62, 63, 64, 65, 66, 67, 68]).chain([16383, 16384, 16385, 16386, 16387, 16388, 16389]).collect()
    } else {
        (0..=5).chain([64, 65, 66, 67]).chain([16385, 16386, 16387, 16388]).collect()
    };
    let oracle = |c: &Case, ctx: &mut CaseCtx| run(c, ctx);
    for &limit in &limits {
        // every length from (limit-5) to limit+1 (and from 0 for tiny limits)
        let lo = limit.saturating_sub(if deep { 6 } else { 5 }) as u32;
        let hi = (limit + 1) as u32;
        for len in lo..=hi {
            let accepted = 1 + len as u64 <= limit;
            // (1) one datagram alone, every packet room around its size, with and without neighbours
            for d in -2i8..=(if deep { 7 } else { 6 }) {
                for pre in [vec![], vec![Other::Ping], vec![Other::Crypto(3)]] {
                    for post in [vec![], vec![Other::Ping]] {
                        let case = Case {
                            limit,
                            full: 1200,
                            ops: vec![
                                Op::Send { len: Len::Abs(len), slice: false, second: false },
                                Op::Packet { cap: Cap::Head { d }, pre: pre.clone(), loads: 255, post: post.clone(), lost: false },
                                Op::Read { how: 0, n: 0 },
                                Op::Read { how: 0, n: 0 },
                            ],
                        };
                        e.case(&case, oracle);
                        if e.stopped() {
                            return;
                        }
                    }
                }
                if !accepted {
                    break; // nothing is queued: the room does not matter
                }
            }
            // (2) the same frame arriving from a peer, both forms
            for with_len in [false, true] {
                let case = Case {
                    limit,
                    full: 1200,
                    ops: vec![Op::Read { how: 0, n: 0 }, Op::Inject { len: Len::Abs(len), with_len }, Op::Read { how: 1, n: 0 }, Op::Read { how: 0, n: 0 }],
                };
                e.case(&case, oracle);
                if e.stopped() {
                    return;
                }
            }
            // (3) two datagrams behind each other, packet room around the sum
            if accepted {
                for len2 in [0u32, 1, len] {
                    if 1 + len2 as u64 > limit {
                        continue;
                    }
                    for d in -3i8..=4 {
                        for loads in [255u8, 1, 2] {
                            let case = Case {
                                limit,
                                full: 1200,
                                ops: vec![
                                    Op::Send { len: Len::Abs(len), slice: true, second: false },
                                    Op::Send { len: Len::Abs(len2), slice: false, second: true },
                                    Op::Packet { cap: Cap::Fit { k: 2, d }, pre: vec![], loads, post: vec![Other::Ping], lost: false },
                                    Op::Read { how: 3, n: 0 },
                                    Op::Packet { cap: Cap::Abs(1200), pre: vec![], loads: 255, post: vec![], lost: false },
                                    Op::Read { how: 2, n: 70_000 },
                                    Op::Read { how: 0, n: 0 },
                                ],
                            };
                            e.case(&case, oracle);
                            if e.stopped() {
                                return;
                            }
                        }
                    }
                }
            }
        }
    }
}

fn main() {
    let mut check = Check::from_env("C19", "exploration");
    check.rule(
        "case = peer limit (0, 1, 2, 3, 63..67, 100, 1200, 16383..16388, 65535, random, huge) + full-packet room + op list over \
         {send(len 0..limit+2 / around length-field boundaries / around the packet size), assemble a packet (room given absolutely, \
         relative to the queue head or to the with-length size of the first k queued datagrams; other frames before and after; 1..n load \
         calls or until refusal; lost or delivered), read (poll_recv / recv / read / read_buf), inject a DATAGRAM frame of arbitrary \
         size into the receiver, connection error}; every case ends with a drain through full-size empty packets and a full read. \
         non-trivial = a send within 3 bytes of the peer limit that was judged, or a load with the remaining room within 3 bytes of \
         the datagram's smallest/largest frame size that loaded or refused for lack of room, or an injected frame within 3 bytes of the \
         local maximum that was judged. distinct = by hash of the serialised case. exhaustive grid: every (limit, len, room, neighbours) \
         around each boundary for one and two datagrams, and every (limit, len, form) at the receiver.",
    );
    check.assume("component level: DatagramFlow driven through its public API; the packet target is a BufMut with a hard capacity (like PacketWriter) and a no-op RecordFrame");
    check.assume("other frame sources only write frames that fit completely; after the datagram source the assembler may append frames/padding whenever room remains (Packages((.., PadTo20)) in qconnection/src/path/burst.rs)");
    check.assume("no reordering between packets; loss = a whole packet is not handed to the receiver");
    check.assume("after an oversized frame from the peer the connection calls on_conn_error on the flow (qconnection/src/lib.rs); after `sent-frame-exceeds-peer-limit` the receiver is kept open to continue the search");
    check.assume("the clause 'an accepted datagram is actually put on the wire by the connection' is decided end-to-end elsewhere; here: a full-size empty packet must take a queued datagram that fits");

    check.max_shrink_iters = 800;
    let deep = !check.quick();
    check.exhaustive::<Case, _>("grid-boundaries", true, |e| grid(e, deep));

    let n = check.pick(400_000, 20_000_000);
    check.stage("flow-model", n, 16, || case_strategy(40, false), run);
    let n = check.pick(100_000, 5_000_000);
    check.stage("receiver-injection", n, 16, || case_strategy(30, true), run);
    check.finish();
}
