//! C14 — connection IDs are issued, used, retired and routed consistently.
//!
//! Local side: several `ArcLocalCids<QuicRouterRegistry<_>>` (wired the way
//! `qconnection::builder` does it) share one real `QuicRouter`. After every
//! operation every connection ID that was ever issued is looked up by
//! delivering a real, parsed packet through `QuicRouter::try_deliver`.
//!
//! Remote side: `ArcRemoteCids` + `ArcCidCell`s (one per path) driven by
//! NEW_CONNECTION_ID frames (reordered, duplicated, gapped), borrow / release /
//! retire of paths. The oracle is invariant based (it does not predict which
//! path gets which ID): validity, exclusiveness, retirement bookkeeping, the
//! limit, and — with complete knowledge at "settle" points — whether
//! retire-prior-to was honoured.

use std::{
    collections::{BTreeMap, BTreeSet},
    net::SocketAddr,
    sync::{Arc, Mutex},
};

use bytes::BytesMut;
use futures::FutureExt;
use proptest::prelude::*;
use qbase::{
    cid::{ArcCidCell, ArcLocalCids, ArcRemoteCids, BorrowedCid, ConnectionId, GenUniqueCid},
    error::ErrorKind,
    frame::{
        NewConnectionIdFrame, RetireConnectionIdFrame,
        io::{ReceiveFrame, SendFrame},
    },
    net::{
        addr::EndpointAddr,
        route::{Link, Pathway},
        tx::{ArcSendWaker, Signals},
    },
    packet::{Packet, PacketReader},
    varint::VarInt,
};
use qinterface::{
    bind_uri::BindUri,
    component::route::{QuicRouter, QuicRouterEntry, QuicRouterRegistry, RcvdPacketQueue},
};
use serde::{Deserialize, Serialize};
use serde_json::json;
use vcore::{CaseCtx, Check, Fail, Outcome, ensure, ensure_eq, fail, gens};

// ===========================================================================
// local side: issuing + routing
// ===========================================================================

#[derive(Clone, Default)]
struct NewCidSink(Arc<Mutex<Vec<NewConnectionIdFrame>>>);

impl SendFrame<NewConnectionIdFrame> for NewCidSink {
    fn send_frame<I: IntoIterator<Item = NewConnectionIdFrame>>(&self, iter: I) {
        self.0.lock().unwrap().extend(iter);
    }
}

type Local = ArcLocalCids<QuicRouterRegistry<NewCidSink>>;

#[derive(Debug, Clone, Serialize, Deserialize, PartialEq)]
enum LOp {
    /// a new connection on the shared router (server: also registers the client-chosen
    /// original destination connection ID, as `ServerFoundation::with_cids` does)
    NewConn { server: bool, odcid: u8 },
    /// the peer's active_connection_id_limit becomes known
    SetLimit { c: u16, limit: u8 },
    /// RETIRE_CONNECTION_ID from the peer
    Retire { c: u16, kind: u8, i: u16 },
    /// another owner of the same ArcLocalCids (frame pipe, burst, termination)
    CloneHandle { c: u16 },
    DropHandle { c: u16 },
    Clear { c: u16 },
    /// `QuicRouterEntry::remove` on the odcid entry, which stays owned by the connection
    RemoveOdcid { c: u16 },
    /// the connection is gone: all handles dropped (and the odcid entry)
    DropConn { c: u16, odcid_first: bool },
}

#[derive(Debug, Clone, Serialize, Deserialize)]
struct LCase {
    ops: Vec<LOp>,
}

struct IdM {
    cid: ConnectionId,
    active: bool,
}

/// the client-chosen original destination connection ID of a server connection
struct Odcid {
    cid: ConnectionId,
    entry: Option<QuicRouterEntry>,
    /// the router table maps `cid` to this connection
    routed: bool,
}

struct Conn {
    queue: Arc<RcvdPacketQueue>,
    sink: NewCidSink,
    handles: Vec<Local>,
    odcid: Option<Odcid>,
    // model
    ids: Vec<IdM>,
    frames_seen: usize,
    limit: Option<u64>,
    failed: bool,
    cleared: bool,
}

impl Conn {
    fn alive(&self) -> bool {
        !self.handles.is_empty()
    }
    fn active(&self) -> usize {
        self.ids.iter().filter(|i| i.active).count()
    }
}

struct Net {
    router: Arc<QuicRouter>,
    conns: Vec<Conn>,
    bind: BindUri,
    tag: u16,
    lookups: u64,
}

fn short_packet(dcid: &ConnectionId) -> Result<Packet, Fail> {
    let mut b = BytesMut::with_capacity(1 + 8 + 24);
    b.extend_from_slice(&[0x40]);
    b.extend_from_slice(dcid);
    b.extend_from_slice(&[0x5a; 24]);
    // the receive path parses every datagram with an 8-byte DCID (qtraversal/src/route.rs)
    match PacketReader::new(b, 8).next() {
        Some(Ok(p)) => Ok(p),
        other => Err(Fail::new("harness", format!("short packet did not parse: {other:?}"))),
    }
}

fn initial_packet(dcid: &ConnectionId) -> Result<Packet, Fail> {
    let mut b = BytesMut::with_capacity(64);
    b.extend_from_slice(&[0xc0, 0, 0, 0, 1]);
    b.extend_from_slice(&[dcid.len() as u8]);
    b.extend_from_slice(dcid);
    b.extend_from_slice(&[8, 1, 2, 3, 4, 5, 6, 7, 8]);
    b.extend_from_slice(&[0]); // token length
    b.extend_from_slice(&[24]); // length
    b.extend_from_slice(&[0x5a; 24]);
    match PacketReader::new(b, 8).next() {
        Some(Ok(p)) => Ok(p),
        other => Err(Fail::new("harness", format!("initial packet did not parse: {other:?}"))),
    }
}

impl Net {
    fn new() -> Self {
        Self {
            router: Arc::new(QuicRouter::new()),
            conns: vec![],
            bind: BindUri::from("127.0.0.1:4433".parse::<SocketAddr>().unwrap()),
            tag: 0,
            lookups: 0,
        }
    }

    /// Deliver one packet; returns the index of the connection whose queue received it.
    fn route(&mut self, pkt: Packet, long: bool) -> Result<Option<usize>, Fail> {
        self.tag = self.tag.wrapping_add(1);
        self.lookups += 1;
        let src: SocketAddr = SocketAddr::from(([10, 0, 0, 1], 1024 + (self.tag % 60000)));
        let dst: SocketAddr = "127.0.0.1:4433".parse().unwrap();
        let way = (
            self.bind.clone(),
            Pathway::new(EndpointAddr::direct(dst), EndpointAddr::direct(src)),
            Link::new(src, dst),
        );
        let delivered = match self.router.try_deliver(pkt, way).now_or_never() {
            Some(Ok(())) => true,
            Some(Err(_)) => false,
            None => fail!("harness", "try_deliver did not complete (queue full?)"),
        };
        let mut got = None;
        for (i, c) in self.conns.iter().enumerate() {
            let r = if long {
                c.queue.initial().recv().now_or_never().map(|o| o.map(|(_, w)| w.2))
            } else {
                c.queue.one_rtt().recv().now_or_never().map(|o| o.map(|(_, w)| w.2))
            };
            if let Some(Some(link)) = r {
                ensure!(link.src == src, "harness", "stale packet in queue {i}");
                ensure!(got.is_none(), "route-duplicated", "one packet arrived in two queues");
                got = Some(i);
            }
        }
        ensure_eq!(delivered, got.is_some(), "route-lost", "try_deliver result vs packet arrival");
        Ok(got)
    }

    /// Look up every ID ever issued on the router.
    fn check_routes(&mut self, step: usize) -> Outcome {
        // who owns an odcid value now: the latest live entry
        for ci in 0..self.conns.len() {
            let alive = self.conns[ci].alive();
            for seq in 0..self.conns[ci].ids.len() {
                let (cid, active) = {
                    let id = &self.conns[ci].ids[seq];
                    (id.cid, id.active)
                };
                let want = (alive && active).then_some(ci);
                let got = self.route(short_packet(&cid)?, false)?;
                if want.is_some() {
                    ensure_eq!(
                        got,
                        want,
                        "route-live-id",
                        "step {step}: live id seq {seq} of conn {ci} ({cid:x}) routed to"
                    );
                } else if alive {
                    ensure_eq!(
                        got,
                        None,
                        "route-retired-id",
                        "step {step}: retired id seq {seq} of live conn {ci} ({cid:x}) still routed"
                    );
                } else {
                    ensure_eq!(
                        got,
                        None,
                        "route-dropped-conn",
                        "step {step}: id seq {seq} of dropped conn {ci} ({cid:x}) still routed (leak)"
                    );
                }
            }
            if let Some(od) = &self.conns[ci].odcid {
                let odcid = od.cid;
                let has_entry = od.routed;
                // a later connection may legitimately own the same odcid value
                let owner = self
                    .conns
                    .iter()
                    .enumerate()
                    .filter(|(_, c)| matches!(&c.odcid, Some(o) if o.routed && o.cid == odcid))
                    .map(|(i, _)| i)
                    .last();
                let got = self.route(initial_packet(&odcid)?, true)?;
                ensure_eq!(
                    got,
                    owner,
                    if has_entry { "route-odcid" } else { "route-odcid-dropped" },
                    "step {step}: odcid of conn {ci} routed to"
                );
            }
        }
        Ok(())
    }

    /// Consume the NEW_CONNECTION_ID frames a connection emitted; returns how many.
    fn absorb_frames(&mut self, ci: usize, step: usize) -> Result<usize, Fail> {
        let frames: Vec<NewConnectionIdFrame> = {
            let c = &self.conns[ci];
            let g = c.sink.0.lock().unwrap();
            g[c.frames_seen..].to_vec()
        };
        for f in &frames {
            let next = self.conns[ci].ids.len() as u64;
            ensure_eq!(
                f.sequence(),
                next,
                "local-seq-not-consecutive",
                "step {step}: conn {ci} issued sequence number"
            );
            ensure!(
                f.retire_prior_to() <= f.sequence(),
                "local-frame-malformed",
                "step {step}: conn {ci} retire_prior_to {} > seq {}",
                f.retire_prior_to(),
                f.sequence()
            );
            let cid = *f.connection_id();
            ensure_eq!(cid.len(), 8usize, "local-cid-len", "step {step}: issued id length");
            for (cj, c) in self.conns.iter().enumerate() {
                for (s, id) in c.ids.iter().enumerate() {
                    ensure!(
                        id.cid != cid,
                        "local-cid-not-unique",
                        "step {step}: conn {ci} seq {next} reuses {cid:x} (conn {cj} seq {s})"
                    );
                }
            }
            self.conns[ci].ids.push(IdM { cid, active: true });
        }
        self.conns[ci].frames_seen += frames.len();
        Ok(frames.len())
    }

    fn check_limit(&self, ci: usize, step: usize) -> Outcome {
        let c = &self.conns[ci];
        let lim = c.limit.unwrap_or(2);
        ensure!(
            c.active() as u64 <= lim,
            "local-over-limit",
            "step {step}: conn {ci} has {} unretired ids, peer limit {lim}",
            c.active()
        );
        if c.alive() {
            let want = (c.ids[0].active).then_some(c.ids[0].cid);
            ensure_eq!(
                c.handles[0].initial_scid(),
                want,
                "local-initial-scid",
                "step {step}: conn {ci} initial_scid()"
            );
        }
        Ok(())
    }
}

#[derive(Default)]
struct LStats {
    max_alive: usize,
    retire_active: u32,
    retire_dup: u32,
    retire_unissued: u32,
    drops: u32,
    clears: u32,
    retire_with_peers: u32,
    drop_with_survivor: bool,
    retire_after_foreign_drop: u32,
    odcid_reuse: bool,
    odcid_removed: bool,
    limit_err: u32,
}

fn run_local(case: &LCase, ctx: &mut CaseCtx) -> Outcome {
    let mut net = Net::new();
    let mut st = LStats::default();
    for (step, op) in case.ops.iter().enumerate() {
        let n = net.conns.len();
        let pick = |c: u16| -> Option<usize> { (n > 0).then(|| gens::idx(c, n)) };
        match op {
            LOp::NewConn { server, odcid } => {
                if n >= 5 {
                    continue;
                }
                let queue = Arc::new(RcvdPacketQueue::new());
                let sink = NewCidSink::default();
                let registry = net.router.registry_on_issuing_scid(queue.clone(), sink.clone());
                let initial_scid = registry.gen_unique_cid();
                let od = if *server {
                    // 3 client-chosen values that may be seen again after the first owner is gone,
                    // never while a live connection still owns the value (the router routes the
                    // second Initial to the first connection instead of creating a new one)
                    let mut v = ConnectionId::from_slice(&[0x11, *odcid % 3, 3, 4, 5, 6, 7, 8, 9, 10]);
                    let taken = net
                        .conns
                        .iter()
                        .any(|c| matches!(&c.odcid, Some(o) if o.routed && o.cid == v));
                    if taken {
                        v = ConnectionId::from_slice(&[0x12, n as u8, 3, 4, 5, 6, 7, 8, 9, 10, 11, 12]);
                    } else if net.conns.iter().any(|c| matches!(&c.odcid, Some(o) if o.cid == v)) {
                        st.odcid_reuse = true;
                    }
                    let entry = net.router.insert(v.into(), queue.clone());
                    Some(Odcid { cid: v, entry: Some(entry), routed: true })
                } else {
                    None
                };
                let local = ArcLocalCids::new(initial_scid, registry);
                net.conns.push(Conn {
                    queue,
                    sink,
                    handles: vec![local],
                    odcid: od,
                    ids: vec![IdM { cid: initial_scid, active: true }],
                    frames_seen: 0,
                    limit: None,
                    failed: false,
                    cleared: false,
                });
                ensure_eq!(initial_scid.len(), 8usize, "local-cid-len", "initial scid length");
                let k = net.absorb_frames(n, step)?;
                ensure_eq!(k, 1usize, "local-initial-issue", "step {step}: frames issued at creation");
                net.check_limit(n, step)?;
            }
            LOp::SetLimit { c, limit } => {
                let Some(ci) = pick(*c) else { continue };
                let conn = &net.conns[ci];
                // transport parameters are applied once, on a live, not yet failed connection
                if !conn.alive() || conn.failed || conn.limit.is_some() {
                    continue;
                }
                let r = conn.handles[0].set_limit(*limit as u64);
                if *limit < 2 {
                    ensure!(r.is_err(), "local-limit-lt2-accepted", "step {step}: set_limit({limit}) accepted");
                    net.conns[ci].failed = true;
                    st.limit_err += 1;
                    let k = net.absorb_frames(ci, step)?;
                    ensure_eq!(k, 0usize, "local-issue-on-error", "step {step}: frames issued by a rejected set_limit");
                } else {
                    ensure!(r.is_ok(), "local-limit-rejected", "step {step}: set_limit({limit}) = {r:?}");
                    net.conns[ci].limit = Some(*limit as u64);
                    net.absorb_frames(ci, step)?;
                }
                net.check_limit(ci, step)?;
            }
            LOp::Retire { c, kind, i } => {
                let Some(ci) = pick(*c) else { continue };
                let conn = &net.conns[ci];
                if !conn.alive() || conn.failed {
                    continue;
                }
                let issued = conn.ids.len() as u64;
                let actives: Vec<u64> = (0..issued).filter(|s| conn.ids[*s as usize].active).collect();
                let retireds: Vec<u64> = (0..issued).filter(|s| !conn.ids[*s as usize].active).collect();
                let seq = match kind % 8 {
                    0..=3 if !actives.is_empty() => actives[gens::idx(*i, actives.len())],
                    4 if !retireds.is_empty() => retireds[gens::idx(*i, retireds.len())],
                    5 => issued,
                    6 => issued + 1 + gens::upto(*i, 6),
                    _ => gens::upto(*i, issued + 2),
                };
                let frame = RetireConnectionIdFrame::new(VarInt::from_u64(seq).unwrap());
                let r = conn.handles[0].recv_frame(frame);
                let alive_now = net.conns.iter().filter(|c| c.alive()).count();
                if seq >= issued {
                    ensure!(
                        r.is_err(),
                        "local-retire-unissued-accepted",
                        "step {step}: conn {ci} accepted RETIRE_CONNECTION_ID({seq}), only {issued} issued"
                    );
                    if let Err(e) = &r {
                        ctx.class(format!("observed:retire-unissued-kind={:?}", e.kind()));
                    }
                    st.retire_unissued += 1;
                    net.conns[ci].failed = true;
                    let k = net.absorb_frames(ci, step)?;
                    ensure_eq!(k, 0usize, "local-issue-on-error", "step {step}: frames issued by a rejected retire");
                } else {
                    ensure!(r.is_ok(), "local-retire-rejected", "step {step}: conn {ci} RETIRE({seq}) of an issued id = {r:?}");
                    let was_active = net.conns[ci].ids[seq as usize].active;
                    net.conns[ci].ids[seq as usize].active = false;
                    let k = net.absorb_frames(ci, step)?;
                    if was_active {
                        ensure_eq!(
                            k,
                            1usize,
                            "local-retire-replacement",
                            "step {step}: conn {ci} RETIRE({seq}) of an active id: replacements issued"
                        );
                        st.retire_active += 1;
                        if alive_now >= 2 {
                            st.retire_with_peers += 1;
                            if st.drop_with_survivor {
                                st.retire_after_foreign_drop += 1;
                            }
                        }
                    } else {
                        ensure_eq!(
                            k,
                            0usize,
                            "local-retire-dup-issued",
                            "step {step}: conn {ci} duplicate RETIRE({seq}): replacements issued"
                        );
                        st.retire_dup += 1;
                    }
                }
                net.check_limit(ci, step)?;
            }
            LOp::CloneHandle { c } => {
                let Some(ci) = pick(*c) else { continue };
                let conn = &mut net.conns[ci];
                if !conn.alive() || conn.handles.len() >= 4 {
                    continue;
                }
                let h = conn.handles[0].clone();
                conn.handles.push(h);
            }
            LOp::DropHandle { c } => {
                let Some(ci) = pick(*c) else { continue };
                let conn = &mut net.conns[ci];
                // the last handle goes with DropConn
                if conn.handles.len() < 2 {
                    continue;
                }
                conn.handles.pop();
            }
            LOp::Clear { c } => {
                let Some(ci) = pick(*c) else { continue };
                let conn = &mut net.conns[ci];
                if !conn.alive() {
                    continue;
                }
                conn.handles[0].clear();
                conn.cleared = true;
                for id in &mut conn.ids {
                    id.active = false;
                }
                st.clears += 1;
                if net.conns.iter().filter(|c| c.alive()).count() >= 2 {
                    st.drop_with_survivor = true;
                }
                let k = net.absorb_frames(ci, step)?;
                ensure_eq!(k, 0usize, "local-issue-on-clear", "step {step}: frames issued by clear()");
            }
            LOp::RemoveOdcid { c } => {
                let Some(ci) = pick(*c) else { continue };
                if let Some(Odcid { entry: Some(e), routed, .. }) = &mut net.conns[ci].odcid {
                    // removes the table entry only if it is (still) this connection's
                    e.remove();
                    *routed = false;
                    st.odcid_removed = true;
                }
            }
            LOp::DropConn { c, odcid_first } => {
                let Some(ci) = pick(*c) else { continue };
                if !net.conns[ci].alive() {
                    continue;
                }
                let survivors = net.conns.iter().filter(|c| c.alive()).count() >= 2;
                let conn = &mut net.conns[ci];
                if *odcid_first {
                    if let Some(o) = &mut conn.odcid {
                        o.entry.take();
                        o.routed = false;
                    }
                }
                conn.handles.clear();
                if let Some(o) = &mut conn.odcid {
                    o.entry.take();
                    o.routed = false;
                }
                st.drops += 1;
                if survivors {
                    st.drop_with_survivor = true;
                }
            }
        }
        st.max_alive = st.max_alive.max(net.conns.iter().filter(|c| c.alive()).count());
        net.check_routes(step)?;
    }
    // everything goes away: the table must not route anything any more
    for c in &mut net.conns {
        c.handles.clear();
        if let Some(o) = &mut c.odcid {
            o.entry.take();
            o.routed = false;
        }
    }
    net.check_routes(case.ops.len())?;

    ctx.class(format!("conns-alive-max={}", st.max_alive.min(4)));
    if st.retire_active > 0 {
        ctx.class("retire-active");
    }
    if st.retire_dup > 0 {
        ctx.class("retire-duplicate");
    }
    if st.retire_unissued > 0 {
        ctx.class("retire-unissued");
    }
    if st.limit_err > 0 {
        ctx.class("limit<2");
    }
    if st.clears > 0 {
        ctx.class("clear");
    }
    if st.drops > 0 {
        ctx.class("drop");
    }
    if st.odcid_reuse {
        ctx.class("odcid-seen-again");
    }
    if st.odcid_removed {
        ctx.class("odcid-entry-removed-explicitly");
    }
    if st.retire_with_peers > 0 {
        ctx.class("retire-while>=2-conns");
    }
    if st.max_alive >= 2 && st.retire_with_peers > 0 && st.retire_after_foreign_drop > 0 {
        ctx.class("interleaved-retire/drop>=2-conns");
        ctx.nontrivial();
        ctx.note(json!({"lookups": net.lookups, "retire_active": st.retire_active, "drops": st.drops + st.clears}));
    }
    Ok(())
}

fn lop_strategy() -> BoxedStrategy<LOp> {
    prop_oneof![
        2 => (any::<bool>(), 0u8..6).prop_map(|(server, odcid)| LOp::NewConn { server, odcid }),
        3 => (any::<u16>(), prop_oneof![4 => 2u8..=8, 1 => 0u8..=12]).prop_map(|(c, limit)| LOp::SetLimit { c, limit }),
        12 => (any::<u16>(), 0u8..64, any::<u16>()).prop_map(|(c, k, i)| {
            // unissued / raw numbers are rare: they end the connection's frame processing
            let kind = match k { 0..=44 => 0, 45..=60 => 4, 61 => 5, 62 => 6, _ => 7 };
            LOp::Retire { c, kind, i }
        }),
        1 => any::<u16>().prop_map(|c| LOp::CloneHandle { c }),
        1 => any::<u16>().prop_map(|c| LOp::DropHandle { c }),
        1 => any::<u16>().prop_map(|c| LOp::Clear { c }),
        1 => any::<u16>().prop_map(|c| LOp::RemoveOdcid { c }),
        2 => (any::<u16>(), any::<bool>()).prop_map(|(c, odcid_first)| LOp::DropConn { c, odcid_first }),
    ]
    .boxed()
}

fn lcase_strategy(max_ops: usize) -> BoxedStrategy<LCase> {
    (
        proptest::collection::vec((any::<bool>(), 0u8..6), 1..=3),
        proptest::collection::vec(lop_strategy(), 0..=max_ops),
    )
        .prop_map(|(first, rest)| {
            let mut ops: Vec<LOp> = first
                .into_iter()
                .map(|(server, odcid)| LOp::NewConn { server, odcid })
                .collect();
            ops.extend(rest);
            LCase { ops }
        })
        .boxed()
}

// ===========================================================================
// remote side: peer-issued IDs assigned to paths
// ===========================================================================

#[derive(Clone, Default)]
struct RetireSink(Arc<Mutex<Vec<u64>>>);

impl SendFrame<RetireConnectionIdFrame> for RetireSink {
    fn send_frame<I: IntoIterator<Item = RetireConnectionIdFrame>>(&self, iter: I) {
        self.0.lock().unwrap().extend(iter.into_iter().map(|f| f.sequence()));
    }
}

#[derive(Debug, Clone, Serialize, Deserialize, PartialEq)]
enum ROp {
    /// a new path asks for a destination connection ID
    Apply,
    /// NEW_CONNECTION_ID, numbers chosen relative to what the peer has sent so far
    Frame { sk: u8, si: u16, rk: u8, ri: u16 },
    /// NEW_CONNECTION_ID with absolute numbers (rpt is clipped to seq: larger is a decode error)
    FrameAbs { seq: u8, rpt: u8 },
    /// the path starts a burst
    Borrow { c: u16 },
    /// the burst ends
    Release { c: u16 },
    /// the path is deactivated
    RetireCell { c: u16 },
    /// the path is deactivated *while its burst is still in progress* (another task removes the
    /// path while a packet is being assembled); the burst ends right afterwards
    RetireCellBusy { c: u16 },
    /// all bursts end, then every path is inspected
    Settle,
}

#[derive(Debug, Clone, Serialize, Deserialize)]
struct RCase {
    limit: u8,
    /// paths created before the first Initial packet is processed (multi-path handshake)
    pre_cells: u8,
    /// which of them becomes the handshake path
    hs: u16,
    ops: Vec<ROp>,
}

const SEQ_MAX: u64 = 40;

fn rcid(seq: u64) -> ConnectionId {
    ConnectionId::from_slice(&[0xa7, 0x14, 0, 0, 0, 0, (seq >> 8) as u8, seq as u8])
}

fn rseq(cid: &ConnectionId) -> Option<u64> {
    (cid.len() == 8 && cid[..6] == [0xa7, 0x14, 0, 0, 0, 0]).then(|| ((cid[6] as u64) << 8) | cid[7] as u64)
}

/// Borrow guards; never run their destructor while unwinding (a poisoned cell
/// mutex would turn a reported panic into an abort).
struct Guards(Vec<Option<BorrowedCid<'static, RetireSink>>>);

impl Drop for Guards {
    fn drop(&mut self) {
        if std::thread::panicking() {
            for g in self.0.drain(..) {
                std::mem::forget(g);
            }
        }
    }
}

#[derive(Clone, Copy, PartialEq, Debug)]
enum View {
    Holding(u64),
    Waiting,
    Retired,
    /// a burst is in progress with this ID; what the path would get next is not visible
    Busy(u64),
}

struct CellM {
    retired: bool,
    guard: Option<u64>,
}

struct Remote {
    // field order = drop order: guards must go before the cells they point into
    guards: Guards,
    cells: Vec<Box<ArcCidCell<RetireSink>>>,
    remote: ArcRemoteCids<RetireSink>,
    sink: RetireSink,
    seen: usize,
    waker: ArcSendWaker,
    // model
    limit: u64,
    received: BTreeSet<u64>,
    max_rpt: u64,
    retire_cnt: BTreeMap<u64, u32>,
    voluntary: BTreeSet<u64>,
    cm: Vec<CellM>,
    // statistics
    st: RStats,
}

#[derive(Default)]
struct RStats {
    frames_ok: u32,
    overtook_borrowed: u32,
    gaps: u32,
    dups: u32,
    late: u32,
    limit_err: u32,
    strict_reject: bool,
    starved: u32,
    gap_stale: u32,
    over_limit: u32,
    settles: u32,
    retire_cells: u32,
    switched_after_release: u32,
}

impl Remote {
    fn new(limit: u64) -> Self {
        let sink = RetireSink::default();
        Self {
            guards: Guards(vec![]),
            cells: vec![],
            remote: ArcRemoteCids::new(limit, sink.clone()),
            sink,
            seen: 0,
            waker: ArcSendWaker::new(),
            limit,
            received: BTreeSet::new(),
            max_rpt: 0,
            retire_cnt: BTreeMap::new(),
            voluntary: BTreeSet::new(),
            cm: vec![],
            st: RStats::default(),
        }
    }

    fn apply(&mut self) {
        let cell = Box::new(self.remote.apply_dcid());
        self.cells.push(cell);
        self.guards.0.push(None);
        self.cm.push(CellM { retired: false, guard: None });
    }

    fn max_received(&self) -> u64 {
        self.received.iter().next_back().copied().unwrap_or(0)
    }

    /// RETIRE_CONNECTION_ID frames emitted since the last call, checked one by one.
    fn drain(&mut self, step: usize, what: &str) -> Result<Vec<u64>, Fail> {
        let new: Vec<u64> = {
            let g = self.sink.0.lock().unwrap();
            g[self.seen..].to_vec()
        };
        self.seen += new.len();
        for s in &new {
            let n = self.retire_cnt.entry(*s).or_insert(0);
            *n += 1;
            ensure!(
                *n <= 1,
                "remote-retire-twice",
                "step {step} ({what}): RETIRE_CONNECTION_ID({s}) sent {n} times"
            );
            ensure!(
                *s <= self.max_received(),
                "remote-retire-never-issued",
                "step {step} ({what}): RETIRE_CONNECTION_ID({s}) but the peer has sent at most {}",
                self.max_received()
            );
            ensure!(
                *s < self.max_rpt || self.voluntary.contains(s),
                "remote-retire-unasked",
                "step {step} ({what}): RETIRE_CONNECTION_ID({s}) although retire_prior_to is {} and no path gave it up",
                self.max_rpt
            );
            for (i, c) in self.cm.iter().enumerate() {
                ensure!(
                    c.guard != Some(*s),
                    "remote-retire-while-borrowed",
                    "step {step} ({what}): RETIRE_CONNECTION_ID({s}) while path {i} is still sending with it"
                );
            }
        }
        Ok(new)
    }

    /// borrow on a path without a burst in progress; Ok(Some(seq)) / Ok(None)=waiting
    fn borrow(&mut self, ci: usize, step: usize, keep: bool) -> Result<Option<u64>, Fail> {
        assert!(self.cm[ci].guard.is_none());
        // SAFETY: the box is never moved or dropped before the guard (see `Guards` and field order)
        let cell: &'static ArcCidCell<RetireSink> = unsafe { &*(&*self.cells[ci] as *const _) };
        let r = cell.borrow_cid(self.waker.clone());
        if self.cm[ci].retired {
            ensure!(
                matches!(r, Ok(None)),
                "remote-retired-path-borrow",
                "step {step}: deactivated path {ci} still gets an ID"
            );
            return Ok(None);
        }
        match r {
            Err(sig) => {
                ensure!(sig == Signals::CONNECTION_ID, "remote-borrow-signal", "step {step}: path {ci}: {sig:?}");
                Ok(None)
            }
            Ok(None) => fail!("remote-borrow-none", "step {step}: active path {ci} is told it is retired"),
            Ok(Some(g)) => {
                let cid: ConnectionId = *g;
                let seq = rseq(&cid).filter(|s| self.received.contains(s) && rcid(*s) == cid);
                let Some(seq) = seq else {
                    std::mem::forget(g);
                    fail!("remote-borrow-unknown-cid", "step {step}: path {ci} got {cid:x}, which the peer never issued");
                };
                if keep {
                    self.guards.0[ci] = Some(g);
                    self.cm[ci].guard = Some(seq);
                } else {
                    drop(g);
                }
                ensure!(
                    self.retire_cnt.get(&seq).copied().unwrap_or(0) == 0,
                    "remote-use-after-retire-sent",
                    "step {step}: path {ci} sends with seq {seq} after RETIRE_CONNECTION_ID({seq}) was emitted"
                );
                for (j, c) in self.cm.iter().enumerate() {
                    ensure!(
                        j == ci || c.guard != Some(seq),
                        "remote-cid-shared",
                        "step {step}: paths {ci} and {j} send with the same seq {seq}"
                    );
                }
                Ok(Some(seq))
            }
        }
    }

    fn release(&mut self, ci: usize, step: usize) -> Outcome {
        if let Some(g) = self.guards.0[ci].take() {
            self.cm[ci].guard = None;
            drop(g);
            self.drain(step, "release")?;
        }
        Ok(())
    }

    /// What every path would send with now (paths in a burst are not disturbed).
    fn snapshot(&mut self, step: usize) -> Result<Vec<View>, Fail> {
        let mut v = vec![];
        for ci in 0..self.cells.len() {
            if let Some(s) = self.cm[ci].guard {
                v.push(View::Busy(s));
            } else if self.cm[ci].retired {
                self.borrow(ci, step, false)?;
                v.push(View::Retired);
            } else {
                match self.borrow(ci, step, false)? {
                    Some(s) => v.push(View::Holding(s)),
                    None => v.push(View::Waiting),
                }
            }
        }
        let quiet = self.drain(step, "inspect")?;
        ensure!(quiet.is_empty(), "remote-inspect-emitted", "step {step}: a burst that starts and ends at once emitted {quiet:?}");
        // exclusiveness
        let mut owner: BTreeMap<u64, usize> = BTreeMap::new();
        for (i, x) in v.iter().enumerate() {
            if let View::Holding(s) | View::Busy(s) = x {
                if let Some(j) = owner.insert(*s, i) {
                    fail!("remote-cid-shared", "step {step}: paths {j} and {i} both hold seq {s}");
                }
            }
        }
        Ok(v)
    }

    /// IDs a path that needs one could be given: received, not asked to be retired, not
    /// given up, not in use — and not behind a sequence number that has not arrived yet.
    fn free_ids(&self, views: &[View]) -> (Vec<u64>, Vec<u64>) {
        let held: BTreeSet<u64> = views
            .iter()
            .filter_map(|x| match x {
                View::Holding(s) | View::Busy(s) => Some(*s),
                _ => None,
            })
            .collect();
        let mut reachable = vec![];
        let mut behind_gap = vec![];
        let mut contiguous = true;
        for s in self.max_rpt..=self.max_received() {
            if !self.received.contains(&s) {
                contiguous = false;
                continue;
            }
            let free = !held.contains(&s)
                && self.retire_cnt.get(&s).copied().unwrap_or(0) == 0
                && !self.voluntary.contains(&s);
            if free {
                if contiguous {
                    reachable.push(s);
                } else {
                    behind_gap.push(s);
                }
            }
        }
        (reachable, behind_gap)
    }

    /// With every path visible: was retire-prior-to honoured, is bookkeeping complete?
    fn judge(&mut self, views: &[View], step: usize, ctx: &mut CaseCtx, complete: bool) -> Outcome {
        let hidden = views.iter().any(|x| matches!(x, View::Busy(s) if *s < self.max_rpt));
        let (reachable, behind_gap) = self.free_ids(views);
        let mut stale_held: BTreeSet<u64> = BTreeSet::new();
        for (i, x) in views.iter().enumerate() {
            match x {
                View::Holding(s) if *s < self.max_rpt => {
                    stale_held.insert(*s);
                    // a path in a burst with a retired ID may already own one of the free-looking IDs
                    if hidden {
                        ctx.class("stale-undecidable(other-burst-in-progress)");
                        continue;
                    }
                    if !reachable.is_empty() {
                        fail!(
                            "remote-rpt-not-honoured",
                            "step {step}: path {i} keeps sending with seq {s} < retire_prior_to {} although {reachable:?} are unused",
                            self.max_rpt
                        );
                    }
                    let f = if behind_gap.is_empty() {
                        self.st.starved += 1;
                        Fail::new(
                            "remote-starved-path-keeps-retired-cid",
                            format!(
                                "step {step}: path {i} keeps sending with seq {s} < retire_prior_to {} (no replacement available) and never retires it",
                                self.max_rpt
                            ),
                        )
                    } else {
                        self.st.gap_stale += 1;
                        Fail::new(
                            "remote-retired-cid-kept-behind-gap",
                            format!(
                                "step {step}: path {i} keeps sending with seq {s} < retire_prior_to {} although {behind_gap:?} arrived (an earlier number is still missing)",
                                self.max_rpt
                            ),
                        )
                    };
                    ctx.known.push(f.clone());
                    if !KNOWN_TOLERATED.contains(&f.signature.as_str()) {
                        return Err(f);
                    }
                }
                View::Waiting if !hidden => {
                    ensure!(
                        reachable.is_empty(),
                        "remote-waiting-despite-free-cid",
                        "step {step}: path {i} has no ID although {reachable:?} are unused"
                    );
                }
                _ => {}
            }
        }
        if complete {
            // one RETIRE_CONNECTION_ID per abandoned sequence number that was received
            for s in self.received.iter().filter(|s| **s < self.max_rpt) {
                let n = self.retire_cnt.get(s).copied().unwrap_or(0);
                if stale_held.contains(s) {
                    continue; // reported above
                }
                ensure_eq!(
                    n,
                    1u32,
                    "remote-retire-missing",
                    "step {step}: seq {s} < retire_prior_to {} is used by no path; RETIRE_CONNECTION_ID({s}) frames sent",
                    self.max_rpt
                );
            }
            for s in self.voluntary.iter() {
                let n = self.retire_cnt.get(s).copied().unwrap_or(0);
                ensure_eq!(n, 1u32, "remote-retire-missing", "step {step}: seq {s} was given up by its path; RETIRE_CONNECTION_ID({s}) frames sent");
            }
        }
        Ok(())
    }

    fn settle(&mut self, step: usize, ctx: &mut CaseCtx) -> Outcome {
        for ci in 0..self.cells.len() {
            self.release(ci, step)?;
        }
        let views = self.snapshot(step)?;
        self.st.settles += 1;
        self.judge(&views, step, ctx, true)
    }

    fn frame(&mut self, seq: u64, rpt: u64, step: usize, ctx: &mut CaseCtx) -> Result<bool, Fail> {
        let rpt = rpt.min(seq);
        let frame = NewConnectionIdFrame::new(rcid(seq), VarInt::from_u64(seq).unwrap(), VarInt::from_u64(rpt).unwrap());
        let conforming = seq + 1 - rpt <= self.limit;
        let is_new = !self.received.contains(&seq);
        let late = seq < self.max_rpt;
        let new_rpt = self.max_rpt.max(rpt);
        let active_after = {
            let mut n = self
                .received
                .range(new_rpt..)
                .filter(|s| !self.voluntary.contains(s))
                .count() as u64;
            if is_new && seq >= new_rpt {
                n += 1;
            }
            n
        };
        let r = self.remote.recv_frame(frame);
        match r {
            Err(e) => {
                ensure_eq!(e.kind(), ErrorKind::ConnectionIdLimit, "remote-frame-error-kind", "step {step}: NEW_CONNECTION_ID({seq},{rpt}) rejected with");
                if active_after > self.limit && is_new {
                    self.st.limit_err += 1;
                } else {
                    ensure!(
                        !conforming,
                        "remote-spurious-limit-error",
                        "step {step}: NEW_CONNECTION_ID({seq},{rpt}) rejected; it leaves {active_after} active ids, limit {}",
                        self.limit
                    );
                    // [rpt, seq] is wider than the limit although, after the larger
                    // retire_prior_to seen earlier, fewer ids are active: stricter than RFC 9000
                    // §19.15 ("smaller values ... have no effect"), but no well-behaved peer sends it
                    self.st.strict_reject = true;
                }
                Ok(false)
            }
            Ok(_) => {
                self.st.frames_ok += 1;
                if !late {
                    if is_new && seq > self.max_received() + 1 {
                        self.st.gaps += 1;
                    }
                }
                if !is_new {
                    self.st.dups += 1;
                }
                if late {
                    self.st.late += 1;
                }
                self.received.insert(seq);
                if new_rpt > self.max_rpt {
                    for c in &self.cm {
                        if matches!(c.guard, Some(s) if s < new_rpt && s >= self.max_rpt) {
                            self.st.overtook_borrowed += 1;
                        }
                    }
                }
                self.max_rpt = new_rpt;
                if active_after > self.limit && is_new && seq >= new_rpt {
                    self.st.over_limit += 1;
                    // the unmodified tree compares the width of [retire_prior_to, seq] minus one with
                    // the limit, so it can be exceeded by exactly one
                    let sig = if active_after == self.limit + 1 {
                        "remote-limit-off-by-one-accepted"
                    } else {
                        "remote-over-limit-accepted"
                    };
                    let f = Fail::new(
                        sig,
                        format!(
                            "step {step}: NEW_CONNECTION_ID(seq {seq}, retire_prior_to {rpt}) accepted although it makes {active_after} ids active, limit {}",
                            self.limit
                        ),
                    );
                    ctx.known.push(f.clone());
                    if !KNOWN_TOLERATED.contains(&sig) {
                        return Err(f);
                    }
                }
                self.drain(step, "frame")?;
                Ok(true)
            }
        }
    }
}

/// Signatures of confirmed defects of the unmodified tree behind which a history is
/// continued. They are recorded in `ctx.known`; `run_remote` turns them into ordinary
/// failures unless known-findings.jsonl lists them (the runner only counts listed ones).
const KNOWN_TOLERATED: [&str; 3] = [
    "remote-limit-off-by-one-accepted",
    "remote-starved-path-keeps-retired-cid",
    "remote-retired-cid-kept-behind-gap",
];

fn run_remote(case: &RCase, ctx: &mut CaseCtx) -> Outcome {
    let r = run_remote_inner(case, ctx);
    // tolerated findings must be listed in known-findings.jsonl, otherwise they are violations
    if r.is_ok() {
        let listed = listed_known();
        for f in &ctx.known {
            if !listed.iter().any(|k| sig_matches(k, &f.signature)) {
                return Err(f.clone());
            }
        }
    }
    r
}

fn sig_matches(pattern: &str, sig: &str) -> bool {
    match pattern.strip_suffix('*') {
        Some(p) => sig.starts_with(p),
        None => pattern == sig,
    }
}

fn listed_known() -> &'static Vec<String> {
    static L: std::sync::OnceLock<Vec<String>> = std::sync::OnceLock::new();
    L.get_or_init(|| vcore::load_known_findings("C14").into_iter().map(|k| k.signature).collect())
}

fn run_remote_inner(case: &RCase, ctx: &mut CaseCtx) -> Outcome {
    let limit = (case.limit as u64).clamp(2, 8);
    let mut rm = Remote::new(limit);
    let pre = (case.pre_cells as usize).clamp(1, 3);
    for _ in 0..pre {
        rm.apply();
    }
    // before the first Initial packet no path has an ID
    for ci in 0..pre {
        let r = rm.borrow(ci, 0, false)?;
        ensure!(r.is_none(), "remote-id-before-initial", "path {ci} has an ID before the handshake path is known");
    }
    let hs = gens::idx(case.hs, pre);
    rm.received.insert(0);
    rm.remote.apply_initial_dcid(rcid(0), &rm.cells[hs]);
    let got = rm.borrow(hs, 0, false)?;
    ensure_eq!(got, Some(0u64), "remote-initial-dcid", "handshake path {hs} gets");

    let mut closed = false;
    for (step, op) in case.ops.iter().enumerate() {
        let n = rm.cells.len();
        match op {
            ROp::Apply => {
                if n < 6 {
                    rm.apply();
                    rm.drain(step, "apply")?;
                }
            }
            ROp::Frame { sk, si, rk, ri } => {
                let top = rm.max_received();
                let seq = match sk % 32 {
                    0..=16 => top + 1,
                    17..=21 => top + 2 + gens::upto(*si, 2), // overtakes earlier frames
                    22..=29 => gens::upto(*si, top + 1),     // duplicate / late / gap filler
                    _ => gens::upto(*si, SEQ_MAX),
                }
                .min(SEQ_MAX);
                let floor = rm.max_rpt.max((seq + 1).saturating_sub(rm.limit)).min(seq);
                let rpt = match rk % 64 {
                    0..=35 => floor,                                            // what a tidy peer sends
                    36..=39 => rm.max_rpt.min(seq),                             // unchanged
                    40..=51 => (rm.max_rpt + 1 + gens::upto(*ri, 2)).min(seq).max(floor), // retire a few more
                    52..=56 => seq,                                             // retire everything older
                    57 => 0,
                    58..=61 => floor.saturating_sub(1),                         // one more than allowed
                    _ => gens::upto(*ri, seq),
                };
                if !rm.frame(seq, rpt, step, ctx)? {
                    closed = true;
                    break;
                }
            }
            ROp::FrameAbs { seq, rpt } => {
                if !rm.frame((*seq as u64).min(SEQ_MAX), *rpt as u64, step, ctx)? {
                    closed = true;
                    break;
                }
            }
            ROp::Borrow { c } => {
                let ci = gens::idx(*c, n);
                if rm.cm[ci].guard.is_some() {
                    continue;
                }
                let before = rm.max_rpt;
                let got = rm.borrow(ci, step, true)?;
                rm.drain(step, "borrow")?;
                if let Some(s) = got {
                    if s < before {
                        // decide with whatever is visible now
                        let mut views = vec![];
                        for cj in 0..n {
                            views.push(if cj == ci {
                                View::Holding(s)
                            } else if let Some(g) = rm.cm[cj].guard {
                                View::Busy(g)
                            } else if rm.cm[cj].retired {
                                View::Retired
                            } else {
                                match rm.borrow(cj, step, false)? {
                                    Some(x) => View::Holding(x),
                                    None => View::Waiting,
                                }
                            });
                        }
                        rm.judge(&views, step, ctx, false)?;
                    }
                }
            }
            ROp::Release { c } => {
                let ci = gens::idx(*c, n);
                let had = rm.cm[ci].guard;
                rm.release(ci, step)?;
                if let Some(old) = had {
                    if old < rm.max_rpt && rm.retire_cnt.get(&old).copied().unwrap_or(0) == 1 {
                        rm.st.switched_after_release += 1;
                    }
                }
            }
            ROp::RetireCell { c } => {
                let ci = gens::idx(*c, n);
                rm.release(ci, step)?;
                if rm.cm[ci].retired {
                    rm.cells[ci].retire();
                    let e = rm.drain(step, "retire-path-again")?;
                    ensure!(e.is_empty(), "remote-path-retire-twice", "step {step}: second retire of path {ci} emitted {e:?}");
                    continue;
                }
                let holding = rm.borrow(ci, step, false)?;
                if let Some(s) = holding {
                    rm.voluntary.insert(s);
                }
                rm.cells[ci].retire();
                rm.cm[ci].retired = true;
                rm.st.retire_cells += 1;
                let e = rm.drain(step, "retire-path")?;
                ensure_eq!(
                    e,
                    holding.into_iter().collect::<Vec<u64>>(),
                    "remote-path-retire-frames",
                    "step {step}: path {ci} deactivated while holding {holding:?}: RETIRE_CONNECTION_ID sent"
                );
                let after = rm.borrow(ci, step, false)?;
                ensure!(after.is_none(), "remote-retired-path-borrow", "step {step}: deactivated path {ci}");
            }
            ROp::RetireCellBusy { c } => {
                let ci = gens::idx(*c, n);
                let Some(in_use) = rm.cm[ci].guard else { continue };
                if rm.cm[ci].retired {
                    continue;
                }
                // whatever the path holds is given up voluntarily; the model regards the burst
                // as over (a RETIRE for the ID it was sending with is expected now), the real
                // guard is only dropped after the deactivation - that is the interleaving
                rm.voluntary.insert(in_use);
                rm.cm[ci].guard = None;
                rm.cells[ci].retire();
                rm.cm[ci].retired = true;
                rm.st.retire_cells += 1;
                // a replacement that was queued next to the ID in use is given up with the path:
                // what the deactivation itself retires counts as given up (the other invariants -
                // issued by the peer, at most once, not in use by another path - still apply)
                let emitted: Vec<u64> = rm.sink.0.lock().unwrap()[rm.seen..].to_vec();
                rm.voluntary.extend(emitted);
                rm.drain(step, "retire-path-in-burst")?;
                if let Some(g) = rm.guards.0[ci].take() {
                    drop(g);
                }
                rm.drain(step, "release-after-retire")?;
                // the ID the path was sending with is abandoned for good: exactly one RETIRE
                ensure_eq!(
                    rm.retire_cnt.get(&in_use).copied().unwrap_or(0),
                    1,
                    "remote-retire-missing:path-deactivated-in-burst",
                    "step {step}: path {ci} was deactivated while sending with seq {in_use}; RETIRE_CONNECTION_ID({in_use}) count"
                );
                let after = rm.borrow(ci, step, false)?;
                ensure!(after.is_none(), "remote-retired-path-borrow", "step {step}: deactivated path {ci}");
                ctx.class("path-deactivated-in-burst");
            }
            ROp::Settle => rm.settle(step, ctx)?,
        }
    }
    if !closed {
        rm.settle(case.ops.len(), ctx)?;
    }

    let st = &rm.st;
    ctx.class(format!("limit={limit}"));
    ctx.class(format!("paths={}", rm.cells.len().min(6)));
    ctx.class(format!("frames-accepted={}", match st.frames_ok { 0 => "0", 1..=3 => "1-3", 4..=9 => "4-9", _ => ">=10" }));
    if st.gaps > 0 {
        ctx.class("frame-gap(reordered)");
    }
    if st.dups > 0 {
        ctx.class("frame-duplicate");
    }
    if st.late > 0 {
        ctx.class("frame-below-rpt(late)");
    }
    if st.limit_err > 0 {
        ctx.class("limit-exceeded-rejected");
    }
    if st.strict_reject {
        ctx.class("observed:rejected-nonmonotone-rpt-within-limit");
    }
    if st.over_limit > 0 {
        ctx.class("limit-exceeded-accepted(known)");
    }
    if st.starved > 0 {
        ctx.class("starved-stale(known)");
    }
    if st.gap_stale > 0 {
        ctx.class("gap-stale(known)");
    }
    if st.retire_cells > 0 {
        ctx.class("path-deactivated");
    }
    if st.switched_after_release > 0 {
        ctx.class("retired-after-release");
    }
    if st.overtook_borrowed > 0 {
        ctx.class("rpt-overtakes-borrowed");
        ctx.nontrivial();
        ctx.note(json!({
            "frames_accepted": st.frames_ok,
            "rpt_overtook_borrowed": st.overtook_borrowed,
            "retire_frames": rm.seen,
            "max_rpt": rm.max_rpt,
        }));
    }
    Ok(())
}

fn rop_strategy() -> BoxedStrategy<ROp> {
    prop_oneof![
        2 => Just(ROp::Apply),
        10 => (0u8..32, any::<u16>(), 0u8..64, any::<u16>()).prop_map(|(sk, si, rk, ri)| ROp::Frame { sk, si, rk, ri }),
        1 => (0u8..=12, 0u8..=12).prop_map(|(seq, rpt)| ROp::FrameAbs { seq, rpt: rpt.min(seq) }),
        6 => any::<u16>().prop_map(|c| ROp::Borrow { c }),
        4 => any::<u16>().prop_map(|c| ROp::Release { c }),
        2 => any::<u16>().prop_map(|c| ROp::RetireCellBusy { c }),
        1 => any::<u16>().prop_map(|c| ROp::RetireCell { c }),
        1 => Just(ROp::Settle),
    ]
    .boxed()
}

fn rcase_strategy(max_ops: usize) -> BoxedStrategy<RCase> {
    (
        2u8..=8,
        1u8..=3,
        any::<u16>(),
        proptest::collection::vec(rop_strategy(), 0..=max_ops),
    )
        .prop_map(|(limit, pre_cells, hs, ops)| RCase { limit, pre_cells, hs, ops })
        .boxed()
}

// ===========================================================================

// ---------------------------------------------------------------------------
// router-threads: receive tasks of several interfaces deliver first-flight packets concurrently
// ---------------------------------------------------------------------------

/// Several receive tasks (one per interface; real threads, the interleaving is the operating
/// system's) call `QuicRouter::deliver` with packets for destination connection IDs the router has
/// not seen yet. The connectless handler does what `QuicListeners::try_accept_connection` does:
/// it creates a connection and registers the original DCID synchronously. Every such ID must end
/// up routed to exactly one connection, which receives every packet addressed to it.
#[derive(Debug, Clone, Serialize, Deserialize)]
struct TCase {
    /// per thread: indices into `ids` in delivery order
    plans: Vec<Vec<u8>>,
    ids: Vec<[u8; 8]>,
    rounds: u16,
}

fn tcase() -> impl Strategy<Value = TCase> {
    (2usize..=4, 1usize..=4).prop_flat_map(|(threads, nids)| {
        (
            proptest::collection::vec(proptest::collection::vec(0u8..nids as u8, 1..6), threads),
            proptest::collection::vec(any::<[u8; 8]>(), nids),
            10u16..60,
        )
            .prop_map(|(plans, ids, rounds)| TCase { plans, ids, rounds })
    })
}

fn run_router_threads(case: &TCase, ctx: &mut CaseCtx) -> Outcome {
    use std::sync::{Barrier, Mutex, atomic::{AtomicUsize, Ordering::SeqCst}};
    let mut contended = 0usize;
    for round in 0..case.rounds {
        // fresh router and fresh IDs every round: only the *first* packet for an ID can race
        let router = Arc::new(QuicRouter::new());
        let ids: Vec<ConnectionId> = case
            .ids
            .iter()
            .enumerate()
            .map(|(i, b)| {
                let mut b = *b;
                b[0] = i as u8; // distinct within the case
                b[1] = round as u8;
                ConnectionId::from_slice(&b)
            })
            .collect();
        type Created = Vec<(ConnectionId, Arc<RcvdPacketQueue>, qinterface::component::route::QuicRouterEntry)>;
        let created: Arc<Mutex<Created>> = Arc::new(Mutex::new(vec![]));
        let in_handler = Arc::new(AtomicUsize::new(0));
        let overlapped = Arc::new(AtomicUsize::new(0));
        {
            let (router2, created, in_handler, overlapped) = (Arc::downgrade(&router), created.clone(), in_handler.clone(), overlapped.clone());
            let ok = router.on_connectless_packets(move |packet, way| {
                if in_handler.fetch_add(1, SeqCst) > 0 {
                    overlapped.fetch_add(1, SeqCst);
                }
                let dcid = match &packet {
                    Packet::Data(d) => match &d.header {
                        qbase::packet::DataHeader::Long(qbase::packet::long::DataHeader::Initial(h)) => *qbase::packet::GetDcid::dcid(h),
                        _ => {
                            in_handler.fetch_sub(1, SeqCst);
                            return;
                        }
                    },
                    _ => {
                        in_handler.fetch_sub(1, SeqCst);
                        return;
                    }
                };
                // `Connection::new_server(..).with_cids(origin_dcid).run()`: the route is in the
                // table before the handler returns
                let queue = Arc::new(RcvdPacketQueue::new());
                if let Some(router) = router2.upgrade() {
                    let entry = router.insert(dcid.into(), queue.clone());
                    // make the window in which a second task can be between its lookup and the
                    // lock as wide as a real connection construction makes it
                    std::thread::yield_now();
                    // the spawned `try_accept_connection` future delivers the packet to the new connection
                    let _ = router.try_deliver(packet, way).now_or_never();
                    created.lock().unwrap().push((dcid, queue, entry));
                }
                in_handler.fetch_sub(1, SeqCst);
            });
            ensure!(ok, "harness", "connectless handler already installed");
        }
        let barrier = Arc::new(Barrier::new(case.plans.len()));
        let sent = std::thread::scope(|scope| -> Result<Vec<usize>, Fail> {
            let mut hs = vec![];
            for (t, plan) in case.plans.iter().enumerate() {
                let (router, barrier, ids) = (router.clone(), barrier.clone(), &ids);
                hs.push(scope.spawn(move || -> Result<Vec<usize>, Fail> {
                    let mut pkts = vec![];
                    for i in plan {
                        pkts.push((*i as usize, initial_packet(&ids[*i as usize])?));
                    }
                    let bind = BindUri::from(format!("127.0.0.1:{}", 4433 + t).parse::<SocketAddr>().unwrap());
                    barrier.wait();
                    let mut per_id = vec![0usize; ids.len()];
                    for (k, (i, pkt)) in pkts.into_iter().enumerate() {
                        let src: SocketAddr = SocketAddr::from(([10, 0, t as u8, 1], 2000 + k as u16));
                        let dst: SocketAddr = format!("127.0.0.1:{}", 4433 + t).parse().unwrap();
                        let way = (bind.clone(), Pathway::new(EndpointAddr::direct(dst), EndpointAddr::direct(src)), Link::new(src, dst));
                        futures::executor::block_on(router.deliver(pkt, way));
                        per_id[i] += 1;
                    }
                    Ok(per_id)
                }));
            }
            let mut total = vec![0usize; ids.len()];
            for h in hs {
                let per = h.join().map_err(|_| Fail::new("panic@router-thread", "a delivering thread panicked"))??;
                for (i, n) in per.iter().enumerate() {
                    total[i] += n;
                }
            }
            Ok(total)
        })?;
        ensure_eq!(overlapped.load(SeqCst), 0, "connectless-handler-reentered", "round {round}: the connectless handler ran on two threads at once");
        let created = created.lock().unwrap();
        for (i, id) in ids.iter().enumerate() {
            if sent[i] == 0 {
                continue;
            }
            let mine: Vec<_> = created.iter().filter(|(d, ..)| d == id).collect();
            ensure_eq!(
                mine.len(),
                1,
                "odcid-claimed-by-two-connections",
                "round {round}: {} packets for the new destination connection ID {id:?} arrived on {} receive tasks and {} connections were created for it",
                sent[i],
                case.plans.iter().filter(|p| p.contains(&(i as u8))).count(),
                mine.len()
            );
            let mut got = 0;
            while let Some(Some(_)) = mine[0].1.initial().recv().now_or_never() {
                got += 1;
            }
            // the per-type queue holds 8 packets; a packet beyond that is dropped like a full socket buffer
            ensure!(
                got == sent[i].min(8) || (sent[i] > 8 && got >= 8),
                "first-flight-split",
                "round {round}: {} packets were sent to {id:?}, its one connection received {got}",
                sent[i]
            );
            if case.plans.iter().filter(|p| p.contains(&(i as u8))).count() > 1 {
                contended += 1;
            }
        }
        router.drain_connectless();
    }
    ctx.class(format!("threads:{}", case.plans.len()));
    if contended > 0 {
        ctx.class("id-contended-by-two-tasks");
        ctx.nontrivial();
    }
    Ok(())
}

fn main() {
    let mut check = Check::from_env("C14", "exploration");
    check.rule(
        "local stage: case = op list over {new connection (client/server+odcid) on one shared QuicRouter, set_limit, \
         RETIRE_CONNECTION_ID (active / duplicate / unissued number), clone/drop a handle, clear, drop connection}; after every op \
         every id ever issued by any connection is looked up with a real packet. non-trivial = >=2 connections alive at once, a \
         retirement of an active id while >=2 are alive, and another such retirement after a different connection was dropped/cleared. \
         remote stages: case = own limit 2..8, 1..3 paths created before the handshake path is chosen, op list over \
         {new path, NEW_CONNECTION_ID (next / skipping / old / raw sequence number <=40; retire_prior_to tidy / unchanged / bumped / =seq / 0 / raw), \
         borrow, release, deactivate path, settle}. non-trivial = an accepted frame whose retire_prior_to overtakes an ID a path is \
         sending with at that moment (borrow in progress). exhaustive stage: every op sequence up to a small depth over a small alphabet. \
         distinct = by hash of the serialised case.",
    );
    check.assume("router-threads stage: the interleaving of the delivering threads is the operating system's, not the seed's; the oracle is exact (one connection per new ID, every packet in its queue), detection and replay are probabilistic");
    check.assume("connection IDs generated by gm-quic are random; their uniqueness is checked but collisions are not provoked");
    check.assume("a path has at most one burst (borrow) in progress and is deactivated only between bursts (what qconnection's burst loop does)");
    check.assume("NEW_CONNECTION_ID frames have retire_prior_to <= seq (larger values are rejected by the frame decoder) and the same sequence number always carries the same ID");
    check.assume("which free ID a path gets is not predicted; only: it must be a received, unretired ID used by no other path, and an unused ID that is not behind a missing sequence number must be handed out");

    // ---- local: issuing + routing on a shared router
    let n = check.pick(120_000, 2_000_000);
    check.stage("local-router", n, 16, || lcase_strategy(45), run_local);
    {
        let n = check.pick(300, 12_000);
        let keep = check.max_shrink_iters;
        check.max_shrink_iters = 0; // the schedule is the operating system's: nothing to shrink towards
        check.stage("router-threads", n, 4, tcase, run_router_threads);
        check.max_shrink_iters = keep;
    }

    // ---- remote: exhaustive small bounds
    let depth = if check.quick() { 4 } else { 5 };
    check.exhaustive::<RCase, _>("remote-exhaustive-small", true, |e| {
        let mut alphabet: Vec<ROp> = vec![];
        for seq in 1u8..=4 {
            for rpt in 0..=seq {
                if seq - rpt <= 2 {
                    alphabet.push(ROp::FrameAbs { seq, rpt });
                }
            }
        }
        alphabet.push(ROp::FrameAbs { seq: 3, rpt: 0 });
        alphabet.push(ROp::Borrow { c: 0 });
        alphabet.push(ROp::Borrow { c: 0x8000 });
        alphabet.push(ROp::Release { c: 0 });
        alphabet.push(ROp::Release { c: 0x8000 });
        alphabet.push(ROp::Apply);
        alphabet.push(ROp::RetireCell { c: 0x8000 });
        fn rec(e: &mut vcore::Enumerator<RCase>, alphabet: &[ROp], ops: &mut Vec<ROp>, depth: usize, pre: u8) {
            if e.stopped() {
                return;
            }
            if !ops.is_empty() {
                let case = RCase { limit: 2, pre_cells: pre, hs: 0, ops: ops.clone() };
                e.case(&case, |c, ctx| {
                    let r = run_remote(c, ctx);
                    // in the exhaustive tier every history with >=2 accepted frames and a borrow counts
                    let frames = c.ops.iter().filter(|o| matches!(o, ROp::FrameAbs { .. })).count();
                    let borrows = c.ops.iter().filter(|o| matches!(o, ROp::Borrow { .. })).count();
                    ctx.nontrivial = ctx.nontrivial || (frames >= 2 && borrows >= 1);
                    r
                });
            }
            if ops.len() < depth {
                for op in alphabet {
                    // a second identical Apply/Borrow in a row adds nothing
                    ops.push(op.clone());
                    rec(e, alphabet, ops, depth, pre);
                    ops.pop();
                }
            }
        }
        for pre in 1..=2u8 {
            let mut ops = vec![];
            rec(e, &alphabet, &mut ops, depth, pre);
        }
    });

    // ---- remote: random histories
    let n = check.pick(400_000, 5_000_000);
    check.stage("remote-paths", n, 16, || rcase_strategy(40), run_remote);

    check.finish();
}
