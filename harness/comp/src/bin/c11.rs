//! C11 — flow-control limits are never exceeded and violations are detected.
//!
//! Frame-level harness (DESIGN §2.2) built from the real `qrecovery::streams::DataStreams`
//! and `qbase::flow::FlowController`, wired exactly like `qconnection` wires them
//! (`builder.rs::init_stream_and_datagram` + `tls_fin_handler::apply_parameters` for
//! construction, `space.rs::FlowControlledDataStreams` + `space/data.rs` for dispatch,
//! `path/burst.rs` for the packet load order, `space/data.rs::DataTracker` / `AckDataSpace`
//! for loss and acknowledgement feedback).
//!
//! Three model-based stages share one engine:
//!  * `pair`      two real endpoints with independently drawn flow-control parameters,
//!                joined by a packet network owned by the test (loss, reordering, late acks);
//!  * `sender`    one real endpoint against a scripted peer that moves MAX_DATA /
//!                MAX_STREAM_DATA arbitrarily (increasing and stale), acks, loses, stops;
//!  * `receiver`  one real endpoint against a scripted hostile (but final-size consistent)
//!                sender that places STREAM / FIN / RESET_STREAM frames around the limits.
//!  * `sender-zero-rtt`  a resuming client (remembered server parameters) that opens and writes
//!                streams before the handshake completes, then has its windows revised by
//!                `revise_params` / `revise_max_data` (0-RTT accepted or rejected) exactly like
//!                `qconnection/src/builder.rs` does it, then goes on like the `sender` stage.
//! plus an exhaustive small-bound tier of the receiver stage.

use std::{
    collections::{BTreeMap, VecDeque},
    future::Future,
    panic::{AssertUnwindSafe, catch_unwind, resume_unwind},
    pin::Pin,
    sync::{Arc, Mutex},
    task::{Context, Poll},
};

use bytes::{BufMut, Bytes, buf::UninitSlice};
use proptest::prelude::*;
use qbase::{
    cid::ConnectionId,
    error::{Error, ErrorKind},
    flow::FlowController,
    frame::{
        DataBlockedFrame, EncodeSize, Frame, FrameReader, GetFrameType, MaxDataFrame,
        MaxStreamDataFrame, ReliableFrame, ResetStreamFrame, StopSendingFrame, StreamCtlFrame,
        StreamFrame,
        io::{ReceiveFrame, SendFrame, WriteFrame},
    },
    net::tx::ArcSendWakers,
    packet::{
        RecordFrame, SpinBit,
        r#type::{Type, short::OneRtt},
    },
    param::{ArcParameters, ClientParameters, ParameterId, Parameters, ServerParameters},
    role::Role,
    sid::{Dir, StreamId, handy::ConsistentConcurrency},
    varint::VarInt,
};
use qrecovery::{
    recv::{Reader, StopSending},
    send::{CancelStream, Writer},
    streams::{DataStreams, Ext},
};
use serde::{Deserialize, Serialize};
use serde_json::json;
use vcore::{CaseCtx, Check, Fail, Outcome, ensure, ensure_eq, fail, gens};

/// initial_max_streams_{bidi,uni} on both sides; the check opens at most `OPEN_CAP`
/// streams per side and direction, so stream-count limits (C12) never interfere.
const MAXS: u64 = 8;
const OPEN_CAP: u64 = 3;
/// the value set named by DESIGN.md
const FC_SET: [u64; 6] = [0, 1, 100, 1_000, 70_000, 1 << 20];

// known-finding signatures (genuine defects of the receiving side, see the report)
const SIG_FIN_BYPASS: &str = "fin-bypasses-stream-limit";
const SIG_RESET_BYPASS: &str = "reset-final-size-beyond-stream-limit";
const SIG_FINAL_UNCHARGED: &str = "final-size-not-charged-to-conn-limit";
// genuine defects of the sending side after a 0-RTT rejection (stage sender-zero-rtt):
//  * SendControler::revise_max_data(true, ..) resets max_data but keeps sent_data (qbase/src/flow.rs), while
//    the streams re-send the 0-RTT bytes as fresh data: those bytes are charged twice, and if the new
//    initial_max_data is below the bytes sent in 0-RTT, `max_data - sent_data` underflows;
//  * a stream that sent its FIN in 0-RTT stays DataSent after the rejection and answers STOP_SENDING with
//    RESET_STREAM final size = written() (qrecovery/src/send/sender.rs) whatever has been sent again.
const SIG_ZR_DOUBLE: &str = "zero-rtt-rejected-conn-credit-charged-twice";
const SIG_ZR_UNDERFLOW: &str = "zero-rtt-rejected-conn-credit-underflow";
const SIG_ZR_RESET_FINAL: &str = "zero-rtt-rejected-after-fin-reset-final-size-unsent";

fn vi(v: u64) -> VarInt {
    VarInt::from_u64(v).expect("value fits a varint")
}

fn harness(msg: impl Into<String>) -> Fail {
    Fail::new("harness", msg)
}

fn sid_key(sid: StreamId) -> u64 {
    (sid.id() << 2) | ((sid.dir() as u64) << 1) | (sid.role() as u64)
}

fn peer_of(role: Role) -> Role {
    match role {
        Role::Client => Role::Server,
        Role::Server => Role::Client,
    }
}

fn noop_cx<R>(f: impl FnOnce(&mut Context<'_>) -> R) -> R {
    let waker = futures::task::noop_waker();
    let mut cx = Context::from_waker(&waker);
    f(&mut cx)
}

// ---------------------------------------------------------------------------
// the six initial flow-control parameters of one side (two of them are per-connection
// stream counts and fixed, four are the data limits this property is about)
// ---------------------------------------------------------------------------

#[derive(Debug, Clone, Copy, Serialize, Deserialize, PartialEq)]
struct Fc {
    max_data: u64,
    bidi_local: u64,
    bidi_remote: u64,
    uni: u64,
}

impl Fc {
    fn stream_limits_distinct(&self) -> bool {
        self.bidi_local != self.bidi_remote && self.bidi_local != self.uni && self.bidi_remote != self.uni
    }
}

fn odcid() -> ConnectionId {
    ConnectionId::from_slice(&[1, 2, 3, 4, 5, 6, 7, 8])
}
fn client_scid() -> ConnectionId {
    ConnectionId::from_slice(&[0xc1; 8])
}
fn server_scid() -> ConnectionId {
    ConnectionId::from_slice(&[0x5e; 8])
}

fn perr<E: std::fmt::Debug>(e: E) -> Fail {
    harness(format!("transport parameter: {e:?}"))
}

fn client_params(fc: &Fc) -> Result<ClientParameters, Fail> {
    let mut p = ClientParameters::new();
    let e = perr;
    p.set(ParameterId::InitialMaxData, vi(fc.max_data)).map_err(e)?;
    p.set(ParameterId::InitialMaxStreamDataBidiLocal, vi(fc.bidi_local)).map_err(e)?;
    p.set(ParameterId::InitialMaxStreamDataBidiRemote, vi(fc.bidi_remote)).map_err(e)?;
    p.set(ParameterId::InitialMaxStreamDataUni, vi(fc.uni)).map_err(e)?;
    p.set(ParameterId::InitialMaxStreamsBidi, vi(MAXS)).map_err(e)?;
    p.set(ParameterId::InitialMaxStreamsUni, vi(MAXS)).map_err(e)?;
    p.set(ParameterId::InitialSourceConnectionId, client_scid()).map_err(e)?;
    Ok(p)
}

fn server_params(fc: &Fc) -> Result<ServerParameters, Fail> {
    let mut p = ServerParameters::new();
    let e = perr;
    p.set(ParameterId::InitialMaxData, vi(fc.max_data)).map_err(e)?;
    p.set(ParameterId::InitialMaxStreamDataBidiLocal, vi(fc.bidi_local)).map_err(e)?;
    p.set(ParameterId::InitialMaxStreamDataBidiRemote, vi(fc.bidi_remote)).map_err(e)?;
    p.set(ParameterId::InitialMaxStreamDataUni, vi(fc.uni)).map_err(e)?;
    p.set(ParameterId::InitialMaxStreamsBidi, vi(MAXS)).map_err(e)?;
    p.set(ParameterId::InitialMaxStreamsUni, vi(MAXS)).map_err(e)?;
    p.set(ParameterId::InitialSourceConnectionId, server_scid()).map_err(e)?;
    p.set(ParameterId::OriginalDestinationConnectionId, odcid()).map_err(e)?;
    Ok(p)
}

// ---------------------------------------------------------------------------
// the frame sink shared by DataStreams and FlowController (qconnection: ArcReliableFrameDeque)
// ---------------------------------------------------------------------------

#[derive(Default, Debug)]
struct SinkInner {
    /// frames waiting to be put into a packet (emitted + re-queued after loss)
    queue: VecDeque<ReliableFrame>,
    /// frames emitted since the oracle last looked
    fresh: Vec<ReliableFrame>,
}

#[derive(Clone, Default, Debug)]
struct Sink(Arc<Mutex<SinkInner>>);

impl Sink {
    fn push(&self, f: ReliableFrame) {
        let mut g = self.0.lock().unwrap();
        g.queue.push_back(f.clone());
        g.fresh.push(f);
    }
    fn requeue(&self, f: ReliableFrame) {
        self.0.lock().unwrap().queue.push_back(f);
    }
    fn take_fresh(&self) -> Vec<ReliableFrame> {
        std::mem::take(&mut self.0.lock().unwrap().fresh)
    }
}

impl SendFrame<StreamCtlFrame> for Sink {
    fn send_frame<I: IntoIterator<Item = StreamCtlFrame>>(&self, iter: I) {
        for f in iter {
            self.push(ReliableFrame::StreamCtl(f));
        }
    }
}
impl SendFrame<MaxDataFrame> for Sink {
    fn send_frame<I: IntoIterator<Item = MaxDataFrame>>(&self, iter: I) {
        for f in iter {
            self.push(ReliableFrame::MaxData(f));
        }
    }
}
impl SendFrame<DataBlockedFrame> for Sink {
    fn send_frame<I: IntoIterator<Item = DataBlockedFrame>>(&self, iter: I) {
        for f in iter {
            self.push(ReliableFrame::DataBlocked(f));
        }
    }
}

// ---------------------------------------------------------------------------
// packet target: BufMut with a hard capacity that records the STREAM frames put into it
// ---------------------------------------------------------------------------

#[derive(Debug, Clone)]
struct Rec {
    frame: StreamFrame,
    data: Vec<u8>,
}

struct Packet {
    buf: Vec<u8>,
    cap: usize,
    recs: Vec<Rec>,
}

impl Packet {
    fn new(cap: usize) -> Self {
        Self { buf: Vec::with_capacity(cap), cap, recs: vec![] }
    }
}

unsafe impl BufMut for Packet {
    fn remaining_mut(&self) -> usize {
        self.cap - self.buf.len()
    }
    unsafe fn advance_mut(&mut self, cnt: usize) {
        assert!(cnt <= self.remaining_mut(), "packet overflow");
        let n = self.buf.len() + cnt;
        unsafe { self.buf.set_len(n) };
    }
    fn chunk_mut(&mut self) -> &mut UninitSlice {
        let len = self.buf.len();
        let cap = self.cap;
        if self.buf.capacity() < cap {
            self.buf.reserve(cap - len);
        }
        let spare = &mut self.buf.spare_capacity_mut()[..cap - len];
        UninitSlice::uninit(spare)
    }
}

fn flatten(data: &[Bytes]) -> Vec<u8> {
    let mut v = Vec::with_capacity(data.iter().map(|b| b.len()).sum());
    for b in data {
        v.extend_from_slice(b);
    }
    v
}

impl<'a> RecordFrame<Frame<&'a [Bytes]>, &'a [Bytes]> for Packet {
    fn record_frame(&mut self, frame: &Frame<&'a [Bytes]>) {
        match frame {
            Frame::Stream(f, data) => self.recs.push(Rec { frame: *f, data: flatten(data) }),
            other => panic!("unexpected frame recorded: {:?}", other.frame_type()),
        }
    }
}

/// One packet in flight: what the sender's journal would remember plus the wire image.
#[derive(Debug, Clone)]
struct Flight {
    ctl: Vec<ReliableFrame>,
    stream: Vec<StreamFrame>,
    wire: Bytes,
    delivered: bool,
    acked: bool,
    lost: bool,
    /// the network dropped it for good
    dropped: bool,
}

fn parse_wire(wire: &Bytes) -> Result<Vec<Frame>, Fail> {
    let mut out = vec![];
    for item in FrameReader::new(wire.clone(), Type::Short(OneRtt(SpinBit::Zero))) {
        match item {
            Ok((Frame::Padding(_), _)) => {}
            Ok((f, _)) => out.push(f),
            Err(e) => return Err(Fail::new("packet-unparseable", format!("own packet does not parse: {e:?}"))),
        }
    }
    Ok(out)
}

// ---------------------------------------------------------------------------
// one real endpoint
// ---------------------------------------------------------------------------

struct Endpoint {
    role: Role,
    sink: Sink,
    streams: DataStreams<Sink>,
    flow: FlowController<Sink>,
    params: ArcParameters,
    writers: BTreeMap<StreamId, Writer<Ext<Sink>>>,
    readers: BTreeMap<StreamId, Reader<Ext<Sink>>>,
    /// packets are assembled by the 0-RTT package list (burst.rs: `package(.., true)`)
    zero_rtt: bool,
}

struct Built {
    flight: Flight,
    recs: Vec<Rec>,
}

impl Endpoint {
    /// Construction follows qconnection/src/builder.rs: both components start from *default*
    /// remote parameters; once the handshake delivers the peer's parameters they are applied
    /// through `revise_params` / `revise_max_data` (no 0-RTT here: see `build_resuming`).
    fn build(role: Role, local: &Fc, remote: &Fc) -> Result<Self, Fail> {
        let sink = Sink::default();
        let wakers = ArcSendWakers::default();
        let qe = |e| harness(format!("parameter exchange: {e:?}"));
        let (streams, params) = match role {
            Role::Client => {
                let lp = client_params(local)?;
                let rp = server_params(remote)?;
                let streams = DataStreams::new(
                    Role::Client,
                    &lp,
                    &ServerParameters::default(),
                    Box::new(ConsistentConcurrency::new(MAXS, MAXS)),
                    sink.clone(),
                    wakers.clone(),
                    None,
                );
                let mut p = Parameters::new_client(lp, None, odcid());
                p.initial_scid_from_peer_need_equal(server_scid()).map_err(qe)?;
                p.recv_remote_params(rp.clone()).map_err(qe)?;
                streams.revise_params(false, &rp);
                (streams, ArcParameters::from(p))
            }
            Role::Server => {
                let lp = server_params(local)?;
                let rp = client_params(remote)?;
                let streams = DataStreams::new(
                    Role::Server,
                    &lp,
                    &ClientParameters::default(),
                    Box::new(ConsistentConcurrency::new(MAXS, MAXS)),
                    sink.clone(),
                    wakers.clone(),
                    None,
                );
                let mut p = Parameters::new_server(lp);
                p.initial_scid_from_peer_need_equal(client_scid()).map_err(qe)?;
                p.recv_remote_params(rp.clone()).map_err(qe)?;
                streams.revise_params(false, &rp);
                (streams, ArcParameters::from(p))
            }
        };
        let flow = FlowController::new(0, local.max_data, sink.clone(), wakers.clone());
        flow.sender.revise_max_data(false, remote.max_data);
        Ok(Self { role, sink, streams, flow, params, writers: BTreeMap::new(), readers: BTreeMap::new(), zero_rtt: false })
    }

    /// A client that resumes a session: qconnection/src/builder.rs hands the *remembered* server
    /// parameters to `init_stream_and_datagram` (DataStreams::new + FlowController::new) and to
    /// `Parameters::new_client(.., Some(remembered), ..)`; the handshake is still to come.
    fn build_resuming(local: &Fc, remembered: &Fc) -> Result<Self, Fail> {
        let sink = Sink::default();
        let wakers = ArcSendWakers::default();
        let lp = client_params(local)?;
        let rem = server_params(remembered)?;
        let streams = DataStreams::new(
            Role::Client,
            &lp,
            &rem,
            Box::new(ConsistentConcurrency::new(MAXS, MAXS)),
            sink.clone(),
            wakers.clone(),
            None,
        );
        let flow = FlowController::new(remembered.max_data, local.max_data, sink.clone(), wakers.clone());
        let params = ArcParameters::from(Parameters::new_client(lp, Some(rem), odcid()));
        Ok(Self { role: Role::Client, sink, streams, flow, params, writers: BTreeMap::new(), readers: BTreeMap::new(), zero_rtt: true })
    }

    /// `open_bi` / `open_uni`, polled once. None = no stream id available right now.
    fn open(&mut self, uni: bool) -> Result<Option<StreamId>, Fail> {
        if uni {
            let r = noop_cx(|cx| {
                let mut fut = self.streams.open_uni(&self.params);
                Pin::new(&mut fut).poll(cx)
            });
            match r {
                Poll::Ready(Ok(Some((sid, w)))) => {
                    self.writers.insert(sid, w);
                    Ok(Some(sid))
                }
                Poll::Ready(Ok(None)) | Poll::Pending => Ok(None),
                Poll::Ready(Err(e)) => Err(harness(format!("open_uni failed: {e:?}"))),
            }
        } else {
            let r = noop_cx(|cx| {
                let mut fut = self.streams.open_bi(&self.params);
                Pin::new(&mut fut).poll(cx)
            });
            match r {
                Poll::Ready(Ok(Some((sid, (rd, w))))) => {
                    self.writers.insert(sid, w);
                    self.readers.insert(sid, rd);
                    Ok(Some(sid))
                }
                Poll::Ready(Ok(None)) | Poll::Pending => Ok(None),
                Poll::Ready(Err(e)) => Err(harness(format!("open_bi failed: {e:?}"))),
            }
        }
    }

    /// accept everything the peer opened so far
    fn accept_all(&mut self) -> Result<Vec<StreamId>, Fail> {
        let mut out = vec![];
        loop {
            let r = noop_cx(|cx| {
                let mut fut = self.streams.accept_bi(&self.params);
                Pin::new(&mut fut).poll(cx)
            });
            match r {
                Poll::Ready(Ok((sid, (rd, w)))) => {
                    self.writers.insert(sid, w);
                    self.readers.insert(sid, rd);
                    out.push(sid);
                }
                Poll::Pending => break,
                Poll::Ready(Err(e)) => return Err(harness(format!("accept_bi failed: {e:?}"))),
            }
        }
        loop {
            let r = noop_cx(|cx| {
                let mut fut = self.streams.accept_uni();
                Pin::new(&mut fut).poll(cx)
            });
            match r {
                Poll::Ready(Ok((sid, rd))) => {
                    self.readers.insert(sid, rd);
                    out.push(sid);
                }
                Poll::Pending => break,
                Poll::Ready(Err(e)) => return Err(harness(format!("accept_uni failed: {e:?}"))),
            }
        }
        Ok(out)
    }

    /// One packet payload of `cap` bytes: queued reliable frames first, then stream data
    /// (the order of `Components::packages`, qconnection/src/path/burst.rs).
    fn assemble(&self, cap: usize) -> Result<Built, Fail> {
        let mut pkt = Packet::new(cap);
        let mut ctl = vec![];
        loop {
            let next = {
                let mut g = self.sink.0.lock().unwrap();
                match g.queue.front() {
                    Some(f) if f.max_encoding_size() <= pkt.remaining_mut() => g.queue.pop_front(),
                    _ => None,
                }
            };
            let Some(f) = next else { break };
            pkt.put_frame(&f);
            ctl.push(f);
        }
        let _ = self.streams.try_load_data_into(&mut pkt, &self.flow.sender, self.zero_rtt);
        let recs = std::mem::take(&mut pkt.recs);
        let wire = Bytes::from(std::mem::take(&mut pkt.buf));
        // the wire image must parse back into exactly the recorded frames
        let parsed = parse_wire(&wire)?;
        ensure_eq!(parsed.len(), ctl.len() + recs.len(), "packet-frame-count", "frames parsed from the packet vs frames put into it");
        for (p, r) in parsed.iter().skip(ctl.len()).zip(&recs) {
            match p {
                Frame::Stream(f, d) => {
                    ensure!(
                        f.stream_id() == r.frame.stream_id() && f.range() == r.frame.range() && f.is_fin() == r.frame.is_fin() && d[..] == r.data[..],
                        "packet-frame-mismatch",
                        "parsed {f:?} differs from recorded {:?}",
                        r.frame
                    );
                }
                other => fail!("packet-frame-mismatch", "parsed {:?} where a STREAM frame was recorded", other.frame_type()),
            }
        }
        let flight = Flight {
            ctl,
            stream: recs.iter().map(|r| r.frame).collect(),
            wire,
            delivered: false,
            acked: false,
            lost: false,
            dropped: false,
        };
        Ok(Built { flight, recs })
    }

    /// qconnection/src/space/data.rs dispatch + space.rs FlowControlledDataStreams
    fn deliver(&self, frame: Frame) -> Result<(), Error> {
        match frame {
            Frame::Stream(f, data) => {
                let ft = f.frame_type();
                let n = self.streams.recv_frame((f, data))?;
                self.flow.on_new_rcvd(ft, n)?;
            }
            Frame::StreamCtl(f) => {
                let n = self.streams.recv_frame(f)?;
                self.flow.on_new_rcvd(f.frame_type(), n)?;
            }
            Frame::MaxData(f) => self.flow.sender.recv_frame(f)?,
            Frame::DataBlocked(f) => self.flow.recver.recv_frame(f)?,
            Frame::Padding(_) => {}
            other => panic!("harness: frame {:?} cannot be dispatched", other.frame_type()),
        }
        Ok(())
    }

    fn kill(&self, e: &Error) {
        self.streams.on_conn_error(e);
        self.flow.on_conn_error(e);
    }

    /// what AckDataSpace does for the frames of an acknowledged packet
    fn on_acked(&self, fl: &Flight) {
        for f in &fl.stream {
            self.streams.on_data_acked(*f);
        }
        for c in &fl.ctl {
            if let ReliableFrame::StreamCtl(StreamCtlFrame::ResetStream(r)) = c {
                self.streams.on_reset_acked(*r);
            }
        }
    }

    /// what DataTracker::may_loss does for the frames of a packet declared lost
    fn on_lost(&self, fl: &Flight) {
        for f in &fl.stream {
            self.streams.may_loss_data(f);
        }
        for c in &fl.ctl {
            self.sink.requeue(c.clone());
        }
    }
}

/// Runs `f` on the world; if the stack panics the world is leaked instead of dropped
/// (a panic poisons the stack's mutexes and `Writer::drop` / `Reader::drop` lock them,
/// which would abort the process while unwinding).
fn with_world<W>(world: W, f: impl FnOnce(&mut W) -> Outcome) -> Outcome {
    let mut world = std::mem::ManuallyDrop::new(world);
    match catch_unwind(AssertUnwindSafe(|| f(&mut world))) {
        Ok(o) => {
            unsafe { std::mem::ManuallyDrop::drop(&mut world) };
            o
        }
        Err(p) => resume_unwind(p),
    }
}

// ---------------------------------------------------------------------------
// reference model of one endpoint's flow-control state
// ---------------------------------------------------------------------------

#[derive(Debug, Clone, Default)]
struct SendSt {
    /// the peer's limit in force for this stream (initial parameter for its kind as seen
    /// from the peer, or the largest MAX_STREAM_DATA delivered so far)
    limit: u64,
    highest: u64,
    written: u64,
    writer: bool,
    shutdown: bool,
    reset: bool,
    hit: bool,
    /// a frame carrying FIN was emitted
    fin_sent: bool,
    /// sender-zero-rtt: the FIN had been sent in a 0-RTT packet when 0-RTT was rejected
    fin_before_reject: bool,
}

#[derive(Debug, Clone, Default)]
struct RecvSt {
    /// limit advertised by this endpoint (initial parameter, or largest MAX_STREAM_DATA emitted)
    adv: u64,
    reader: bool,
    nread: u64,
    // --- hostile-sender bookkeeping (receiver stage)
    largest: u64,
    final_size: Option<u64>,
    cover: Vec<(u64, u64)>,
    closed: bool,
    bypass: bool,
}

impl RecvSt {
    fn contig(&self) -> u64 {
        match self.cover.first() {
            Some((0, e)) => *e,
            _ => 0,
        }
    }
    fn add_cover(&mut self, s: u64, e: u64) {
        if s >= e {
            return;
        }
        self.cover.push((s, e));
        self.cover.sort();
        let mut out: Vec<(u64, u64)> = vec![];
        for (s, e) in self.cover.drain(..) {
            match out.last_mut() {
                Some(l) if s <= l.1 => l.1 = l.1.max(e),
                _ => out.push((s, e)),
            }
        }
        self.cover = out;
    }
}

#[derive(Debug, Clone, Default)]
struct StreamSide {
    send: Option<SendSt>,
    recv: Option<RecvSt>,
}

#[derive(Debug, Default, Clone)]
struct Stats {
    hit_own_bidi: bool,
    hit_own_uni: bool,
    hit_peer_bidi: bool,
    conn_hit: bool,
    retrans: u32,
    stream_frames: u32,
    msd_emitted: u32,
    md_emitted: u32,
    blocked_at_limit: u32,
    blocked_early: u32,
    limit_raised: u32,
    stale_limit: u32,
    resets: u32,
}

struct SideModel {
    role: Role,
    local: Fc,
    remote: Fc,
    snd_max: u64,
    snd_sent: u64,
    /// connection credit the endpoint is known to hold back (known finding of the
    /// sender-zero-rtt stage: 0-RTT bytes stay charged after a rejection); 0 everywhere else
    overcharge: u64,
    /// known findings met by the model in the middle of a history (handed to `ctx.known` by the stage)
    tolerated: Vec<Fail>,
    rcv_adv: u64,
    streams: BTreeMap<StreamId, StreamSide>,
    order: Vec<StreamId>,
    st: Stats,
}

impl SideModel {
    fn new(role: Role, local: Fc, remote: Fc) -> Self {
        Self {
            role,
            local,
            remote,
            snd_max: remote.max_data,
            snd_sent: 0,
            overcharge: 0,
            tolerated: vec![],
            rcv_adv: local.max_data,
            streams: BTreeMap::new(),
            order: vec![],
            st: Stats::default(),
        }
    }

    fn kind(&self, sid: StreamId) -> &'static str {
        match (sid.role() == self.role, sid.dir()) {
            (true, Dir::Bi) => "own-bidi",
            (true, Dir::Uni) => "own-uni",
            (false, Dir::Bi) => "peer-bidi",
            (false, Dir::Uni) => "peer-uni",
        }
    }

    /// The limits RFC 9000 §18.2 assigns to a stream of this kind.
    fn ensure_stream(&mut self, sid: StreamId) {
        // a peer-initiated id implicitly opens all lower ones of its type
        let lower: Vec<StreamId> = if sid.role() != self.role {
            (0..=sid.id()).map(|i| StreamId::new(sid.role(), sid.dir(), i)).collect()
        } else {
            vec![sid]
        };
        for sid in lower {
            if self.streams.contains_key(&sid) {
                continue;
            }
            let mine = sid.role() == self.role;
            let side = match (mine, sid.dir()) {
                (true, Dir::Bi) => StreamSide {
                    send: Some(SendSt { limit: self.remote.bidi_remote, ..Default::default() }),
                    recv: Some(RecvSt { adv: self.local.bidi_local, ..Default::default() }),
                },
                (true, Dir::Uni) => StreamSide {
                    send: Some(SendSt { limit: self.remote.uni, ..Default::default() }),
                    recv: None,
                },
                (false, Dir::Bi) => StreamSide {
                    send: Some(SendSt { limit: self.remote.bidi_local, ..Default::default() }),
                    recv: Some(RecvSt { adv: self.local.bidi_remote, ..Default::default() }),
                },
                (false, Dir::Uni) => StreamSide {
                    send: None,
                    recv: Some(RecvSt { adv: self.local.uni, ..Default::default() }),
                },
            };
            self.streams.insert(sid, side);
            self.order.push(sid);
        }
    }

    fn send_st(&mut self, sid: StreamId) -> Option<&mut SendSt> {
        self.streams.get_mut(&sid).and_then(|s| s.send.as_mut())
    }
    fn recv_st(&mut self, sid: StreamId) -> Option<&mut RecvSt> {
        self.streams.get_mut(&sid).and_then(|s| s.recv.as_mut())
    }

    fn with_writer(&self) -> Vec<StreamId> {
        self.order.iter().copied().filter(|s| self.streams[s].send.as_ref().is_some_and(|x| x.writer)).collect()
    }
    fn with_reader(&self) -> Vec<StreamId> {
        self.order.iter().copied().filter(|s| self.streams[s].recv.as_ref().is_some_and(|x| x.reader)).collect()
    }
    fn with_send(&self) -> Vec<StreamId> {
        self.order.iter().copied().filter(|s| self.streams[s].send.is_some()).collect()
    }

    /// Sender oracle: every STREAM frame of one assembled packet.
    fn check_packet(&mut self, recs: &[Rec]) -> Outcome {
        for rec in recs {
            let sid = rec.frame.stream_id();
            let kind = self.kind(sid);
            let r = rec.frame.range();
            let (off, end) = (r.start, r.end);
            let (snd_max, snd_sent) = (self.snd_max, self.snd_sent);
            let Some(st) = self.send_st(sid) else {
                fail!("send-on-unknown-stream", "STREAM frame {:?} on a stream this endpoint cannot send on", rec.frame);
            };
            ensure!(
                rec.data == gens::content(sid_key(sid), off, (end - off) as usize),
                "send-wrong-bytes",
                "{kind} stream {sid}: bytes of [{off},{end}) differ from what was written"
            );
            ensure!(
                end <= st.limit,
                "send-beyond-stream-limit",
                "{kind} stream {sid}: STREAM [{off},{end}) fin={} but the peer's limit in force for this stream is {}",
                rec.frame.is_fin(),
                st.limit
            );
            ensure!(off <= st.highest, "send-gap", "{kind} stream {sid}: STREAM [{off},{end}) skips bytes, highest offset sent so far {}", st.highest);
            ensure!(end <= st.written, "send-unwritten", "{kind} stream {sid}: STREAM [{off},{end}) beyond the {} bytes written", st.written);
            let fresh = end.saturating_sub(st.highest);
            st.highest = st.highest.max(end);
            st.fin_sent |= rec.frame.is_fin();
            if st.highest == st.limit && st.written >= st.limit && st.written > 0 {
                st.hit = true;
            }
            let hit = st.hit;
            self.st.stream_frames += 1;
            if fresh == 0 && end > off {
                self.st.retrans += 1;
            }
            if hit {
                match kind {
                    "own-bidi" => self.st.hit_own_bidi = true,
                    "own-uni" => self.st.hit_own_uni = true,
                    _ => self.st.hit_peer_bidi = true,
                }
            }
            self.snd_sent = snd_sent + fresh;
            ensure!(
                self.snd_sent <= snd_max,
                "send-beyond-conn-limit",
                "{kind} stream {sid}: STREAM [{off},{end}) brings the sum of highest offsets sent to {} > the peer's connection limit {snd_max}",
                self.snd_sent
            );
            if self.snd_sent == snd_max && snd_max > 0 {
                self.st.conn_hit = true;
            }
        }
        Ok(())
    }

    /// `Credit` arithmetic: what the send controller still offers must be exactly the limit
    /// minus the fresh bytes sent (retransmissions free, unused credit returned). The probe is
    /// what every packet assembly does first (`credit(room)`, then drop).
    fn probe_credit(&self, ep: &Endpoint, when: &str) -> Outcome {
        let Ok(c) = ep.flow.sender.credit(usize::MAX >> 2) else {
            return Ok(());
        };
        let avail = c.available() as u64;
        drop(c);
        ensure_eq!(
            avail,
            self.snd_max - self.snd_sent - self.overcharge,
            "credit-mismatch",
            "{when}: connection credit offered vs peer's limit {} minus fresh bytes sent {}",
            self.snd_max,
            self.snd_sent
        );
        Ok(())
    }

    /// Frames this endpoint emitted: advertised limits never decrease; DATA_BLOCKED names the
    /// limit in force; RESET_STREAM's final size is the flow credit the stream consumed.
    fn on_emitted(&mut self, frames: Vec<ReliableFrame>) -> Outcome {
        for f in frames {
            match f {
                ReliableFrame::MaxData(m) => {
                    let v = m.max_data();
                    ensure!(v >= self.rcv_adv, "max-data-decreased", "MAX_DATA {v} after {} had been advertised", self.rcv_adv);
                    self.rcv_adv = v;
                    self.st.md_emitted += 1;
                }
                ReliableFrame::StreamCtl(StreamCtlFrame::MaxStreamData(m)) => {
                    let (sid, v) = (m.stream_id(), m.max_stream_data());
                    let kind = self.kind(sid);
                    let Some(st) = self.recv_st(sid) else {
                        fail!("max-stream-data-unknown-stream", "MAX_STREAM_DATA for {sid} which this endpoint does not receive on");
                    };
                    ensure!(v >= st.adv, "max-stream-data-decreased", "{kind} stream {sid}: MAX_STREAM_DATA {v} after {} had been advertised", st.adv);
                    st.adv = v;
                    self.st.msd_emitted += 1;
                }
                ReliableFrame::DataBlocked(b) => {
                    ensure_eq!(b.limit(), self.snd_max, "data-blocked-wrong-limit", "DATA_BLOCKED limit vs the peer's connection limit in force");
                    if self.snd_sent == self.snd_max {
                        self.st.blocked_at_limit += 1;
                    } else {
                        self.st.blocked_early += 1;
                    }
                }
                ReliableFrame::StreamCtl(StreamCtlFrame::ResetStream(r)) => {
                    let sid = r.stream_id();
                    let kind = self.kind(sid);
                    self.st.resets += 1;
                    if let Some(st) = self.send_st(sid) {
                        st.reset = true;
                        let (highest, written, limit, fin0) = (st.highest, st.written, st.limit, st.fin_before_reject);
                        if fin0 && r.final_size() == written && highest < written {
                            // sender-zero-rtt only: SIG_ZR_RESET_FINAL, described at the top of the file
                            self.tolerated.push(Fail::new(
                                SIG_ZR_RESET_FINAL,
                                format!(
                                    "{kind} stream {sid}: its FIN went out in a 0-RTT packet, 0-RTT was rejected, and the stream is stopped by the peer before everything was sent again: RESET_STREAM final size {written} (all bytes written) although the server has been sent only {highest} bytes of it (stream limit in force {limit})"
                                ),
                            ));
                        } else {
                            ensure_eq!(
                                r.final_size(),
                                highest,
                                "reset-final-size-mismatch",
                                "{kind} stream {sid}: RESET_STREAM final size vs highest offset sent (the flow credit consumed)"
                            );
                        }
                    }
                }
                _ => {}
            }
        }
        Ok(())
    }

    /// A frame from the peer is about to be processed: limits move.
    fn before_deliver(&mut self, frame: &Frame) {
        match frame {
            Frame::MaxData(m) => {
                if m.max_data() > self.snd_max {
                    self.snd_max = m.max_data();
                    self.st.limit_raised += 1;
                } else {
                    self.st.stale_limit += 1;
                }
            }
            Frame::StreamCtl(StreamCtlFrame::MaxStreamData(m)) => {
                self.ensure_stream(m.stream_id());
                let v = m.max_stream_data();
                let mut raised = false;
                if let Some(st) = self.send_st(m.stream_id()) {
                    if v > st.limit {
                        st.limit = v;
                        raised = true;
                    }
                }
                if raised {
                    self.st.limit_raised += 1;
                } else {
                    self.st.stale_limit += 1;
                }
            }
            Frame::StreamCtl(StreamCtlFrame::StopSending(s)) => {
                self.ensure_stream(s.stream_id());
            }
            Frame::StreamCtl(StreamCtlFrame::ResetStream(r)) => {
                self.ensure_stream(r.stream_id());
            }
            Frame::Stream(f, _) => self.ensure_stream(f.stream_id()),
            _ => {}
        }
    }

    fn classify(&self, ctx: &mut CaseCtx, tag: &str) {
        let s = &self.st;
        if s.hit_own_bidi {
            ctx.class(format!("{tag}:limit-reached:own-bidi"));
        }
        if s.hit_own_uni {
            ctx.class(format!("{tag}:limit-reached:own-uni"));
        }
        if s.hit_peer_bidi {
            ctx.class(format!("{tag}:limit-reached:peer-bidi"));
        }
        if s.conn_hit {
            ctx.class(format!("{tag}:conn-limit-reached"));
        }
        if s.retrans > 0 {
            ctx.class(format!("{tag}:retransmission"));
        }
        if s.msd_emitted > 0 {
            ctx.class(format!("{tag}:max-stream-data-emitted"));
        }
        if s.md_emitted > 0 {
            ctx.class(format!("{tag}:max-data-emitted"));
        }
        if s.blocked_at_limit > 0 {
            ctx.class(format!("{tag}:data-blocked-at-limit"));
        }
        if s.blocked_early > 0 {
            ctx.class(format!("{tag}:data-blocked-below-limit"));
        }
        if s.limit_raised > 0 {
            ctx.class(format!("{tag}:limit-raised"));
        }
        if s.stale_limit > 0 {
            ctx.class(format!("{tag}:stale-limit-frame"));
        }
        if s.resets > 0 {
            ctx.class(format!("{tag}:reset-sent"));
        }
        if s.stream_frames == 0 {
            ctx.class(format!("{tag}:no-stream-frame"));
        }
    }

    fn any_hit(&self) -> bool {
        self.st.hit_own_bidi || self.st.hit_own_uni || self.st.hit_peer_bidi
    }
}

// ---- application-side operations shared by the stages ------------------------------------

fn app_write(ep: &mut Endpoint, m: &mut SideModel, sid: StreamId, len: u32, polite: bool) {
    let Some(w) = ep.writers.get_mut(&sid) else { return };
    let Some(st) = m.send_st(sid) else { return };
    let data = Bytes::from(gens::content(sid_key(sid), st.written, len as usize));
    let ok = if polite {
        matches!(noop_cx(|cx| w.poll_write(cx, data)), Poll::Ready(Ok(())))
    } else {
        w.write(data).is_ok()
    };
    if ok {
        st.written += len as u64;
    }
}

fn app_shutdown(ep: &mut Endpoint, m: &mut SideModel, sid: StreamId) {
    if let Some(w) = ep.writers.get_mut(&sid) {
        let _ = noop_cx(|cx| w.poll_shutdown(cx));
        if let Some(st) = m.send_st(sid) {
            st.shutdown = true;
        }
    }
}

/// Reads up to `n` bytes; the bytes must be the peer's content at the read cursor.
fn app_read(ep: &mut Endpoint, m: &mut SideModel, sid: StreamId, n: u32) -> Outcome {
    let Some(r) = ep.readers.get_mut(&sid) else { return Ok(()) };
    let mut dst = vec![0u8; n.max(1) as usize];
    let got = {
        let mut slice: &mut [u8] = &mut dst[..];
        let before = slice.len();
        match noop_cx(|cx| r.poll_read(cx, &mut slice)) {
            Poll::Ready(Ok(())) => before - slice.len(),
            _ => 0,
        }
    };
    if let Some(st) = m.recv_st(sid) {
        let want = gens::content(sid_key(sid), st.nread, got);
        ensure!(dst[..got] == want[..], "read-wrong-bytes", "stream {sid}: {got} bytes read at offset {} differ from what the peer sent", st.nread);
        st.nread += got as u64;
    }
    Ok(())
}

// ---------------------------------------------------------------------------
// stage `pair`: two real endpoints, asymmetric parameters, lossy reordering packet network
// ---------------------------------------------------------------------------

#[derive(Debug, Clone, Serialize, Deserialize, PartialEq)]
enum POp {
    Open { side: u8, uni: bool },
    Accept { side: u8 },
    Write { side: u8, s: u16, len: u32, polite: bool },
    Shutdown { side: u8, s: u16 },
    Cancel { side: u8, s: u16 },
    Stop { side: u8, s: u16 },
    Read { side: u8, s: u16, n: u32 },
    /// assemble one packet of `cap` payload bytes and put it in flight
    Packet { side: u8, cap: u16 },
    /// deliver the i-th packet in flight from `side` (any order = reordering); `ack` = acknowledged at once
    Deliver { side: u8, i: u16, ack: bool },
    /// a late acknowledgement of a delivered packet (also after a spurious loss report)
    Ack { side: u8, i: u16 },
    /// loss report for an unacknowledged packet; `drop` = the network really lost it
    Lose { side: u8, i: u16, drop: bool },
}

#[derive(Debug, Clone, Serialize, Deserialize)]
struct PairCase {
    client: Fc,
    server: Fc,
    ops: Vec<POp>,
}

struct PairWorld {
    eps: [Endpoint; 2],
    models: [SideModel; 2],
    flights: [Vec<Flight>; 2],
    opened: [[u64; 2]; 2],
}

impl PairWorld {
    fn emitted(&mut self, x: usize) -> Outcome {
        let fresh = self.eps[x].sink.take_fresh();
        self.models[x].on_emitted(fresh)
    }

    fn packet(&mut self, x: usize, cap: usize) -> Result<bool, Fail> {
        let built = self.eps[x].assemble(cap)?;
        self.models[x].check_packet(&built.recs)?;
        self.emitted(x)?;
        self.models[x].probe_credit(&self.eps[x], "after packet assembly")?;
        self.emitted(x)?;
        let any = !built.flight.ctl.is_empty() || !built.flight.stream.is_empty();
        if any {
            self.flights[x].push(built.flight);
        }
        Ok(any)
    }

    fn deliver(&mut self, x: usize, idx: usize, ack: bool) -> Outcome {
        let y = 1 - x;
        let wire = self.flights[x][idx].wire.clone();
        self.flights[x][idx].delivered = true;
        for fr in parse_wire(&wire)? {
            self.models[y].before_deliver(&fr);
            let desc = format!("{fr:?}");
            if let Err(e) = self.eps[y].deliver(fr) {
                self.eps[y].kill(&e);
                let sig = if e.kind() == ErrorKind::FlowControl { "pair-spurious-flow-control".to_string() } else { format!("pair-recv-error:{:?}", e.kind()) };
                return Err(Fail::new(
                    sig,
                    format!("{} rejected a frame of a peer that stayed within every advertised limit: {} -> {e:?}", self.eps[y].role, vcore::truncate(&desc, 200)),
                ));
            }
        }
        self.emitted(y)?;
        if ack && !self.flights[x][idx].acked {
            self.ack(x, idx)?;
        }
        Ok(())
    }

    fn ack(&mut self, x: usize, idx: usize) -> Outcome {
        self.flights[x][idx].acked = true;
        let fl = self.flights[x][idx].clone();
        self.eps[x].on_acked(&fl);
        self.emitted(x)
    }

    fn lose(&mut self, x: usize, idx: usize, drop: bool) -> Outcome {
        self.flights[x][idx].lost = true;
        if drop && !self.flights[x][idx].delivered {
            self.flights[x][idx].dropped = true;
        }
        let fl = self.flights[x][idx].clone();
        self.eps[x].on_lost(&fl);
        self.emitted(x)
    }

    fn accept(&mut self, x: usize) -> Outcome {
        for sid in self.eps[x].accept_all()? {
            let m = &mut self.models[x];
            m.ensure_stream(sid);
            if let Some(st) = m.send_st(sid) {
                st.writer = true;
            }
            if let Some(st) = m.recv_st(sid) {
                st.reader = true;
            }
        }
        self.emitted(x)
    }
}

fn choose(cands: &[usize], i: u16) -> Option<usize> {
    if cands.is_empty() { None } else { Some(cands[gens::idx(i, cands.len())]) }
}

fn run_pair(case: &PairCase, ctx: &mut CaseCtx) -> Outcome {
    let world = PairWorld {
        eps: [Endpoint::build(Role::Client, &case.client, &case.server)?, Endpoint::build(Role::Server, &case.server, &case.client)?],
        models: [SideModel::new(Role::Client, case.client, case.server), SideModel::new(Role::Server, case.server, case.client)],
        flights: [vec![], vec![]],
        opened: [[0; 2]; 2],
    };
    with_world(world, |w| pair_history(case, ctx, w))
}

fn pair_history(case: &PairCase, ctx: &mut CaseCtx, w: &mut PairWorld) -> Outcome {
    let mut losses = 0u32;
    let mut reorders = 0u32;
    let mut late_acks = 0u32;
    for op in &case.ops {
        match op {
            POp::Open { side, uni } => {
                let x = (*side & 1) as usize;
                if w.opened[x][*uni as usize] >= OPEN_CAP {
                    continue;
                }
                if let Some(sid) = w.eps[x].open(*uni)? {
                    w.opened[x][*uni as usize] += 1;
                    let m = &mut w.models[x];
                    m.ensure_stream(sid);
                    m.send_st(sid).unwrap().writer = true;
                    if let Some(r) = m.recv_st(sid) {
                        r.reader = true;
                    }
                }
                w.emitted(x)?;
            }
            POp::Accept { side } => w.accept((*side & 1) as usize)?,
            POp::Write { side, s, len, polite } => {
                let x = (*side & 1) as usize;
                let c = w.models[x].with_writer();
                if !c.is_empty() {
                    let sid = c[gens::idx(*s, c.len())];
                    app_write(&mut w.eps[x], &mut w.models[x], sid, *len, *polite);
                }
            }
            POp::Shutdown { side, s } => {
                let x = (*side & 1) as usize;
                let c = w.models[x].with_writer();
                if !c.is_empty() {
                    let sid = c[gens::idx(*s, c.len())];
                    app_shutdown(&mut w.eps[x], &mut w.models[x], sid);
                }
            }
            POp::Cancel { side, s } => {
                let x = (*side & 1) as usize;
                let c = w.models[x].with_writer();
                if !c.is_empty() {
                    let sid = c[gens::idx(*s, c.len())];
                    if let Some(wr) = w.eps[x].writers.get_mut(&sid) {
                        wr.cancel(7);
                    }
                    w.emitted(x)?;
                }
            }
            POp::Stop { side, s } => {
                let x = (*side & 1) as usize;
                let c = w.models[x].with_reader();
                if !c.is_empty() {
                    let sid = c[gens::idx(*s, c.len())];
                    if let Some(rd) = w.eps[x].readers.get_mut(&sid) {
                        rd.stop(9);
                    }
                    w.emitted(x)?;
                }
            }
            POp::Read { side, s, n } => {
                let x = (*side & 1) as usize;
                let c = w.models[x].with_reader();
                if !c.is_empty() {
                    let sid = c[gens::idx(*s, c.len())];
                    app_read(&mut w.eps[x], &mut w.models[x], sid, *n)?;
                    w.emitted(x)?;
                }
            }
            POp::Packet { side, cap } => {
                let x = (*side & 1) as usize;
                w.packet(x, *cap as usize)?;
            }
            POp::Deliver { side, i, ack } => {
                let x = (*side & 1) as usize;
                let c: Vec<usize> = (0..w.flights[x].len()).filter(|k| !w.flights[x][*k].delivered && !w.flights[x][*k].dropped).collect();
                if let Some(idx) = choose(&c, *i) {
                    if idx != c[0] {
                        reorders += 1;
                    }
                    w.deliver(x, idx, *ack)?;
                }
            }
            POp::Ack { side, i } => {
                let x = (*side & 1) as usize;
                let c: Vec<usize> = (0..w.flights[x].len()).filter(|k| w.flights[x][*k].delivered && !w.flights[x][*k].acked).collect();
                if let Some(idx) = choose(&c, *i) {
                    late_acks += 1;
                    w.ack(x, idx)?;
                }
            }
            POp::Lose { side, i, drop } => {
                let x = (*side & 1) as usize;
                let c: Vec<usize> = (0..w.flights[x].len()).filter(|k| !w.flights[x][*k].acked && !w.flights[x][*k].lost).collect();
                if let Some(idx) = choose(&c, *i) {
                    losses += 1;
                    w.lose(x, idx, *drop)?;
                }
            }
        }
    }
    // fair epilogue: everything outstanding is delivered / retransmitted, later rounds also read
    let mut quiescent = false;
    for round in 0..60 {
        let mut busy = false;
        for x in 0..2 {
            w.accept(x)?;
            if round >= 12 {
                for sid in w.models[x].with_reader() {
                    app_read(&mut w.eps[x], &mut w.models[x], sid, 3000)?;
                }
                w.emitted(x)?;
            }
            for _ in 0..8 {
                if !w.packet(x, 1200)? {
                    break;
                }
                busy = true;
            }
            for idx in 0..w.flights[x].len() {
                let f = &w.flights[x][idx];
                if f.dropped && !f.lost {
                    w.lose(x, idx, true)?;
                    busy = true;
                } else if !f.delivered && !f.dropped {
                    w.deliver(x, idx, true)?;
                    busy = true;
                } else if f.delivered && !f.acked {
                    w.ack(x, idx)?;
                    busy = true;
                }
            }
            w.flights[x].retain(|f| !(f.acked || (f.dropped && f.lost)));
        }
        if !busy && round >= 14 {
            quiescent = true;
            break;
        }
    }
    // At quiescence, once the applications have consumed everything that arrived, a receiver
    // that got any data at all must be advertising room for more: a connection window that never
    // slides again would block the peer forever (RFC 9000 §4.2; credit has to come back).
    if quiescent {
        for x in 0..2 {
            for sid in w.models[x].with_reader() {
                loop {
                    let before = w.models[x].recv_st(sid).map(|r| r.nread).unwrap_or(0);
                    app_read(&mut w.eps[x], &mut w.models[x], sid, 60_000)?;
                    if w.models[x].recv_st(sid).map(|r| r.nread).unwrap_or(0) == before {
                        break;
                    }
                }
            }
            w.emitted(x)?;
            let received = w.models[1 - x].snd_sent;
            if received > 0 && w.models[x].rcv_adv <= received && w.models[1 - x].st.resets > 0 {
                // The peer reset a stream: bytes it had charged to the connection limit may never
                // arrive. RFC 9000 §4.5 has the receiver charge the final size of RESET_STREAM (and
                // slide its window); this stack does not (listed finding), so the window stays put.
                ctx.known.push(Fail::new(
                    SIG_FINAL_UNCHARGED,
                    format!(
                        "{}: the peer has charged {received} bytes (some on a stream it reset), the advertised MAX_DATA is still {}: the final size of a reset stream never slides the connection window",
                        w.eps[x].role,
                        w.models[x].rcv_adv
                    ),
                ));
            } else if received > 0 {
                ensure!(
                    w.models[x].rcv_adv > received,
                    "conn-window-stuck",
                    "{}: everything delivered and read, {received} bytes received in total but the advertised MAX_DATA is still {}",
                    w.eps[x].role,
                    w.models[x].rcv_adv
                );
            }
        }
        ctx.class("pair:quiescent");
    } else {
        ctx.class("pair:not-quiescent");
    }
    // classification
    for x in 0..2 {
        let tag = if x == 0 { "client" } else { "server" };
        w.models[x].classify(ctx, tag);
    }
    if losses > 0 {
        ctx.class("net:loss");
    }
    if reorders > 0 {
        ctx.class("net:reorder");
    }
    if late_acks > 0 {
        ctx.class("net:late-ack");
    }
    let distinct = [case.client.stream_limits_distinct(), case.server.stream_limits_distinct()];
    if distinct[0] && distinct[1] {
        ctx.class("cfg:both-sides-pairwise-different");
    }
    if case.client == case.server {
        ctx.class("cfg:symmetric");
    }
    // a stream reached its limit, and the limits that apply to that sender (the peer's) differ pairwise
    let nt = (w.models[0].any_hit() && distinct[1]) || (w.models[1].any_hit() && distinct[0]);
    if nt {
        ctx.nontrivial();
        ctx.note(json!({
            "client": {"stream_frames": w.models[0].st.stream_frames, "retrans": w.models[0].st.retrans, "conn_sent": w.models[0].snd_sent, "conn_max": w.models[0].snd_max},
            "server": {"stream_frames": w.models[1].st.stream_frames, "retrans": w.models[1].st.retrans, "conn_sent": w.models[1].snd_sent, "conn_max": w.models[1].snd_max},
        }));
    }
    Ok(())
}

// ---- generators ----------------------------------------------------------------------------

fn fc_value() -> BoxedStrategy<u64> {
    prop_oneof![
        1 => Just(0u64),
        1 => Just(1u64),
        3 => Just(100u64),
        3 => Just(1_000u64),
        2 => Just(70_000u64),
        2 => Just(1u64 << 20),
        2 => 0u64..300,
        1 => 300u64..6_000,
    ]
    .boxed()
}

fn fc_strategy() -> BoxedStrategy<Fc> {
    (fc_value(), fc_value(), fc_value(), fc_value())
        .prop_map(|(max_data, bidi_local, bidi_remote, uni)| Fc { max_data, bidi_local, bidi_remote, uni })
        .boxed()
}

fn write_len() -> BoxedStrategy<u32> {
    prop_oneof![
        2 => 0u32..8,
        4 => 1u32..300,
        3 => 100u32..3_000,
        1 => 3_000u32..80_000,
    ]
    .boxed()
}

fn cap_strategy() -> BoxedStrategy<u16> {
    prop_oneof![2 => 30u16..80, 3 => 80u16..400, 4 => 400u16..=1500].boxed()
}

fn pop_strategy() -> BoxedStrategy<POp> {
    let side = 0u8..2;
    prop_oneof![
        3 => (side.clone(), any::<bool>()).prop_map(|(side, uni)| POp::Open { side, uni }),
        6 => side.clone().prop_map(|side| POp::Accept { side }),
        8 => (side.clone(), any::<u16>(), write_len(), prop::bool::weighted(0.25)).prop_map(|(side, s, len, polite)| POp::Write { side, s, len, polite }),
        1 => (side.clone(), any::<u16>()).prop_map(|(side, s)| POp::Shutdown { side, s }),
        1 => (side.clone(), any::<u16>()).prop_map(|(side, s)| POp::Cancel { side, s }),
        1 => (side.clone(), any::<u16>()).prop_map(|(side, s)| POp::Stop { side, s }),
        2 => (side.clone(), any::<u16>(), 1u32..4000).prop_map(|(side, s, n)| POp::Read { side, s, n }),
        10 => (side.clone(), cap_strategy()).prop_map(|(side, cap)| POp::Packet { side, cap }),
        8 => (side.clone(), prop_oneof![3 => Just(0u16), 1 => any::<u16>()], prop::bool::weighted(0.7)).prop_map(|(side, i, ack)| POp::Deliver { side, i, ack }),
        2 => (side.clone(), any::<u16>()).prop_map(|(side, i)| POp::Ack { side, i }),
        3 => (side, any::<u16>(), any::<bool>()).prop_map(|(side, i, drop)| POp::Lose { side, i, drop }),
    ]
    .boxed()
}

fn pair_strategy(max_ops: usize) -> BoxedStrategy<PairCase> {
    (fc_strategy(), fc_strategy(), proptest::collection::vec(pop_strategy(), 0..=max_ops))
        .prop_map(|(client, server, mut ops)| {
            // make sure something can happen: each side opens one stream of each direction first
            let mut pre = vec![
                POp::Open { side: 0, uni: false },
                POp::Open { side: 1, uni: true },
                POp::Open { side: 0, uni: true },
                POp::Open { side: 1, uni: false },
            ];
            pre.append(&mut ops);
            PairCase { client, server, ops: pre }
        })
        .boxed()
}

// ---------------------------------------------------------------------------
// stage `sender`: one real endpoint, the peer is a script that moves the limits freely
// ---------------------------------------------------------------------------

#[derive(Debug, Clone, Serialize, Deserialize, PartialEq)]
enum Lim {
    /// current limit + d
    Up(u32),
    /// a stale value: a fraction of the current limit
    Stale(u16),
    /// one of the DESIGN values, whatever the current limit is
    Abs(u8),
}

impl Lim {
    fn apply(&self, cur: u64) -> u64 {
        match self {
            Lim::Up(d) => cur + *d as u64,
            Lim::Stale(f) => gens::upto(*f, cur),
            Lim::Abs(k) => FC_SET[(*k as usize).min(FC_SET.len() - 1)],
        }
    }
}

#[derive(Debug, Clone, Serialize, Deserialize, PartialEq)]
enum SOp {
    Open { uni: bool },
    /// the peer opens its next bidirectional stream (an empty STREAM frame at offset 0)
    PeerOpen,
    Accept,
    Write { s: u16, len: u32, polite: bool },
    Shutdown { s: u16 },
    Cancel { s: u16 },
    MaxData { lim: Lim },
    MaxStreamData { s: u16, lim: Lim },
    StopSending { s: u16 },
    Packet { cap: u16 },
    Ack { i: u16 },
    Lose { i: u16 },
}

#[derive(Debug, Clone, Serialize, Deserialize)]
struct SendCase {
    server: bool,
    local: Fc,
    remote: Fc,
    ops: Vec<SOp>,
}

struct SoloWorld {
    ep: Endpoint,
    m: SideModel,
    flights: Vec<Flight>,
    opened: [u64; 2],
    peer_opened: [u64; 2],
}

impl SoloWorld {
    fn build(server: bool, local: &Fc, remote: &Fc) -> Result<Self, Fail> {
        let role = if server { Role::Server } else { Role::Client };
        Ok(Self {
            ep: Endpoint::build(role, local, remote)?,
            m: SideModel::new(role, *local, *remote),
            flights: vec![],
            opened: [0; 2],
            peer_opened: [0; 2],
        })
    }

    fn emitted(&mut self) -> Outcome {
        let fresh = self.ep.sink.take_fresh();
        self.m.on_emitted(fresh)
    }

    fn open(&mut self, uni: bool) -> Outcome {
        if self.opened[uni as usize] >= OPEN_CAP {
            return Ok(());
        }
        if let Some(sid) = self.ep.open(uni)? {
            self.opened[uni as usize] += 1;
            self.m.ensure_stream(sid);
            self.m.send_st(sid).unwrap().writer = true;
            if let Some(r) = self.m.recv_st(sid) {
                r.reader = true;
            }
        }
        self.emitted()
    }

    fn accept(&mut self) -> Outcome {
        for sid in self.ep.accept_all()? {
            self.m.ensure_stream(sid);
            if let Some(st) = self.m.send_st(sid) {
                st.writer = true;
            }
            if let Some(st) = self.m.recv_st(sid) {
                st.reader = true;
            }
        }
        self.emitted()
    }

    /// a frame from the scripted peer that a conforming endpoint must accept
    fn inject_ok(&mut self, fr: Frame) -> Outcome {
        self.m.before_deliver(&fr);
        let desc = format!("{fr:?}");
        if let Err(e) = self.ep.deliver(fr) {
            self.ep.kill(&e);
            return Err(Fail::new(format!("recv-spurious-error:{:?}", e.kind()), format!("legal frame {} rejected: {e:?}", vcore::truncate(&desc, 200))));
        }
        self.emitted()
    }

    fn packet(&mut self, cap: usize) -> Result<bool, Fail> {
        let built = self.ep.assemble(cap)?;
        self.m.check_packet(&built.recs)?;
        self.emitted()?;
        self.m.probe_credit(&self.ep, "after packet assembly")?;
        self.emitted()?;
        let any = !built.flight.ctl.is_empty() || !built.flight.stream.is_empty();
        if any {
            self.flights.push(built.flight);
        }
        Ok(any)
    }
}

fn run_sender(case: &SendCase, ctx: &mut CaseCtx) -> Outcome {
    let world = SoloWorld::build(case.server, &case.local, &case.remote)?;
    with_world(world, |w| sender_history(case, ctx, w))
}

fn sender_history(case: &SendCase, ctx: &mut CaseCtx, w: &mut SoloWorld) -> Outcome {
    let peer = peer_of(w.ep.role);
    let mut losses = 0u32;
    let mut acks_after_loss = 0u32;
    for op in &case.ops {
        match op {
            SOp::Open { uni } => w.open(*uni)?,
            SOp::PeerOpen => {
                if w.peer_opened[0] < OPEN_CAP {
                    let sid = StreamId::new(peer, Dir::Bi, w.peer_opened[0]);
                    w.peer_opened[0] += 1;
                    w.inject_ok(Frame::Stream(StreamFrame::new(sid, 0, 0), Bytes::new()))?;
                }
            }
            SOp::Accept => w.accept()?,
            SOp::Write { s, len, polite } => {
                let c = w.m.with_writer();
                if !c.is_empty() {
                    let sid = c[gens::idx(*s, c.len())];
                    app_write(&mut w.ep, &mut w.m, sid, *len, *polite);
                }
            }
            SOp::Shutdown { s } => {
                let c = w.m.with_writer();
                if !c.is_empty() {
                    let sid = c[gens::idx(*s, c.len())];
                    app_shutdown(&mut w.ep, &mut w.m, sid);
                }
            }
            SOp::Cancel { s } => {
                let c = w.m.with_writer();
                if !c.is_empty() {
                    let sid = c[gens::idx(*s, c.len())];
                    if let Some(wr) = w.ep.writers.get_mut(&sid) {
                        wr.cancel(7);
                    }
                    w.emitted()?;
                }
            }
            SOp::MaxData { lim } => {
                let v = lim.apply(w.m.snd_max);
                w.inject_ok(Frame::MaxData(MaxDataFrame::new(vi(v))))?;
                w.m.probe_credit(&w.ep, "after MAX_DATA")?;
                w.emitted()?;
            }
            SOp::MaxStreamData { s, lim } => {
                let c = w.m.with_send();
                if !c.is_empty() {
                    let sid = c[gens::idx(*s, c.len())];
                    let cur = w.m.send_st(sid).map(|st| st.limit).unwrap_or(0);
                    let v = lim.apply(cur);
                    w.inject_ok(Frame::StreamCtl(StreamCtlFrame::MaxStreamData(MaxStreamDataFrame::new(sid, vi(v)))))?;
                }
            }
            SOp::StopSending { s } => {
                let c = w.m.with_send();
                if !c.is_empty() {
                    let sid = c[gens::idx(*s, c.len())];
                    w.inject_ok(Frame::StreamCtl(StreamCtlFrame::StopSending(StopSendingFrame::new(sid, vi(3)))))?;
                }
            }
            SOp::Packet { cap } => {
                w.packet(*cap as usize)?;
            }
            SOp::Ack { i } => {
                let c: Vec<usize> = (0..w.flights.len()).filter(|k| !w.flights[*k].acked).collect();
                if let Some(idx) = choose(&c, *i) {
                    if w.flights[idx].lost {
                        acks_after_loss += 1;
                    }
                    w.flights[idx].acked = true;
                    let fl = w.flights[idx].clone();
                    w.ep.on_acked(&fl);
                    w.emitted()?;
                }
            }
            SOp::Lose { i } => {
                let c: Vec<usize> = (0..w.flights.len()).filter(|k| !w.flights[*k].acked && !w.flights[*k].lost).collect();
                if let Some(idx) = choose(&c, *i) {
                    losses += 1;
                    w.flights[idx].lost = true;
                    let fl = w.flights[idx].clone();
                    w.ep.on_lost(&fl);
                    w.emitted()?;
                }
            }
        }
    }
    // ---- epilogue: a fair peer. Everything outstanding is acknowledged, then packets are
    // assembled until nothing more comes out. The windows must then have been used exactly:
    // nothing beyond them (checked all along) and nothing left unused (unused credit returned,
    // the right parameter chosen for the stream kind).
    for idx in 0..w.flights.len() {
        if !w.flights[idx].acked {
            w.flights[idx].acked = true;
            let fl = w.flights[idx].clone();
            w.ep.on_acked(&fl);
        }
    }
    w.flights.clear();
    w.emitted()?;
    let mut rounds = 0;
    loop {
        rounds += 1;
        ensure!(rounds < 3000, "sender-runaway", "packet assembly never runs dry");
        let any = w.packet(1200)?;
        for fl in std::mem::take(&mut w.flights) {
            w.ep.on_acked(&fl);
        }
        w.emitted()?;
        if !any {
            break;
        }
    }
    if w.m.snd_sent < w.m.snd_max {
        for sid in w.m.with_writer() {
            let kind = w.m.kind(sid);
            let (sent_now, max_now) = (w.m.snd_sent, w.m.snd_max);
            let st = w.m.send_st(sid).unwrap().clone();
            if st.reset {
                continue;
            }
            let want = st.written.min(st.limit);
            ensure_eq!(
                st.highest,
                want,
                "send-window-underused",
                "{kind} stream {sid}: at quiescence with connection credit left ({} of {}), highest offset sent vs min(written {}, stream limit {})",
                sent_now,
                max_now,
                st.written,
                st.limit
            );
        }
    } else {
        ctx.class("sender:quiescent-at-conn-limit");
    }
    w.m.probe_credit(&w.ep, "at quiescence")?;

    w.m.classify(ctx, "sender");
    if losses > 0 {
        ctx.class("sender:loss");
    }
    if acks_after_loss > 0 {
        ctx.class("sender:ack-after-loss");
    }
    if case.remote.stream_limits_distinct() {
        ctx.class("cfg:peer-limits-pairwise-different");
    }
    if w.m.any_hit() && case.remote.stream_limits_distinct() {
        ctx.nontrivial();
        ctx.note(json!({"stream_frames": w.m.st.stream_frames, "retrans": w.m.st.retrans, "conn_sent": w.m.snd_sent, "conn_max": w.m.snd_max}));
    }
    Ok(())
}

fn lim_strategy() -> BoxedStrategy<Lim> {
    prop_oneof![
        3 => (0u32..50).prop_map(Lim::Up),
        3 => (0u32..3000).prop_map(Lim::Up),
        1 => (0u32..100_000).prop_map(Lim::Up),
        2 => any::<u16>().prop_map(Lim::Stale),
        1 => (0u8..6).prop_map(Lim::Abs),
    ]
    .boxed()
}

fn sop_strategy() -> BoxedStrategy<SOp> {
    prop_oneof![
        2 => any::<bool>().prop_map(|uni| SOp::Open { uni }),
        2 => Just(SOp::PeerOpen),
        2 => Just(SOp::Accept),
        8 => (any::<u16>(), write_len(), prop::bool::weighted(0.25)).prop_map(|(s, len, polite)| SOp::Write { s, len, polite }),
        1 => any::<u16>().prop_map(|s| SOp::Shutdown { s }),
        1 => any::<u16>().prop_map(|s| SOp::Cancel { s }),
        3 => lim_strategy().prop_map(|lim| SOp::MaxData { lim }),
        4 => (any::<u16>(), lim_strategy()).prop_map(|(s, lim)| SOp::MaxStreamData { s, lim }),
        1 => any::<u16>().prop_map(|s| SOp::StopSending { s }),
        10 => cap_strategy().prop_map(|cap| SOp::Packet { cap }),
        3 => any::<u16>().prop_map(|i| SOp::Ack { i }),
        3 => any::<u16>().prop_map(|i| SOp::Lose { i }),
    ]
    .boxed()
}

fn sender_strategy(max_ops: usize) -> BoxedStrategy<SendCase> {
    (any::<bool>(), fc_strategy(), fc_strategy(), proptest::collection::vec(sop_strategy(), 0..=max_ops))
        .prop_map(|(server, local, remote, mut ops)| {
            let mut pre = vec![SOp::Open { uni: false }, SOp::Open { uni: true }, SOp::PeerOpen];
            pre.append(&mut ops);
            SendCase { server, local, remote, ops: pre }
        })
        .boxed()
}

// ---------------------------------------------------------------------------
// stage `sender-zero-rtt`: a resuming client. Streams are opened and written under the
// *remembered* server parameters (0-RTT phase), then the handshake delivers the real ones and
// `apply_parameters` (qconnection/src/builder.rs) revises the windows of the streams that
// already exist: `DataStreams::revise_params(rejected, new)` first, then
// `flow_ctrl.sender.revise_max_data(rejected, new.initial_max_data)`.
//
// Time line mirrored from qconnection:
//   1. builder.rs `init_stream_and_datagram(local, remembered, ..)`, `Parameters::new_client(.., Some(remembered), ..)`
//   2. 0-RTT phase: burst.rs loads `zero_rtt` packages (`data_streams.package(flow, true)`) while !tls_fin
//   3. tls.rs `try_process_ee`: zero_rtt_accepted = remembered.is_0rtt_accepted(new) && resumed;
//      `parameters.recv_remote_params(new)` (drops the remembered parameters) — the handshake is not
//      finished yet, streams opened from here on are sized from the new parameters
//   4. handshake done: `apply_parameters` as above; from now on 1-RTT packages only
// Nothing from the server can be processed before 4 (no MAX_DATA / MAX_STREAM_DATA / ACK / loss
// verdict for 0-RTT packets earlier: they all need 1-RTT keys). After a rejection the server has
// discarded every 0-RTT packet: they are never acknowledged, only declared lost.
// ---------------------------------------------------------------------------

#[derive(Debug, Clone, Serialize, Deserialize)]
struct ZrCase {
    local: Fc,
    /// the server's parameters remembered from the previous connection
    remembered: Fc,
    /// the server's parameters of this connection
    granted: Fc,
    /// the server refused early data / did not resume (any limit below the remembered one rejects anyway)
    rejected: bool,
    /// 0-RTT phase (Open / Write / Shutdown / Packet only)
    early: Vec<SOp>,
    /// between the arrival of the server's parameters and the end of the handshake (same alphabet)
    gap: Vec<SOp>,
    /// after the handshake: everything the `sender` stage does
    late: Vec<SOp>,
    /// the fair peer of the epilogue also raises MAX_DATA far enough for everything written
    generous: bool,
}

/// at most this many streams are opened before the handshake completes
const ZR_EARLY_STREAMS: u32 = 4;

#[derive(Default)]
struct ZrStats {
    early_opened: u32,
    gap_opened: u32,
    frames_0rtt: u32,
    bytes_0rtt: u64,
    stale_losses: u32,
    losses: u32,
    acks_after_loss: u32,
}

/// the limit the server applies to a client-opened stream (RFC 9000 §18.2)
fn zr_limit(fc: &Fc, sid: StreamId) -> u64 {
    match sid.dir() {
        Dir::Bi => fc.bidi_remote,
        Dir::Uni => fc.uni,
    }
}

fn run_zero_rtt_sender(case: &ZrCase, ctx: &mut CaseCtx) -> Outcome {
    let world = SoloWorld {
        ep: Endpoint::build_resuming(&case.local, &case.remembered)?,
        m: SideModel::new(Role::Client, case.local, case.remembered),
        flights: vec![],
        opened: [0; 2],
        peer_opened: [0; 2],
    };
    with_world(world, |w| {
        let r = zr_history(case, ctx, w);
        ctx.known.append(&mut w.m.tolerated);
        r
    })
}

/// an application / packet-assembly step before the handshake has completed
fn zr_early_step(w: &mut SoloWorld, op: &SOp, opened: &mut u32) -> Outcome {
    match op {
        SOp::Open { uni } => {
            if *opened < ZR_EARLY_STREAMS {
                let before = w.opened[0] + w.opened[1];
                w.open(*uni)?;
                *opened += (w.opened[0] + w.opened[1] - before) as u32;
            }
        }
        SOp::Write { s, len, polite } => {
            let c = w.m.with_writer();
            if !c.is_empty() {
                let sid = c[gens::idx(*s, c.len())];
                app_write(&mut w.ep, &mut w.m, sid, *len, *polite);
            }
        }
        SOp::Shutdown { s } => {
            let c = w.m.with_writer();
            if !c.is_empty() {
                let sid = c[gens::idx(*s, c.len())];
                app_shutdown(&mut w.ep, &mut w.m, sid);
            }
        }
        SOp::Packet { cap } => {
            w.packet(*cap as usize)?;
        }
        // nothing else can happen before the handshake completes
        _ => {}
    }
    Ok(())
}

fn zr_history(case: &ZrCase, ctx: &mut CaseCtx, w: &mut SoloWorld) -> Outcome {
    let mut zs = ZrStats::default();
    let qe = |e| harness(format!("parameter exchange: {e:?}"));

    // ---- 1/2: 0-RTT phase under the remembered limits
    for op in &case.early {
        zr_early_step(w, op, &mut zs.early_opened)?;
    }

    // ---- 3: the server's transport parameters arrive (EncryptedExtensions)
    let rem = server_params(&case.remembered)?;
    let rp = server_params(&case.granted)?;
    let rejected = case.rejected || !rem.is_0rtt_accepted(&rp);
    {
        let mut p = w.ep.params.lock_guard().map_err(|e| harness(format!("parameters: {e:?}")))?;
        p.initial_scid_from_peer_need_equal(server_scid()).map_err(qe)?;
        p.recv_remote_params(rp.clone()).map_err(qe)?;
    }
    // streams opened from here on are sized from the new parameters; the connection limit and
    // the streams that exist keep the remembered values until the handshake is done
    w.m.remote = case.granted;
    zs.gap_opened = zs.early_opened;
    for op in &case.gap {
        zr_early_step(w, op, &mut zs.gap_opened)?;
    }
    zs.gap_opened -= zs.early_opened;
    zs.frames_0rtt = w.m.st.stream_frames;
    zs.bytes_0rtt = w.m.snd_sent;
    // what the 0-RTT phase reached is classified on its own; "limit reached" starts afresh below
    if w.m.any_hit() {
        ctx.class("zr:0rtt:stream-limit-reached");
    }
    if w.m.st.conn_hit {
        ctx.class("zr:0rtt:conn-limit-reached");
    }
    if zs.frames_0rtt > 0 {
        ctx.class("zr:0rtt:stream-frames-sent");
    }

    // ---- 4: the handshake completes: builder.rs apply_parameters
    let early: Vec<(StreamId, u64)> = w.m.with_send().into_iter().map(|s| (s, w.m.streams[&s].send.as_ref().unwrap().limit)).collect();
    w.ep.streams.revise_params(rejected, &rp);
    w.ep.flow.sender.revise_max_data(rejected, case.granted.max_data);
    w.ep.zero_rtt = false;
    // the reference model: the limits in force are now the ones of this connection
    let charged_0rtt = w.m.snd_sent;
    for (sid, _) in &early {
        let g = zr_limit(&case.granted, *sid);
        let st = w.m.send_st(*sid).unwrap();
        if rejected {
            // the server dropped every 0-RTT packet: it has seen nothing of this stream
            st.limit = g;
            st.highest = 0;
            st.fin_before_reject = st.fin_sent;
            st.fin_sent = false;
        } else {
            ensure!(g >= st.limit, "harness", "accepted 0-RTT with a smaller limit");
            st.limit = g;
        }
        st.hit = false;
    }
    w.m.st.hit_own_bidi = false;
    w.m.st.hit_own_uni = false;
    w.m.st.conn_hit = false;
    if rejected {
        w.m.snd_sent = 0;
        w.m.snd_max = case.granted.max_data;
        // 0-RTT packets are never acknowledged; the loss detector gives up on them eventually
        for f in w.flights.iter_mut() {
            f.dropped = true;
        }
    } else {
        w.m.snd_max = w.m.snd_max.max(case.granted.max_data);
    }
    w.emitted()?;
    // Connection credit after a rejection. The server has seen none of the 0-RTT bytes, so the
    // whole new initial_max_data is available (each byte counts once, against the limit of the
    // connection it is delivered on). Observed instead: the bytes charged in the 0-RTT phase stay
    // charged (SendControler::revise_max_data resets max_data but not sent_data).
    if rejected && charged_0rtt > 0 {
        let max = w.m.snd_max;
        let probed = catch_unwind(AssertUnwindSafe(|| w.ep.flow.sender.credit(usize::MAX >> 2).map(|c| c.available() as u64)));
        let what = format!(
            "0-RTT rejected after {charged_0rtt} fresh bytes had been sent under the remembered initial_max_data {}; the server's initial_max_data is {max} and it has received nothing",
            case.remembered.max_data
        );
        match probed {
            Err(p) if charged_0rtt <= max => resume_unwind(p),
            Err(_) => {
                // the controller's mutex is poisoned now: nothing more can be checked
                ctx.class("zr:rejected:credit-underflow");
                fail!(SIG_ZR_UNDERFLOW, "{what}: asking for credit panics (max_data - sent_data underflows; without overflow checks the controller offers ~2^64 bytes, i.e. no connection limit at all)");
            }
            Ok(Err(e)) => return Err(harness(format!("send controller closed: {e:?}"))),
            Ok(Ok(avail)) => {
                if avail == max {
                    // counted once
                } else if charged_0rtt <= max && avail == max - charged_0rtt {
                    ctx.known.push(Fail::new(
                        SIG_ZR_DOUBLE,
                        format!("{what}: credit offered {avail} = {max} - {charged_0rtt}; the re-sent bytes are charged a second time and {charged_0rtt} bytes of the peer's limit can never be used"),
                    ));
                    ctx.class("zr:rejected:credit-charged-twice");
                    w.m.overcharge = charged_0rtt;
                } else if charged_0rtt > max {
                    ctx.class("zr:rejected:credit-underflow");
                    fail!(SIG_ZR_UNDERFLOW, "{what}: credit offered {avail} (max_data - sent_data wrapped around)");
                }
                // anything else is reported by the probe below
            }
        }
        w.emitted()?;
    }
    w.m.probe_credit(&w.ep, "after handshake completion")?;
    w.emitted()?;
    // the 0-RTT package list may still be polled once by a burst that read `tls_fin == false`
    // just before: it must not load anything any more
    {
        let mut pkt = Packet::new(1200);
        let _ = w.ep.streams.try_load_data_into(&mut pkt, &w.ep.flow.sender, true);
        ensure!(pkt.recs.is_empty(), "zero-rtt-package-after-handshake", "the 0-RTT package list loaded {} STREAM frame(s) after the handshake had completed", pkt.recs.len());
        w.emitted()?;
        w.m.probe_credit(&w.ep, "after an empty 0-RTT load")?;
        w.emitted()?;
    }

    // ---- after the handshake: the `sender` stage's alphabet
    let peer = peer_of(w.ep.role);
    for op in &case.late {
        match op {
            SOp::Open { uni } => w.open(*uni)?,
            SOp::PeerOpen => {
                if w.peer_opened[0] < OPEN_CAP {
                    let sid = StreamId::new(peer, Dir::Bi, w.peer_opened[0]);
                    w.peer_opened[0] += 1;
                    w.inject_ok(Frame::Stream(StreamFrame::new(sid, 0, 0), Bytes::new()))?;
                }
            }
            SOp::Accept => w.accept()?,
            SOp::Write { s, len, polite } => {
                let c = w.m.with_writer();
                if !c.is_empty() {
                    let sid = c[gens::idx(*s, c.len())];
                    app_write(&mut w.ep, &mut w.m, sid, *len, *polite);
                }
            }
            SOp::Shutdown { s } => {
                let c = w.m.with_writer();
                if !c.is_empty() {
                    let sid = c[gens::idx(*s, c.len())];
                    app_shutdown(&mut w.ep, &mut w.m, sid);
                }
            }
            SOp::Cancel { s } => {
                let c = w.m.with_writer();
                if !c.is_empty() {
                    let sid = c[gens::idx(*s, c.len())];
                    if let Some(wr) = w.ep.writers.get_mut(&sid) {
                        wr.cancel(7);
                    }
                    w.emitted()?;
                }
            }
            SOp::MaxData { lim } => {
                let v = lim.apply(w.m.snd_max);
                w.inject_ok(Frame::MaxData(MaxDataFrame::new(vi(v))))?;
                w.m.probe_credit(&w.ep, "after MAX_DATA")?;
                w.emitted()?;
            }
            SOp::MaxStreamData { s, lim } => {
                let c = w.m.with_send();
                if !c.is_empty() {
                    let sid = c[gens::idx(*s, c.len())];
                    let cur = w.m.send_st(sid).map(|st| st.limit).unwrap_or(0);
                    let v = lim.apply(cur);
                    w.inject_ok(Frame::StreamCtl(StreamCtlFrame::MaxStreamData(MaxStreamDataFrame::new(sid, vi(v)))))?;
                }
            }
            SOp::StopSending { s } => {
                let c = w.m.with_send();
                if !c.is_empty() {
                    let sid = c[gens::idx(*s, c.len())];
                    w.inject_ok(Frame::StreamCtl(StreamCtlFrame::StopSending(StopSendingFrame::new(sid, vi(3)))))?;
                }
            }
            SOp::Packet { cap } => {
                w.packet(*cap as usize)?;
            }
            SOp::Ack { i } => {
                // (a rejected 0-RTT packet is never acknowledged)
                let c: Vec<usize> = (0..w.flights.len()).filter(|k| !w.flights[*k].acked && !w.flights[*k].dropped).collect();
                if let Some(idx) = choose(&c, *i) {
                    if w.flights[idx].lost {
                        zs.acks_after_loss += 1;
                    }
                    w.flights[idx].acked = true;
                    let fl = w.flights[idx].clone();
                    w.ep.on_acked(&fl);
                    w.emitted()?;
                }
            }
            SOp::Lose { i } => {
                let c: Vec<usize> = (0..w.flights.len()).filter(|k| !w.flights[*k].acked && !w.flights[*k].lost).collect();
                if let Some(idx) = choose(&c, *i) {
                    zs.losses += 1;
                    if w.flights[idx].dropped {
                        zs.stale_losses += 1;
                    }
                    w.flights[idx].lost = true;
                    let fl = w.flights[idx].clone();
                    w.ep.on_lost(&fl);
                    w.emitted()?;
                }
            }
        }
    }

    // ---- epilogue: a fair (and, if asked for, generous) peer. Rejected 0-RTT packets are
    // declared lost, everything else outstanding is acknowledged, then packets are assembled
    // until nothing more comes out: the windows in force must have been used exactly.
    if case.generous {
        let written: u64 = w.m.with_send().iter().map(|s| w.m.streams[s].send.as_ref().unwrap().written).sum();
        let v = w.m.snd_max + w.m.overcharge + written + 1;
        w.inject_ok(Frame::MaxData(MaxDataFrame::new(vi(v))))?;
        w.m.probe_credit(&w.ep, "after the generous MAX_DATA")?;
        w.emitted()?;
    }
    for idx in 0..w.flights.len() {
        if w.flights[idx].dropped {
            if !w.flights[idx].lost {
                w.flights[idx].lost = true;
                zs.stale_losses += 1;
                let fl = w.flights[idx].clone();
                w.ep.on_lost(&fl);
            }
        } else if !w.flights[idx].acked {
            w.flights[idx].acked = true;
            let fl = w.flights[idx].clone();
            w.ep.on_acked(&fl);
        }
    }
    w.flights.clear();
    w.emitted()?;
    let mut rounds = 0;
    loop {
        rounds += 1;
        ensure!(rounds < 3000, "sender-runaway", "packet assembly never runs dry");
        let any = w.packet(1200)?;
        for fl in std::mem::take(&mut w.flights) {
            w.ep.on_acked(&fl);
        }
        w.emitted()?;
        if !any {
            break;
        }
    }
    if w.m.snd_sent + w.m.overcharge < w.m.snd_max {
        for sid in w.m.with_writer() {
            let kind = w.m.kind(sid);
            let (sent_now, max_now) = (w.m.snd_sent, w.m.snd_max);
            let st = w.m.send_st(sid).unwrap().clone();
            if st.reset {
                continue;
            }
            let was_early = early.iter().find(|(s, _)| *s == sid);
            let want = st.written.min(st.limit);
            ensure_eq!(
                st.highest,
                want,
                "send-window-underused",
                "{kind} stream {sid} ({}): at quiescence with connection credit left ({} of {}), highest offset sent vs min(written {}, stream limit {})",
                match was_early {
                    Some((_, old)) => format!("opened before the handshake completed under a limit of {old}, 0-RTT {}", if rejected { "rejected" } else { "accepted" }),
                    None => "opened after the handshake".to_string(),
                },
                sent_now,
                max_now,
                st.written,
                st.limit
            );
        }
        ctx.class("zr:quiescent-with-conn-credit");
    } else {
        ctx.class("zr:quiescent-at-conn-limit");
    }
    w.m.probe_credit(&w.ep, "at quiescence")?;

    // ---- classification
    w.m.classify(ctx, "zr");
    ctx.class(if rejected { "zr:rejected" } else { "zr:accepted" });
    if zs.gap_opened > 0 {
        ctx.class("zr:stream-opened-between-parameters-and-handshake-end");
    }
    if zs.stale_losses > 0 {
        ctx.class("zr:rejected-0rtt-packet-declared-lost");
    }
    if zs.losses > zs.stale_losses {
        ctx.class("zr:loss");
    }
    if zs.acks_after_loss > 0 {
        ctx.class("zr:ack-after-loss");
    }
    if case.granted.max_data != case.remembered.max_data {
        ctx.class("zr:conn-limit-differs");
    }
    if rejected && case.granted.max_data < case.remembered.max_data {
        ctx.class("zr:rejected:conn-limit-shrunk");
    }
    ctx.class(format!("zr:streams-before-handshake:{}", early.len()));
    let mut nt = false;
    let mut late_hit = false;
    for sid in w.m.with_send() {
        if sid.role() != Role::Client {
            continue;
        }
        let st = w.m.streams[&sid].send.as_ref().unwrap();
        let dir = if sid.dir() == Dir::Bi { "bidi" } else { "uni" };
        match early.iter().find(|(s, _)| *s == sid) {
            Some((_, old)) => {
                let differs = *old != zr_limit(&case.granted, sid);
                if differs {
                    ctx.class(format!("zr:early-{dir}:limit-differs"));
                    if rejected && zr_limit(&case.granted, sid) < *old {
                        ctx.class(format!("zr:early-{dir}:limit-shrunk-by-rejection"));
                    }
                }
                if st.hit {
                    ctx.class(format!("zr:early-{dir}:limit-reached-after-handshake"));
                    if differs {
                        ctx.class(format!("zr:early-{dir}:differing-limit-reached-after-handshake"));
                        nt = true;
                    }
                }
            }
            None => {
                if st.hit {
                    late_hit = true;
                }
            }
        }
    }
    if late_hit {
        ctx.class("zr:late-stream:limit-reached");
    }
    if case.granted.bidi_local != case.granted.bidi_remote && case.granted.bidi_remote != case.granted.uni {
        ctx.class("cfg:granted-limits-differ");
    }
    if nt {
        ctx.nontrivial();
        ctx.note(json!({
            "rejected": rejected,
            "stream_frames_0rtt": zs.frames_0rtt,
            "bytes_0rtt": zs.bytes_0rtt,
            "stream_frames": w.m.st.stream_frames,
            "retrans": w.m.st.retrans,
            "conn_sent": w.m.snd_sent,
            "conn_max": w.m.snd_max,
            "credit_held_back": w.m.overcharge,
        }));
    }
    Ok(())
}

fn zr_early_op() -> BoxedStrategy<SOp> {
    prop_oneof![
        2 => any::<bool>().prop_map(|uni| SOp::Open { uni }),
        7 => (any::<u16>(), write_len(), prop::bool::weighted(0.25)).prop_map(|(s, len, polite)| SOp::Write { s, len, polite }),
        1 => any::<u16>().prop_map(|s| SOp::Shutdown { s }),
        6 => cap_strategy().prop_map(|cap| SOp::Packet { cap }),
    ]
    .boxed()
}

fn zr_strategy(max_late: usize) -> BoxedStrategy<ZrCase> {
    (
        fc_strategy(),
        fc_strategy(),
        fc_strategy(),
        any::<bool>(),
        (any::<bool>(), write_len()),
        proptest::collection::vec(zr_early_op(), 0..=10),
        proptest::collection::vec(zr_early_op(), 0..=2),
        proptest::collection::vec(sop_strategy(), 0..=max_late),
        prop::bool::weighted(0.75),
    )
        .prop_map(|(local, a, b, rejected, (uni, len), mut early_ops, gap, late, generous)| {
            // accepted 0-RTT: RFC 9000 §7.4.1 — no limit below the remembered one (both drawn from
            // the same value set, ordered); rejected: anything goes
            let (remembered, granted) = if rejected {
                (a, b)
            } else {
                (
                    Fc { max_data: a.max_data.min(b.max_data), bidi_local: a.bidi_local.min(b.bidi_local), bidi_remote: a.bidi_remote.min(b.bidi_remote), uni: a.uni.min(b.uni) },
                    Fc { max_data: a.max_data.max(b.max_data), bidi_local: a.bidi_local.max(b.bidi_local), bidi_remote: a.bidi_remote.max(b.bidi_remote), uni: a.uni.max(b.uni) },
                )
            };
            // at least one stream is opened and written before the handshake completes
            let mut early = vec![SOp::Open { uni }, SOp::Write { s: 0, len, polite: false }];
            early.append(&mut early_ops);
            ZrCase { local, remembered, granted, rejected, early, gap, late, generous }
        })
        .boxed()
}

// ---------------------------------------------------------------------------
// stage `receiver`: one real endpoint, the peer is a hostile sender that respects the
// final-size rules (C12's subject) but not the flow-control limits
// ---------------------------------------------------------------------------

#[derive(Debug, Clone, Serialize, Deserialize, PartialEq)]
enum Pos {
    /// continue at the highest offset received so far
    AtLargest,
    /// continue at the highest offset received so far, cut to fit the stream limit
    Fit,
    /// end exactly at the advertised stream limit
    ToLimit,
    /// end `d` bytes beyond the advertised stream limit
    OverBy(u32),
    /// start anywhere in [0, limit] (overlaps, duplicates, gaps)
    Within(u16),
    /// both ends anywhere in [0, limit] (`len` ignored): overlaps, duplicates, gaps that stay legal
    Inside(u16, u16),
    /// end such that the connection-wide total ends `d` bytes beyond the advertised MAX_DATA (d <= 0: inside)
    ConnEdge(i8),
}

#[derive(Debug, Clone, Serialize, Deserialize, PartialEq)]
enum ROp {
    /// the endpoint under test opens a bidirectional stream (the peer may then send on it)
    Open,
    Stream { k: u16, pos: Pos, len: u32, fin: bool },
    Reset { k: u16, pos: Pos },
    Accept,
    Read { s: u16, n: u32 },
}

#[derive(Debug, Clone, Serialize, Deserialize)]
struct RecvCase {
    server: bool,
    local: Fc,
    ops: Vec<ROp>,
}

const GENEROUS: Fc = Fc { max_data: 1 << 30, bidi_local: 1 << 30, bidi_remote: 1 << 30, uni: 1 << 30 };

fn run_receiver(case: &RecvCase, ctx: &mut CaseCtx) -> Outcome {
    let world = SoloWorld::build(case.server, &case.local, &GENEROUS)?;
    with_world(world, |w| receiver_history(case, ctx, w))
}

/// candidate streams the hostile peer may send on: its own bidi 0..3, its own uni 0..3, and the
/// bidirectional streams the endpoint under test opened
fn recv_candidates(w: &SoloWorld) -> Vec<StreamId> {
    let peer = peer_of(w.ep.role);
    let mut v = vec![];
    for i in 0..OPEN_CAP {
        v.push(StreamId::new(peer, Dir::Bi, i));
    }
    for i in 0..OPEN_CAP {
        v.push(StreamId::new(peer, Dir::Uni, i));
    }
    for i in 0..w.opened[0] {
        v.push(StreamId::new(w.ep.role, Dir::Bi, i));
    }
    v
}

#[derive(Default)]
struct RStats {
    accepted: u32,
    at_stream_limit: u32,
    at_conn_limit: u32,
    detected_stream: bool,
    detected_conn: bool,
    overlap: u32,
    fin_frames: u32,
    resets: u32,
    skipped: u32,
    reads: u32,
    over_after_raise: bool,
    conn_detected_after_raise: bool,
}

fn receiver_history(case: &RecvCase, ctx: &mut CaseCtx, w: &mut SoloWorld) -> Outcome {
    let mut rs = RStats::default();
    // connection-wide totals of the reference model
    let mut conn_data: u64 = 0; // sum over streams of the highest data offset received (+ what RESET_STREAM charged)
    let mut conn_rfc: u64 = 0; // sum over streams of max(highest offset, final size if known)  (RFC 9000 §4.5)
    let mut dead: Option<String> = None;

    for (step, op) in case.ops.iter().enumerate() {
        if dead.is_some() {
            break;
        }
        match op {
            ROp::Open => w.open(false)?,
            ROp::Accept => w.accept()?,
            ROp::Read { s, n } => {
                let c = w.m.with_reader();
                if !c.is_empty() {
                    let sid = c[gens::idx(*s, c.len())];
                    app_read(&mut w.ep, &mut w.m, sid, *n)?;
                    rs.reads += 1;
                    w.emitted()?;
                }
            }
            ROp::Stream { k, pos, len, fin } => {
                let c = recv_candidates(w);
                let sid = c[gens::idx(*k, c.len())];
                w.m.ensure_stream(sid);
                let kind = w.m.kind(sid);
                let adv_conn = w.m.rcv_adv;
                let st = w.m.recv_st(sid).expect("candidate streams have a receiving side").clone();
                if st.closed {
                    rs.skipped += 1;
                    continue;
                }
                // ---- place the frame
                let len = *len as u64;
                let (mut off, mut end) = match pos {
                    Pos::AtLargest => (st.largest, st.largest + len),
                    Pos::Fit => (st.largest, (st.largest + len).min(st.adv.max(st.largest))),
                    Pos::ToLimit => (st.adv.saturating_sub(len), st.adv),
                    Pos::OverBy(d) => {
                        let e = st.adv + *d as u64;
                        (e.saturating_sub(len), e)
                    }
                    Pos::Within(f) => {
                        let o = gens::upto(*f, st.adv);
                        (o, o + len)
                    }
                    Pos::Inside(a, b) => {
                        let (a, b) = (gens::upto(*a, st.adv), gens::upto(*b, st.adv));
                        (a.min(b), a.max(b).min(a.min(b) + 50_000))
                    }
                    Pos::ConnEdge(d) => {
                        let target = adv_conn as i128 + *d as i128 - conn_data as i128;
                        if target <= 0 {
                            rs.skipped += 1;
                            continue;
                        }
                        let e = st.largest + target as u64;
                        (e.saturating_sub(len), e)
                    }
                };
                let mut fin = *fin;
                // keep the final-size rules (RFC 9000 §4.5): never beyond a known final size, FIN only at it
                if let Some(f) = st.final_size {
                    end = end.min(f);
                    off = off.min(end);
                    if fin && end != f {
                        fin = false;
                    }
                } else if fin && end < st.largest {
                    fin = false;
                }
                // no empty non-FIN frames ahead of the data (their meaning for the limits is debatable)
                if end == off && !fin {
                    off = off.min(st.largest);
                    end = off;
                }
                if end >= (1 << 40) {
                    rs.skipped += 1;
                    continue;
                }
                let dlen = (end - off) as usize;
                // ---- expected verdict
                let new_largest = if dlen > 0 { st.largest.max(end) } else { st.largest };
                let delta = new_largest - st.largest;
                let contrib_before = st.final_size.unwrap_or(st.largest).max(st.largest);
                let final_after = if fin { Some(end) } else { st.final_size };
                let contrib_after = final_after.unwrap_or(new_largest).max(new_largest);
                let stream_viol = end > st.adv;
                let conn_data_after = conn_data + delta;
                let conn_rfc_after = conn_rfc - contrib_before + contrib_after;
                let conn_viol = conn_data_after > adv_conn;
                let conn_rfc_viol = conn_rfc_after > adv_conn;
                if end == st.adv && dlen > 0 {
                    rs.at_stream_limit += 1;
                }
                if conn_data_after == adv_conn && delta > 0 {
                    rs.at_conn_limit += 1;
                }
                if dlen > 0 && off < st.largest {
                    rs.overlap += 1;
                }
                if fin {
                    rs.fin_frames += 1;
                }
                let mut frame = StreamFrame::new(sid, off, dlen);
                frame.set_eos_flag(fin);
                let data = Bytes::from(gens::content(sid_key(sid), off, dlen));
                let what = format!(
                    "step {step}: {kind} stream {sid} STREAM [{off},{end}) fin={fin}; advertised stream limit {}, highest offset so far {}, final size {:?}; connection: received {conn_data} (+{delta}), advertised MAX_DATA {adv_conn}",
                    st.adv, st.largest, st.final_size
                );
                let result = w.ep.deliver(Frame::Stream(frame, data));
                match result {
                    Err(e) => {
                        w.ep.kill(&e);
                        ensure!(
                            e.kind() == ErrorKind::FlowControl,
                            "recv-unexpected-error",
                            "{what}: rejected with {:?} ({e:?}), the frame obeys the final-size rules",
                            e.kind()
                        );
                        ensure!(stream_viol || conn_viol || conn_rfc_viol, "recv-spurious-flow-control", "{what}: FLOW_CONTROL_ERROR although within every advertised limit");
                        rs.detected_stream |= stream_viol;
                        rs.detected_conn |= !stream_viol;
                        if !stream_viol && adv_conn > case.local.max_data {
                            rs.conn_detected_after_raise = true;
                        }
                        if stream_viol && st.adv > init_limit(&w.m, sid) {
                            rs.over_after_raise = true;
                        }
                        dead = Some(what);
                    }
                    Ok(()) => {
                        if stream_viol {
                            // the only tolerated way past the stream limit is the known FIN path
                            ensure!(
                                fin || st.final_size.is_some() || st.bypass,
                                "stream-limit-not-enforced",
                                "{what}: accepted although it ends beyond the advertised stream limit"
                            );
                            ctx.known.push(Fail::new(SIG_FIN_BYPASS, format!("{what}: accepted (frames that carry or follow a FIN are checked against the final size only)")));
                        }
                        ensure!(!conn_viol, "conn-limit-not-enforced", "{what}: accepted although the connection-wide total exceeds the advertised MAX_DATA");
                        if conn_rfc_viol {
                            ctx.known.push(Fail::new(
                                SIG_FINAL_UNCHARGED,
                                format!("{what}: accepted although the final sizes known so far sum to {conn_rfc_after} > MAX_DATA (a final size is not counted until the bytes arrive)"),
                            ));
                        }
                        rs.accepted += 1;
                        conn_data = conn_data_after;
                        conn_rfc = conn_rfc_after;
                        let stm = w.m.recv_st(sid).unwrap();
                        stm.largest = new_largest;
                        stm.final_size = final_after;
                        stm.bypass |= stream_viol;
                        // only bytes at or above the read cursor are stored
                        stm.add_cover(off, end);
                        if stm.final_size == Some(stm.contig()) {
                            stm.closed = true;
                        }
                        w.emitted()?;
                    }
                }
            }
            ROp::Reset { k, pos } => {
                let c = recv_candidates(w);
                let sid = c[gens::idx(*k, c.len())];
                w.m.ensure_stream(sid);
                let kind = w.m.kind(sid);
                let adv_conn = w.m.rcv_adv;
                let st = w.m.recv_st(sid).unwrap().clone();
                if st.closed {
                    rs.skipped += 1;
                    continue;
                }
                let fsz = match st.final_size {
                    Some(f) => f,
                    None => match pos {
                        Pos::AtLargest | Pos::Fit => st.largest,
                        Pos::ToLimit => st.adv.max(st.largest),
                        Pos::OverBy(d) => (st.adv + *d as u64).max(st.largest),
                        Pos::Within(f) | Pos::Inside(f, _) => gens::upto(*f, st.adv).max(st.largest),
                        Pos::ConnEdge(d) => {
                            let target = adv_conn as i128 + *d as i128 - conn_data as i128;
                            st.largest + target.max(0) as u64
                        }
                    },
                };
                if fsz >= (1 << 40) {
                    rs.skipped += 1;
                    continue;
                }
                rs.resets += 1;
                let contrib_before = st.final_size.unwrap_or(st.largest).max(st.largest);
                let stream_viol = fsz > st.adv;
                // the implementation charges final - highest when the final size was not known before
                let charged = if st.final_size.is_none() { fsz - st.largest } else { 0 };
                let conn_data_after = conn_data + charged;
                let conn_rfc_after = conn_rfc - contrib_before + fsz;
                let conn_viol = conn_data_after > adv_conn;
                let conn_rfc_viol = conn_rfc_after > adv_conn;
                let what = format!(
                    "step {step}: {kind} stream {sid} RESET_STREAM final size {fsz}; advertised stream limit {}, highest offset so far {}, final size {:?}; connection: received {conn_data}, advertised MAX_DATA {adv_conn}",
                    st.adv, st.largest, st.final_size
                );
                let result = w.ep.deliver(Frame::StreamCtl(StreamCtlFrame::ResetStream(ResetStreamFrame::new(sid, vi(5), vi(fsz)))));
                match result {
                    Err(e) => {
                        w.ep.kill(&e);
                        ensure!(e.kind() == ErrorKind::FlowControl, "recv-unexpected-error", "{what}: rejected with {:?} ({e:?})", e.kind());
                        ensure!(stream_viol || conn_viol || conn_rfc_viol, "recv-spurious-flow-control", "{what}: FLOW_CONTROL_ERROR although within every advertised limit");
                        rs.detected_stream |= stream_viol;
                        rs.detected_conn |= !stream_viol;
                        dead = Some(what);
                    }
                    Ok(()) => {
                        if stream_viol {
                            if st.bypass || st.final_size.is_some() {
                                ctx.known.push(Fail::new(SIG_FIN_BYPASS, format!("{what}: accepted (final size established by an over-limit FIN earlier)")));
                            } else {
                                ctx.known.push(Fail::new(SIG_RESET_BYPASS, format!("{what}: accepted although the final size exceeds the advertised stream limit")));
                            }
                        }
                        ensure!(!conn_viol, "conn-limit-not-enforced", "{what}: accepted although the connection-wide total exceeds the advertised MAX_DATA");
                        if conn_rfc_viol {
                            ctx.known.push(Fail::new(SIG_FINAL_UNCHARGED, format!("{what}: accepted although the final sizes known so far sum to {conn_rfc_after} > MAX_DATA")));
                        }
                        rs.accepted += 1;
                        conn_data = conn_data_after;
                        conn_rfc = conn_rfc_after;
                        let stm = w.m.recv_st(sid).unwrap();
                        stm.final_size = Some(fsz);
                        stm.closed = true;
                        w.emitted()?;
                    }
                }
            }
        }
    }
    w.m.classify(ctx, "receiver");
    if rs.at_stream_limit > 0 {
        ctx.class("receiver:frame-ends-at-stream-limit");
    }
    if rs.at_conn_limit > 0 {
        ctx.class("receiver:total-exactly-at-conn-limit");
    }
    if rs.detected_stream {
        ctx.class("receiver:stream-violation-detected");
    }
    if rs.detected_conn {
        ctx.class("receiver:conn-violation-detected");
    }
    if rs.over_after_raise {
        ctx.class("receiver:violation-of-raised-limit-detected");
    }
    if rs.conn_detected_after_raise {
        ctx.class("receiver:violation-of-raised-conn-limit-detected");
    }
    if rs.overlap > 0 {
        ctx.class("receiver:overlap-or-duplicate");
    }
    if rs.fin_frames > 0 {
        ctx.class("receiver:fin");
    }
    if rs.resets > 0 {
        ctx.class("receiver:reset");
    }
    if rs.reads > 0 {
        ctx.class("receiver:read");
    }
    if dead.is_none() {
        ctx.class("receiver:survived");
    }
    if case.local.stream_limits_distinct() {
        ctx.class("cfg:own-limits-pairwise-different");
    }
    // non-trivial: pairwise different limits and a stream driven exactly to (or detected beyond) its limit
    if case.local.stream_limits_distinct() && (rs.at_stream_limit > 0 || rs.detected_stream || rs.at_conn_limit > 0 || rs.detected_conn) {
        ctx.nontrivial();
        ctx.note(json!({"accepted": rs.accepted, "ended_by": dead}));
    }
    Ok(())
}

fn init_limit(m: &SideModel, sid: StreamId) -> u64 {
    match (sid.role() == m.role, sid.dir()) {
        (true, _) => m.local.bidi_local,
        (false, Dir::Bi) => m.local.bidi_remote,
        (false, Dir::Uni) => m.local.uni,
    }
}

fn pos_strategy() -> BoxedStrategy<Pos> {
    prop_oneof![
        4 => Just(Pos::AtLargest),
        12 => Just(Pos::Fit),
        6 => Just(Pos::ToLimit),
        2 => (1u32..4).prop_map(Pos::OverBy),
        1 => (1u32..100_000).prop_map(Pos::OverBy),
        3 => any::<u16>().prop_map(Pos::Within),
        8 => (any::<u16>(), any::<u16>()).prop_map(|(a, b)| Pos::Inside(a, b)),
        3 => (-3i8..=0).prop_map(Pos::ConnEdge),
        1 => (1i8..=2).prop_map(Pos::ConnEdge),
    ]
    .boxed()
}

fn rop_strategy() -> BoxedStrategy<ROp> {
    let len = prop_oneof![1 => Just(0u32), 4 => 1u32..4, 5 => 1u32..60, 2 => 60u32..1500, 1 => 1500u32..40_000];
    prop_oneof![
        1 => Just(ROp::Open),
        12 => (any::<u16>(), pos_strategy(), len, prop::bool::weighted(0.2)).prop_map(|(k, pos, len, fin)| ROp::Stream { k, pos, len, fin }),
        1 => (any::<u16>(), pos_strategy()).prop_map(|(k, pos)| ROp::Reset { k, pos }),
        3 => Just(ROp::Accept),
        4 => (any::<u16>(), 1u32..5000).prop_map(|(s, n)| ROp::Read { s, n }),
    ]
    .boxed()
}

fn receiver_strategy(max_ops: usize) -> BoxedStrategy<RecvCase> {
    (any::<bool>(), fc_strategy(), proptest::collection::vec(rop_strategy(), 1..=max_ops))
        .prop_map(|(server, local, ops)| RecvCase { server, local, ops })
        .boxed()
}

// ---------------------------------------------------------------------------
// exhaustive small-bound tier of the receiver stage
// ---------------------------------------------------------------------------

/// the `k` that `recv_candidates` (6 entries while the endpoint opened nothing) maps onto entry `j`
fn k_for(j: u32) -> u16 {
    ((j * 65536 + 5) / 6) as u16
}

fn small_alphabet(big: bool) -> Vec<ROp> {
    let mut v = vec![];
    let streams: &[u32] = if big { &[0, 1, 3] } else { &[0, 3] };
    let lens: &[u32] = if big { &[0, 1, 2, 3] } else { &[0, 1, 2] };
    let mut poss = vec![Pos::AtLargest, Pos::ToLimit, Pos::OverBy(1), Pos::ConnEdge(0), Pos::ConnEdge(1)];
    if big {
        poss.push(Pos::Inside(0, 40_000));
    }
    for j in streams {
        let k = k_for(*j);
        for pos in &poss {
            for len in lens {
                for fin in [false, true] {
                    v.push(ROp::Stream { k, pos: pos.clone(), len: *len, fin });
                }
            }
        }
        for pos in [Pos::AtLargest, Pos::ToLimit, Pos::OverBy(1)] {
            v.push(ROp::Reset { k, pos });
        }
    }
    v.push(ROp::Accept);
    v.push(ROp::Read { s: 0, n: 2 });
    v
}

fn exhaustive_receiver(e: &mut vcore::Enumerator<RecvCase>, big: bool) {
    let depth = 3;
    let alpha = small_alphabet(big);
    let configs = [
        (false, Fc { max_data: 5, bidi_local: 1, bidi_remote: 3, uni: 2 }),
        (true, Fc { max_data: 3, bidi_local: 4, bidi_remote: 2, uni: 3 }),
    ];
    fn rec(e: &mut vcore::Enumerator<RecvCase>, server: bool, local: Fc, alpha: &[ROp], ops: &mut Vec<ROp>, depth: usize) {
        if e.stopped() {
            return;
        }
        if !ops.is_empty() {
            let case = RecvCase { server, local, ops: ops.clone() };
            e.case(&case, run_receiver);
        }
        if ops.len() < depth {
            for op in alpha {
                ops.push(op.clone());
                rec(e, server, local, alpha, ops, depth);
                ops.pop();
            }
        }
    }
    for (server, local) in configs {
        rec(e, server, local, &alpha, &mut vec![], depth);
    }
}

fn main() {
    let mut check = Check::from_env("C11", "exploration");
    check.rule(
        "pair: two real endpoints (DataStreams + FlowController wired like qconnection), the six initial flow-control \
         parameters of each side drawn independently from {0,1,100,1000,70000,2^20} + random small values; history = \
         open/accept/write/shutdown/cancel/stop/read on all four stream kinds + packet assembly (30..1500 bytes) + deliver in any \
         order / late ack / loss report (spurious or real) per packet, then a fair epilogue. sender: one endpoint vs a scripted \
         peer moving MAX_DATA / MAX_STREAM_DATA up, stale or to absolute values, STOP_SENDING, acks, losses. receiver: one \
         endpoint vs a scripted sender placing STREAM / FIN / RESET_STREAM frames at, just inside and beyond the advertised \
         stream and connection limits (final-size rules respected), with reads. non-trivial = the limits that apply (the \
         peer's three stream-data parameters for a sender, the own ones for the receiver) are pairwise different AND some \
         stream (or the connection) was driven exactly to its limit or a violation was detected. sender-zero-rtt: a client built \
         with remembered server parameters (remembered and new parameters drawn independently from the same set; accepted 0-RTT: \
         every new limit >= the remembered one by construction, rejected: anything), 1-4 streams opened / written / shut down and \
         packets assembled by the 0-RTT package list before the handshake completes, optionally more streams between the arrival \
         of the server's parameters and the end of the handshake, then revise_params + revise_max_data as builder.rs calls them, \
         then the sender stage's alphabet (rejected 0-RTT packets can only be declared lost) and a fair epilogue; non-trivial = a \
         stream opened before the handshake completed whose remembered and new limit differ was driven exactly to its limit \
         after the revision. distinct = hash of the case.",
    );
    check.assume("the frame-level wiring in this file mirrors qconnection (builder.rs, space.rs, space/data.rs, path/burst.rs); the real packet/crypto layers are not in the loop");
    check.assume("a packet is dispatched frame by frame in order (the real per-kind pipes may interleave kinds differently)");
    check.assume("pair / sender / receiver: no 0-RTT, parameters are applied through revise_params(false, ..) before any stream exists; sender-zero-rtt: the handshake time line of a resuming client is the one read from qconnection (builder.rs init_stream_and_datagram + apply_parameters, tls.rs try_process_ee, burst.rs load_spaces): nothing from the server is processed and no 0-RTT packet is acknowledged or declared lost before apply_parameters has run; a rejected 0-RTT packet is never acknowledged, only declared lost");
    check.assume("sender-zero-rtt: no stream is cancelled before the handshake completes (a RESET_STREAM whose final size was fixed in a rejected 0-RTT phase is not this stage's subject); the SendBuf bookkeeping of a rejection is C09's subject");
    check.assume("the scripted hostile sender obeys the final-size rules and never sends empty non-FIN frames ahead of the data");
    check.max_shrink_iters = 1500;

    // every history of <= 3 operations over a small alphabet (2 streams x 33 frames quick, 3 x 52 thorough) for two configurations
    let big = !check.quick();
    check.exhaustive::<RecvCase, _>("receiver-exhaustive-small", true, |e| exhaustive_receiver(e, big));

    let n = check.pick(60_000, 4_000_000);
    check.stage("receiver", n, 16, || receiver_strategy(40), run_receiver);
    let n = check.pick(24_000, 1_500_000);
    check.stage("sender", n, 16, || sender_strategy(70), run_sender);
    let n = check.pick(30_000, 1_500_000);
    check.stage("sender-zero-rtt", n, 16, || zr_strategy(50), run_zero_rtt_sender);
    let n = check.pick(16_000, 800_000);
    check.stage("pair", n, 16, || pair_strategy(90), run_pair);
    check.finish();
}
