//! C10 — acknowledgement bookkeeping is truthful in both directions.
//!
//! **rx** (`ArcRcvdJournal`): histories of `decode_pn`/`on_rcvd_pn` (truncated
//! encodings, gaps, duplicates, reordering, too-old numbers), `gen_ack_frame_util`
//! (any tracked `largest`, capacities from 0 upward, placed on the byte boundaries of
//! the ideal frame), `on_rcvd_ack` (the peer acknowledging our ACK carriers, stand-alone
//! or carried by the packet that is being registered) and clock advances. A reference
//! model (set of tracked numbers + per-record ack state) predicts every observable:
//! the verdict of `decode_pn` for every interesting number after every operation, and
//! the exact range list of every generated frame (maximal prefix from the top that fits).
//!
//! **tx** (`ArcSentJournal<u32>`, unique frame ids): packets with 0/1/many frames,
//! trivial packets, abandoned guards, then ACK frames of packets really sent fed through
//! a line-for-line copy of the `Ack*Space::recv_frame` glue of `qconnection/src/space.rs`,
//! loss declarations (`DataTracker::may_loss` glue), `fast_retransmit`, clock advances.
//! The model is `pn -> recorded frame ids` plus the packet state and the sliding window.

use std::{
    collections::{BTreeMap, BTreeSet, VecDeque},
    sync::OnceLock,
    time::Duration,
};

use proptest::prelude::*;
use qbase::{
    frame::{AckFrame, EncodeSize, io::WriteFrame},
    packet::{InvalidPacketNumber, PacketNumber},
    varint::VarInt,
};
use qrecovery::journal::{ArcRcvdJournal, ArcSentJournal};
use serde::{Deserialize, Serialize};
use serde_json::json;
use tokio::time::Instant;
use vcore::{CaseCtx, Check, Fail, Outcome, ensure, ensure_eq, fail, gens};

// ---------------------------------------------------------------------------
// shared helpers
// ---------------------------------------------------------------------------

/// signatures listed in known-findings.jsonl: such a failure is recorded and the
/// history continues behind it; an unlisted one ends the case as a violation.
static TOLERATED: OnceLock<Vec<String>> = OnceLock::new();

fn tolerated(sig: &str) -> bool {
    TOLERATED.get().is_some_and(|v| {
        v.iter().any(|p| match p.strip_suffix('*') {
            Some(pre) => sig.starts_with(pre),
            None => p == sig,
        })
    })
}

/// A divergence that is a *known finding candidate*: tolerated (recorded, history goes
/// on with the model corrected) only when listed; otherwise the case fails with it.
fn finding(ctx: &mut CaseCtx, sig: &str, msg: String) -> Outcome {
    if tolerated(sig) {
        ctx.known.push(Fail::new(sig, msg));
        Ok(())
    } else {
        Err(Fail::new(sig, msg))
    }
}

fn vi_len(x: u64) -> usize {
    if x < 1 << 6 {
        1
    } else if x < 1 << 14 {
        2
    } else if x < 1 << 30 {
        4
    } else {
        8
    }
}

fn vi(x: u64) -> VarInt {
    VarInt::from_u64(x).expect("harness: varint range")
}

fn rt() -> tokio::runtime::Runtime {
    tokio::runtime::Builder::new_current_thread()
        .enable_time()
        .start_paused(true)
        .build()
        .expect("runtime")
}

/// maximal runs (hi, lo) of a strictly descending sequence of numbers
fn runs_desc(it: impl Iterator<Item = u64>) -> Vec<(u64, u64)> {
    let mut out: Vec<(u64, u64)> = vec![];
    for p in it {
        match out.last_mut() {
            Some((_, lo)) if *lo == p + 1 => *lo = p,
            _ => out.push((p, p)),
        }
    }
    out
}

/// The ACK frame a correct peer sends for exactly this (non-empty) set.
fn ack_from_set(set: &BTreeSet<u64>, delay: u64) -> AckFrame {
    let runs = runs_desc(set.iter().rev().copied());
    let (hi0, lo0) = runs[0];
    let mut ranges = vec![];
    let mut prev_lo = lo0;
    for &(hi, lo) in &runs[1..] {
        ranges.push((vi(prev_lo - hi - 2), vi(hi - lo)));
        prev_lo = lo;
    }
    AckFrame::new(vi(hi0), vi(delay), vi(hi0 - lo0), ranges, None)
}

/// RFC 9000 §19.3.1 decoding of an ACK frame with checked arithmetic: (hi, lo) runs.
fn decode_ack(f: &AckFrame) -> Result<Vec<(u64, u64)>, String> {
    let hi = f.largest();
    let lo = hi
        .checked_sub(f.first_range())
        .ok_or_else(|| format!("first range {} > largest {hi}", f.first_range()))?;
    let mut out = vec![(hi, lo)];
    let mut smallest = lo;
    for (gap, len) in f.ranges() {
        let (gap, len) = (gap.into_u64(), len.into_u64());
        let hi = smallest
            .checked_sub(gap)
            .and_then(|x| x.checked_sub(2))
            .ok_or_else(|| format!("gap {gap} below smallest {smallest}"))?;
        let lo = hi
            .checked_sub(len)
            .ok_or_else(|| format!("range length {len} above {hi}"))?;
        out.push((hi, lo));
        smallest = lo;
    }
    Ok(out)
}

/// `AckFrame::iter` on a well-formed frame enumerates what RFC 9000 §19.3.1 says.
fn check_iter(f: &AckFrame, runs: &[(u64, u64)], what: &str) -> Outcome {
    let got: Vec<(u64, u64)> = f.iter().map(|r| (*r.end(), *r.start())).collect();
    ensure!(
        got == runs,
        "ack-iter",
        "{what}: AckFrame::iter yields {got:?}, RFC decoding gives {runs:?} for {f:?}"
    );
    Ok(())
}

/// Which of the packets 0..n a peer acknowledges (always packets that were sent).
#[derive(Debug, Clone, Serialize, Deserialize)]
struct AckSel {
    /// 0,1: newest packet is the largest; 2: within 6 of the newest; 3: anywhere
    kind: u8,
    top: u16,
    /// length of the first range (255 = everything down to 0)
    first: u8,
    /// further (gap-1, len) pairs going down
    more: Vec<(u8, u8)>,
}

fn select_set(sel: &AckSel, n: u64) -> BTreeSet<u64> {
    let mut out = BTreeSet::new();
    if n == 0 {
        return out;
    }
    let top = match sel.kind {
        0 | 1 => n - 1,
        2 => (n - 1) - gens::upto(sel.top, 6.min(n - 1)),
        _ => gens::upto(sel.top, n - 1),
    };
    let mut cur = top as i64;
    let first = if sel.first == 255 { n } else { sel.first.max(1) as u64 };
    let mut take = |cur: &mut i64, len: u64| {
        for _ in 0..len {
            if *cur < 0 {
                break;
            }
            out.insert(*cur as u64);
            *cur -= 1;
        }
    };
    take(&mut cur, first);
    for (gap, len) in &sel.more {
        cur -= *gap as i64 + 1;
        take(&mut cur, (*len).max(1) as u64);
    }
    out
}

fn ack_sel() -> BoxedStrategy<AckSel> {
    (
        0u8..4,
        any::<u16>(),
        prop_oneof![4 => Just(1u8), 4 => 2u8..=5, 2 => Just(255u8)],
        proptest::collection::vec((0u8..=3, 1u8..=4), 0..=3),
    )
        .prop_map(|(kind, top, first, more)| AckSel { kind, top, first, more })
        .boxed()
}

// ---------------------------------------------------------------------------
// rx side
// ---------------------------------------------------------------------------

#[derive(Debug, Clone, Serialize, Deserialize)]
enum PnSel {
    /// `gap` numbers above the largest one seen (0 = the next in order)
    Next { gap: u16 },
    /// the i-th number never received inside the tracked window
    Hole { i: u16 },
    /// a number that is tracked as received
    Dup { i: u16 },
    /// a number below the tracked window
    Old { i: u16 },
    Abs { pn: u32 },
}

#[derive(Debug, Clone, Serialize, Deserialize)]
enum CapSel {
    Ample,
    Abs { cap: u16 },
    /// encoded size of the ideal frame cut after k+1 ranges, plus delta
    Near { k: u16, delta: i8 },
}

#[derive(Debug, Clone, Serialize, Deserialize)]
enum RxOp {
    /// a packet arrives: decode_pn, [the ACK frame it carries], on_rcvd_pn
    Rcvd {
        sel: PnSel,
        nbytes: u8,
        ae: bool,
        piggy: Option<AckSel>,
    },
    /// we send a packet (fresh number) that starts with an ACK frame
    Gen { back: u16, cap: CapSel },
    PeerAck { sel: AckSel },
    PeerAckPns { pns: Vec<u64> },
    Advance { us: u32 },
}

#[derive(Debug, Clone, Serialize, Deserialize)]
struct RxCase {
    pto_ms: u16,
    ops: Vec<RxOp>,
}

#[derive(Debug, Clone, PartialEq)]
enum RxSt {
    Received,
    /// numbers of our packets whose ACK processing touched this record
    AckSent(BTreeSet<u64>),
    Confirmed,
}

#[derive(Debug, Clone)]
struct RxRec {
    st: RxSt,
    ae: bool,
    rcvd_us: u64,
    expire_us: u64,
    /// our packets whose ACK frame really listed this number
    reported_in: BTreeSet<u64>,
    /// the peer acknowledged one of those packets
    report_confirmed: bool,
}

#[derive(Default, Clone)]
struct RxModel {
    offset: u64,
    /// one past the largest number tracked (== expected next number)
    end: u64,
    recs: BTreeMap<u64, RxRec>,
    include: BTreeSet<u64>,
    ever: BTreeSet<u64>,
    now_us: u64,
    next_out: u64,
}

impl RxModel {
    fn holes(&self) -> Vec<u64> {
        (self.offset..self.end).filter(|p| !self.recs.contains_key(p)).take(4096).collect()
    }

    fn resolve(&self, sel: &PnSel) -> u64 {
        match sel {
            PnSel::Next { gap } => self.end + *gap as u64,
            PnSel::Hole { i } => {
                let h = self.holes();
                if h.is_empty() { self.end } else { h[gens::idx(*i, h.len())] }
            }
            PnSel::Dup { i } => {
                if self.recs.is_empty() {
                    self.end
                } else {
                    // newest-biased is not needed; any tracked number
                    *self.recs.keys().nth(gens::idx(*i, self.recs.len())).unwrap()
                }
            }
            PnSel::Old { i } => {
                if self.offset == 0 { self.end } else { gens::upto(*i, self.offset - 1) }
            }
            PnSel::Abs { pn } => *pn as u64,
        }
    }

    fn expect_decode(&self, pn: u64) -> Result<u64, InvalidPacketNumber> {
        if pn < self.offset {
            Err(InvalidPacketNumber::TooOld)
        } else if self.recs.contains_key(&pn) {
            Err(InvalidPacketNumber::Duplicate)
        } else {
            Ok(pn)
        }
    }

    fn register(&mut self, pn: u64, ae: bool, pto_us: u64) -> bool {
        self.ever.insert(pn);
        if pn < self.offset {
            return false;
        }
        self.recs.insert(
            pn,
            RxRec {
                st: RxSt::Received,
                ae,
                rcvd_us: self.now_us,
                expire_us: self.now_us + 3 * pto_us,
                reported_in: BTreeSet::new(),
                report_confirmed: false,
            },
        );
        self.end = self.end.max(pn + 1);
        true
    }

    /// returns numbers dropped although no ACK frame that listed them was confirmed
    fn on_peer_ack(&mut self, set: &BTreeSet<u64>) -> (usize, Vec<u64>) {
        let acked: BTreeSet<u64> = set.intersection(&self.include).copied().collect();
        for a in &acked {
            self.include.remove(a);
        }
        for r in self.recs.values_mut() {
            if let RxSt::AckSent(c) = &r.st {
                if c.iter().any(|p| acked.contains(p)) {
                    r.st = RxSt::Confirmed;
                }
            }
            if r.reported_in.iter().any(|p| acked.contains(p)) {
                r.report_confirmed = true;
            }
        }
        // rotate
        let mut dropped = 0;
        let mut unconfirmed = vec![];
        while self.offset < self.end {
            match self.recs.get(&self.offset) {
                None => {}
                Some(r) if r.st == RxSt::Confirmed && (!r.ae || r.expire_us < self.now_us) => {
                    if !r.report_confirmed {
                        unconfirmed.push(self.offset);
                    }
                    dropped += 1;
                    self.recs.remove(&self.offset);
                }
                Some(_) => break,
            }
            self.offset += 1;
        }
        (dropped, unconfirmed)
    }

    fn touch(&mut self, run: (u64, u64), carrier: u64) {
        for (_, r) in self.recs.range_mut(run.1..=run.0) {
            match &mut r.st {
                RxSt::Received => r.st = RxSt::AckSent([carrier].into()),
                RxSt::AckSent(c) => {
                    c.insert(carrier);
                }
                RxSt::Confirmed => {}
            }
        }
    }
}

fn rfc_decode_pn(trunc: u64, bits: u32, expected: u64) -> u64 {
    // RFC 9000 A.3
    let win = 1u64 << bits;
    let hwin = win / 2;
    let mask = win - 1;
    let candidate = (expected & !mask) | trunc;
    if candidate + hwin <= expected && candidate < (1u64 << 62) - win {
        candidate + win
    } else if candidate > expected + hwin && candidate >= win {
        candidate - win
    } else {
        candidate
    }
}

/// shortest encoding of at least `want` bytes that a correct receiver decodes to `pn`
fn truncate_pn(pn: u64, expected: u64, want: u8) -> Option<PacketNumber> {
    for nb in want.clamp(1, 4)..=4 {
        let bits = 8 * nb as u32;
        let trunc = pn & ((1u64 << bits) - 1);
        if rfc_decode_pn(trunc, bits, expected) == pn {
            return Some(match nb {
                1 => PacketNumber::U8(trunc as u8),
                2 => PacketNumber::U16(trunc as u16),
                3 => PacketNumber::U24(trunc as u32),
                _ => PacketNumber::U32(trunc as u32),
            });
        }
    }
    None
}

fn rx_probe(j: &ArcRcvdJournal, m: &RxModel, step: usize) -> Outcome {
    let mut pts: BTreeSet<u64> = BTreeSet::new();
    if m.offset > 0 {
        pts.insert(m.offset - 1);
        pts.insert(m.offset / 2);
    }
    pts.insert(m.offset);
    pts.insert(m.end);
    pts.insert(m.end + 1);
    let stride = 1 + m.recs.len() / 40;
    for (i, k) in m.recs.keys().enumerate() {
        if (i + step) % stride == 0 || i < 2 || i + 3 >= m.recs.len() {
            pts.insert(*k);
            pts.insert(*k + 1);
            if *k > 0 {
                pts.insert(*k - 1);
            }
        }
    }
    for p in pts {
        let Some(enc) = truncate_pn(p, m.end, 4) else { continue };
        let got = j.decode_pn(enc);
        if let Ok(g) = got {
            ensure!(
                !m.ever.contains(&g),
                "rx-accepted-twice",
                "step {step}: decode_pn accepts {g} which was already accepted and registered"
            );
        }
        let want = m.expect_decode(p);
        let sig = match (&got, &want) {
            // forgotten although the model still has to report it
            (Err(InvalidPacketNumber::TooOld), Err(InvalidPacketNumber::Duplicate)) => "rx-dropped-early",
            (Ok(_), Err(InvalidPacketNumber::Duplicate)) => "rx-received-forgotten",
            // still tracked although the model let it go (harmless direction, own signature)
            (Err(InvalidPacketNumber::Duplicate), Err(InvalidPacketNumber::TooOld)) => "rx-kept-longer",
            _ => "rx-decode-mismatch",
        };
        ensure_eq!(got, want, sig, "step {step}: decode_pn({p}) with window [{}, {})", m.offset, m.end);
    }
    Ok(())
}

struct RxFlags {
    nontrivial: bool,
    classes: BTreeSet<&'static str>,
}

async fn rx_run(case: &RxCase, ctx: &mut CaseCtx, exhaustive: bool) -> Outcome {
    let t0 = Instant::now();
    let j = ArcRcvdJournal::with_capacity(16, None);
    // `m` is the reference model of the property; `q` additionally reproduces the
    // record marking of capacity-truncated ACK generation (known finding
    // rx-record-dropped-unreported). After every operation the journal must agree
    // with `m`, or else with `q` (finding; `m` is then re-based on `q`).
    let mut m = RxModel::default();
    let mut q = RxModel::default();
    let mut diverged = false;
    let pto = Duration::from_millis(case.pto_ms as u64);
    let pto_us = case.pto_ms as u64 * 1000;
    let mut fl = RxFlags { nontrivial: false, classes: BTreeSet::new() };
    let mut max_runs = 0usize;

    for (step, op) in case.ops.iter().enumerate() {
        match op {
            RxOp::Rcvd { sel, nbytes, ae, piggy } => {
                let pn = m.resolve(sel);
                let Some(enc) = truncate_pn(pn, m.end, *nbytes) else {
                    fail!("harness", "step {step}: {pn} not encodable against expected {}", m.end)
                };
                let got = j.decode_pn(enc);
                let want = m.expect_decode(pn);
                if let Ok(g) = got {
                    ensure!(
                        !m.ever.contains(&g),
                        "rx-accepted-twice",
                        "step {step}: decode_pn({enc:?}) accepts {g} a second time"
                    );
                }
                ensure_eq!(
                    got,
                    want,
                    "rx-decode-mismatch",
                    "step {step}: decode_pn({enc:?}) for {pn}, window [{}, {})",
                    m.offset,
                    m.end
                );
                match want {
                    Err(InvalidPacketNumber::Duplicate) => {
                        fl.classes.insert("dup-rejected");
                    }
                    Err(_) => {
                        fl.classes.insert("old-rejected");
                    }
                    Ok(_) => {
                        if pn + 1 < m.end {
                            fl.classes.insert("hole-filled");
                        }
                        if let Some(p) = piggy {
                            let set = select_set(p, m.next_out);
                            if !set.is_empty() {
                                fl.classes.insert("piggy-ack");
                                rx_peer_ack(&j, &mut m, &mut q, &set, &mut fl)?;
                            }
                        }
                        j.on_rcvd_pn(pn, *ae, pto);
                        q.register(pn, *ae, pto_us);
                        if !m.register(pn, *ae, pto_us) {
                            fl.classes.insert("register-below-window");
                        }
                    }
                }
            }
            RxOp::Gen { back, cap } => {
                if m.recs.is_empty() {
                    continue;
                }
                let largest = *m.recs.keys().rev().nth(gens::idx(*back, m.recs.len())).unwrap();
                let runs = runs_desc(m.recs.range(..=largest).rev().map(|(k, _)| *k));
                max_runs = max_runs.max(runs.len());
                let rcvd_us = m.recs[&largest].rcvd_us;
                let delay = m.now_us - rcvd_us;
                // total encoded size of the ideal frame cut after j+1 ranges
                let mut cum = Vec::with_capacity(runs.len());
                let fixed = 1 + vi_len(largest) + vi_len(delay) + vi_len(runs[0].0 - runs[0].1);
                let mut body = 0usize;
                cum.push(fixed + 1);
                for w in 1..runs.len() {
                    let gap = runs[w - 1].1 - runs[w].0 - 2;
                    body += vi_len(gap) + vi_len(runs[w].0 - runs[w].1);
                    cum.push(fixed + vi_len(w as u64) + body);
                }
                let capacity: usize = match cap {
                    CapSel::Ample => 1200,
                    CapSel::Abs { cap } => *cap as usize,
                    CapSel::Near { k, delta } => {
                        (cum[gens::idx(*k, cum.len())] as i64 + *delta as i64).max(0) as usize
                    }
                };
                let k_fit = cum.iter().take_while(|c| **c <= capacity).count();
                let carrier = m.next_out;
                m.next_out += 1;
                q.next_out += 1;
                let res = j.gen_ack_frame_util(
                    carrier,
                    largest,
                    t0 + Duration::from_micros(rcvd_us),
                    capacity,
                );
                match res {
                    Err(s) => {
                        ensure!(
                            k_fit == 0,
                            "rx-ack-refused",
                            "step {step}: gen_ack_frame_util(largest={largest}, capacity={capacity}) = Err({s:?}) although the minimal frame needs {} bytes",
                            cum[0]
                        );
                        fl.classes.insert("gen-err");
                        q.touch(runs[0], carrier);
                    }
                    Ok(f) => {
                        let size = f.encoding_size();
                        let mut wire = Vec::with_capacity(size);
                        wire.put_frame(&f);
                        ensure_eq!(wire.len(), size, "rx-ack-size", "step {step}: written bytes vs encoding_size() of {f:?}");
                        ensure!(
                            size <= capacity,
                            "rx-ack-exceeds-capacity",
                            "step {step}: frame of {size} bytes for capacity {capacity}: {f:?}"
                        );
                        ensure_eq!(f.largest(), largest, "rx-ack-largest", "step {step}: Largest Acknowledged");
                        ensure_eq!(f.delay(), delay, "rx-ack-delay", "step {step}: ACK Delay (µs since the largest was received)");
                        ensure!(f.ecn().is_none(), "rx-ack-ecn", "step {step}: ECN counts invented");
                        let got = match decode_ack(&f) {
                            Ok(r) => r,
                            Err(e) => fail!("rx-ack-malformed", "step {step}: {e}: {f:?}"),
                        };
                        check_iter(&f, &got, "generated frame")?;
                        // nothing that was not received
                        let mut budget = 200_000u64;
                        for (hi, lo) in &got {
                            let n = m.recs.range(*lo..=*hi).count() as u64;
                            ensure!(
                                n == hi - lo + 1,
                                "rx-ack-unreceived",
                                "step {step}: range {lo}..={hi} of {f:?} lists numbers that are not tracked as received (tracked in it: {n}); window [{}, {})",
                                m.offset,
                                m.end
                            );
                            budget = budget.saturating_sub(n);
                            if budget == 0 {
                                break;
                            }
                        }
                        let is_prefix = got.len() <= runs.len() && got[..] == runs[..got.len()];
                        ensure!(
                            is_prefix,
                            "rx-ack-not-prefix",
                            "step {step}: ranges {got:?} are not a prefix from the top of the tracked runs {:?}",
                            &runs[..runs.len().min(got.len() + 2)]
                        );
                        let mut k = got.len();
                        if k != k_fit {
                            let exact_fit_last = k + 1 == k_fit
                                && k_fit == runs.len()
                                && k_fit >= 2
                                && cum[k_fit - 1] == capacity
                                && runs[k_fit - 1].1 == m.offset;
                            if exact_fit_last {
                                finding(
                                    ctx,
                                    "rx-ack-exact-fit-last-range-dropped",
                                    format!(
                                        "step {step}: capacity {capacity} is exactly the size of the complete frame ({} ranges) but the lowest range {:?} is left out: {f:?}",
                                        runs.len(),
                                        runs[k_fit - 1]
                                    ),
                                )?;
                                fl.classes.insert("known:exact-fit");
                            } else if k < k_fit {
                                fail!(
                                    "rx-ack-incomplete",
                                    "step {step}: capacity {capacity} allows {k_fit} of {} ranges ({} bytes) but the frame has {k}: {f:?}",
                                    runs.len(),
                                    cum[k_fit - 1]
                                );
                            } else {
                                fail!(
                                    "rx-ack-exceeds-capacity",
                                    "step {step}: {k} ranges for capacity {capacity} (only {k_fit} fit)"
                                );
                            }
                        }
                        if k == runs.len() {
                            fl.classes.insert("gen-full");
                        } else {
                            fl.classes.insert("gen-truncated");
                            if runs.len() >= 4 {
                                fl.classes.insert("gen-truncated-3gaps");
                                fl.nontrivial = true;
                            }
                            if exhaustive && runs.len() >= 2 {
                                fl.nontrivial = true;
                            }
                        }
                        // what the frame really told the peer
                        for r in &runs[..k] {
                            for mm in [&mut m, &mut q] {
                                for (_, rec) in mm.recs.range_mut(r.1..=r.0) {
                                    rec.reported_in.insert(carrier);
                                }
                            }
                            m.touch(*r, carrier);
                        }
                        // what the journal marks today (includes the first range that did not fit)
                        k = (k + 1).min(runs.len());
                        for r in &runs[..k] {
                            q.touch(*r, carrier);
                        }
                        m.include.insert(carrier);
                        q.include.insert(carrier);
                    }
                }
            }
            RxOp::PeerAck { sel } => {
                let set = select_set(sel, m.next_out);
                if !set.is_empty() {
                    rx_peer_ack(&j, &mut m, &mut q, &set, &mut fl)?;
                }
            }
            RxOp::PeerAckPns { pns } => {
                let set: BTreeSet<u64> = pns.iter().copied().filter(|p| *p < m.next_out).collect();
                if !set.is_empty() {
                    rx_peer_ack(&j, &mut m, &mut q, &set, &mut fl)?;
                }
            }
            RxOp::Advance { us } => {
                tokio::time::advance(Duration::from_micros(*us as u64)).await;
                m.now_us += *us as u64;
                q.now_us += *us as u64;
            }
        }
        match rx_probe(&j, &m, step) {
            Ok(()) => {
                if (q.offset, q.end, q.recs.len()) != (m.offset, m.end, m.recs.len()) {
                    q = m.clone();
                }
            }
            Err(e) => match rx_probe(&j, &q, step) {
                Ok(()) => {
                    let lost: Vec<u64> = m
                        .recs
                        .iter()
                        .filter(|(k, r)| !q.recs.contains_key(k) && !r.report_confirmed)
                        .map(|(k, _)| *k)
                        .collect();
                    fl.classes.insert("known:dropped-unreported");
                    finding(
                        ctx,
                        "rx-record-dropped-unreported",
                        format!(
                            "step {step}: received numbers {lost:?} are forgotten after {op:?} although no ACK frame that listed them was ever acknowledged by the peer \
                             (a capacity-truncated gen_ack_frame_util walked over them and marked them as sent in its carrier); window now starts at {}",
                            q.offset
                        ),
                    )?;
                    diverged = true;
                    m = q.clone();
                }
                Err(e2) => return Err(if diverged { e2 } else { e }),
            },
        }
    }

    // epilogue: with ample room everything still tracked is reported
    if let Some((&largest, rec)) = m.recs.iter().next_back() {
        let runs = runs_desc(m.recs.keys().rev().copied());
        let f = j
            .gen_ack_frame_util(m.next_out, largest, t0 + Duration::from_micros(rec.rcvd_us), 1 << 20)
            .map_err(|s| Fail::new("rx-ack-refused", format!("final ample ACK refused: {s:?}")))?;
        let got = decode_ack(&f).map_err(|e| Fail::new("rx-ack-malformed", format!("final: {e}: {f:?}")))?;
        ensure!(
            got == runs,
            "rx-ack-incomplete",
            "final ACK with ample room: ranges {:?}… differ from the tracked runs {:?}… ({} vs {})",
            &got[..got.len().min(6)],
            &runs[..runs.len().min(6)],
            got.len(),
            runs.len()
        );
    }

    if m.offset > 0 {
        fl.classes.insert("window-slid");
    }
    ctx.class(match max_runs {
        0 => "runs=0",
        1 => "runs=1",
        2..=3 => "runs=2-3",
        4..=15 => "runs=4-15",
        16..=63 => "runs=16-63",
        _ => "runs>=64",
    });
    for c in &fl.classes {
        ctx.class(*c);
    }
    if fl.nontrivial {
        ctx.nontrivial();
    }
    Ok(())
}

fn rx_peer_ack(
    j: &ArcRcvdJournal,
    m: &mut RxModel,
    q: &mut RxModel,
    set: &BTreeSet<u64>,
    fl: &mut RxFlags,
) -> Outcome {
    let f = ack_from_set(set, 0);
    let runs = runs_desc(set.iter().rev().copied());
    check_iter(&f, &runs, "peer ACK")?;
    j.on_rcvd_ack(&f);
    let (dropped, _) = m.on_peer_ack(set);
    q.on_peer_ack(set);
    if dropped > 0 {
        fl.classes.insert("confirmed-dropped");
    }
    Ok(())
}

fn run_rx(case: &RxCase, ctx: &mut CaseCtx) -> Outcome {
    rt().block_on(rx_run(case, ctx, false))
}

fn run_rx_small(case: &RxCase, ctx: &mut CaseCtx) -> Outcome {
    rt().block_on(rx_run(case, ctx, true))
}

fn gap_strategy(wide: bool) -> BoxedStrategy<u16> {
    if wide {
        prop_oneof![
            40 => Just(0u16),
            38 => 1u16..=3,
            10 => 4u16..=20,
            8 => 60u16..=68,
            1 => 16380u16..=16388,
        ]
        .boxed()
    } else {
        prop_oneof![55 => Just(0u16), 30 => 1u16..=3, 10 => 4u16..=20, 5 => 60u16..=68].boxed()
    }
}

fn cap_strategy() -> BoxedStrategy<CapSel> {
    prop_oneof![
        3 => Just(CapSel::Ample),
        2 => (0u16..=40).prop_map(|cap| CapSel::Abs { cap }),
        6 => (any::<u16>(), -2i8..=2).prop_map(|(k, delta)| CapSel::Near { k, delta }),
    ]
    .boxed()
}

fn advance_us() -> BoxedStrategy<u32> {
    prop_oneof![
        2 => Just(0u32),
        3 => 1u32..100,
        1 => Just(63u32),
        1 => Just(64u32),
        2 => 16_000u32..17_000,
        3 => 20_000u32..400_000,
        1 => Just(1_200_000_000u32),
    ]
    .boxed()
}

fn rx_op(wide: bool) -> BoxedStrategy<RxOp> {
    let sel = prop_oneof![
        6 => gap_strategy(wide).prop_map(|gap| PnSel::Next { gap }),
        3 => any::<u16>().prop_map(|i| PnSel::Hole { i }),
        1 => any::<u16>().prop_map(|i| PnSel::Dup { i }),
        1 => any::<u16>().prop_map(|i| PnSel::Old { i }),
    ];
    let rcvd = (sel, 1u8..=4, prop::bool::weighted(0.7), prop::option::weighted(0.12, ack_sel()))
        .prop_map(|(sel, nbytes, ae, piggy)| RxOp::Rcvd { sel, nbytes, ae, piggy });
    let genop = (prop_oneof![7 => Just(0u16), 3 => any::<u16>()], cap_strategy())
        .prop_map(|(back, cap)| RxOp::Gen { back, cap });
    prop_oneof![
        9 => rcvd,
        3 => genop,
        2 => ack_sel().prop_map(|sel| RxOp::PeerAck { sel }),
        2 => advance_us().prop_map(|us| RxOp::Advance { us }),
    ]
    .boxed()
}

fn rx_history(max_ops: usize) -> BoxedStrategy<RxCase> {
    (
        prop_oneof![Just(1u16), Just(10u16), Just(100u16)],
        prop::bool::weighted(0.1),
    )
        .prop_flat_map(move |(pto_ms, wide)| {
            (Just(pto_ms), proptest::collection::vec(rx_op(wide), 0..=max_ops))
        })
        .prop_map(|(pto_ms, ops)| RxCase { pto_ms, ops })
        .boxed()
}

/// many ranges first, then ACK generation on the byte boundaries, confirmation, more ACKs
fn rx_sweep(max_rcvd: usize) -> BoxedStrategy<RxCase> {
    let arrivals = proptest::collection::vec(
        (
            prop_oneof![
                45 => Just(0u16),
                40 => 1u16..=3,
                6 => 4u16..=20,
                8 => 60u16..=68,
                1 => 16380u16..=16388,
            ],
            prop::bool::weighted(0.8),
        ),
        1..=max_rcvd,
    );
    let gens_ = proptest::collection::vec(
        (prop_oneof![8 => Just(0u16), 2 => any::<u16>()], cap_strategy()),
        1..=4,
    );
    (
        prop_oneof![Just(1u16), Just(10u16)],
        prop_oneof![6 => Just(0u16), 2 => 1u16..=70, 1 => 16370u16..=16390],
        arrivals,
        advance_us(),
        gens_.clone(),
        ack_sel(),
        advance_us(),
        gens_,
    )
        .prop_map(|(pto_ms, base, arrivals, adv1, g1, pa, adv2, g2)| {
            let mut ops = vec![];
            let mut first = true;
            for (gap, ae) in arrivals {
                let gap = if first { base } else { gap };
                first = false;
                ops.push(RxOp::Rcvd { sel: PnSel::Next { gap }, nbytes: 1, ae, piggy: None });
            }
            ops.push(RxOp::Advance { us: adv1 });
            for (back, cap) in g1 {
                ops.push(RxOp::Gen { back, cap });
            }
            ops.push(RxOp::PeerAck { sel: pa });
            ops.push(RxOp::Advance { us: adv2 });
            ops.push(RxOp::Rcvd { sel: PnSel::Next { gap: 1 }, nbytes: 2, ae: true, piggy: None });
            for (back, cap) in g2 {
                ops.push(RxOp::Gen { back, cap });
            }
            RxCase { pto_ms, ops }
        })
        .boxed()
}

// ---------------------------------------------------------------------------
// tx side
// ---------------------------------------------------------------------------

#[derive(Debug, Clone, Serialize, Deserialize)]
enum TxOp {
    /// new_packet, record `nframes` frames (+ record_trivial), then build
    Send {
        nframes: u8,
        trivial: bool,
        /// 0: build_with_time; 1: build_trivial when nothing but trivial frames; 2: drop the guard when nothing was recorded
        build: u8,
        retran_ms: u16,
        extra_ms: u16,
    },
    /// new_packet, ask for the number, give up (nothing to send)
    Abandon,
    Ack { sel: AckSel },
    AckPns { pns: Vec<u64> },
    /// loss declarations: (inside the window?, index)
    Loss { picks: Vec<(bool, u16)> },
    LossPns { pns: Vec<u64> },
    FastRetx,
    Advance { ms: u16 },
}

#[derive(Debug, Clone, Serialize, Deserialize)]
struct TxCase {
    ops: Vec<TxOp>,
}

#[derive(Debug, Clone, Copy, PartialEq)]
enum TxSt {
    Skipped,
    Flight,
    Retx,
    Acked,
}

#[derive(Debug, Clone)]
struct TxPkt {
    frames: Vec<u32>,
    st: TxSt,
    retran_us: u64,
    expire_us: u64,
}

#[derive(Default)]
struct TxModel {
    offset: u64,
    win: VecDeque<TxPkt>,
    largest_acked: u64,
    now_us: u64,
    /// frame id -> packet number that carried it
    owner: Vec<u64>,
    /// per packet number ever sent: (number of frames, window offset when it was sent)
    hist: Vec<(usize, u64)>,
    delivered: BTreeSet<u32>,
    slides: u64,
    /// declared lost, expired and slid out without an acknowledgement: the journal may
    /// forget them; if it happens to remember one a little longer that is not an error
    retired: BTreeMap<u64, Vec<u32>>,
}

impl TxModel {
    fn next_pn(&self) -> u64 {
        self.offset + self.win.len() as u64
    }
    fn resize(&mut self) {
        while let Some(p) = self.win.front() {
            let gone = match p.st {
                TxSt::Skipped | TxSt::Acked => true,
                TxSt::Retx => p.expire_us <= self.now_us,
                TxSt::Flight => false,
            };
            if !gone {
                break;
            }
            let p = self.win.pop_front().unwrap();
            if p.st == TxSt::Retx {
                self.retired.insert(self.offset, p.frames);
            }
            self.offset += 1;
            self.slides += 1;
        }
    }
    fn get(&mut self, pn: u64) -> Option<&mut TxPkt> {
        if pn < self.offset {
            return None;
        }
        self.win.get_mut((pn - self.offset) as usize)
    }
    fn ack(&mut self, pn: u64) -> Vec<u32> {
        match self.get(pn) {
            Some(p) if matches!(p.st, TxSt::Flight | TxSt::Retx) => {
                p.st = TxSt::Acked;
                p.frames.clone()
            }
            _ => vec![],
        }
    }
    fn loss(&mut self, pn: u64) -> Vec<u32> {
        match self.get(pn) {
            Some(p) if matches!(p.st, TxSt::Flight | TxSt::Retx) => {
                p.st = TxSt::Retx;
                p.frames.clone()
            }
            _ => vec![],
        }
    }
    fn fast(&mut self) -> Vec<u32> {
        self.resize();
        let mut out = vec![];
        let (offset, largest, now) = (self.offset, self.largest_acked, self.now_us);
        for (i, p) in self.win.iter_mut().enumerate() {
            if offset + i as u64 >= largest {
                break;
            }
            if p.st == TxSt::Flight && p.retran_us < now {
                p.st = TxSt::Retx;
                out.extend_from_slice(&p.frames);
            }
        }
        out
    }
}

#[derive(Default)]
struct TxFlags {
    nontrivial: bool,
    classes: BTreeSet<&'static str>,
}

fn tx_check_yield(
    m: &mut TxModel,
    pn: u64,
    got: &[u32],
    want: &[u32],
    acked: bool,
    step: usize,
) -> Outcome {
    for id in got {
        let owner = m.owner.get(*id as usize).copied();
        ensure!(
            owner == Some(pn),
            "tx-foreign-frame",
            "step {step}: packet {pn} {}: frame #{id} was recorded in packet {owner:?}; got {got:?}, recorded {want:?}",
            if acked { "acknowledged" } else { "declared lost" }
        );
        if acked {
            ensure!(
                m.delivered.insert(*id),
                "tx-frame-acked-twice",
                "step {step}: frame #{id} of packet {pn} reported as delivered a second time"
            );
        }
    }
    ensure!(
        got == want,
        if acked { "tx-ack-frames" } else { "tx-loss-frames" },
        "step {step}: packet {pn} {}: reported {got:?}, expected {want:?} (window starts at {}, next pn {})",
        if acked { "newly acknowledged" } else { "declared lost" },
        m.offset,
        m.next_pn()
    );
    Ok(())
}

/// the body of `Ack{Initial,Handshake,Data}Space::recv_frame` in qconnection/src/space.rs
fn tx_recv_ack(
    j: &ArcSentJournal<u32>,
    m: &mut TxModel,
    set: &BTreeSet<u64>,
    fl: &mut TxFlags,
    step: usize,
) -> Outcome {
    let ack_frame = ack_from_set(set, 25);
    let runs = runs_desc(set.iter().rev().copied());
    check_iter(&ack_frame, &runs, "peer ACK")?;

    let mut rotate_guard = j.rotate();
    if let Err(e) = rotate_guard.update_largest(&ack_frame) {
        fail!("tx-update-largest", "step {step}: ACK of sent packets {set:?} (next pn {}) refused: {e:?}", m.next_pn());
    }
    m.largest_acked = m.largest_acked.max(ack_frame.largest());
    let acked = ack_frame.iter().flat_map(|r| r.rev()).collect::<Vec<_>>();
    for pn in acked {
        let got: Vec<u32> = rotate_guard.on_packet_acked(pn).collect();
        let was = m.get(pn).map(|p| p.st);
        let mut want = m.ack(pn);
        if want.is_empty() && !got.is_empty() && m.retired.get(&pn) == Some(&got) {
            want = m.retired.remove(&pn).unwrap();
            fl.classes.insert("expired-but-still-remembered");
        }
        tx_check_yield(m, pn, &got, &want, true, step)?;
        match was {
            None if pn < m.offset && step != usize::MAX => {
                fl.classes.insert("ack-of-forgotten");
            }
            Some(TxSt::Acked) => {
                fl.classes.insert("ack-repeated");
            }
            Some(TxSt::Retx) => {
                fl.classes.insert("ack-after-loss");
            }
            Some(TxSt::Skipped) => {
                fl.classes.insert("ack-of-trivial");
            }
            _ => {}
        }
        if want.len() >= 2 {
            fl.classes.insert("ack-multi-frame");
            let (_, off_at_send) = m.hist[pn as usize];
            let zero_neighbour = (pn > 0 && m.hist[pn as usize - 1].0 == 0)
                || m.hist.get(pn as usize + 1).is_some_and(|h| h.0 == 0);
            if m.offset > off_at_send {
                fl.classes.insert("ack-multi-after-slide");
                if zero_neighbour {
                    fl.classes.insert("ack-multi-after-slide-next-to-zero");
                    fl.nontrivial = true;
                }
            }
        }
    }
    drop(rotate_guard);
    m.resize();
    Ok(())
}

/// the body of `DataTracker::may_loss` in qconnection/src/space/data.rs
fn tx_may_loss(
    j: &ArcSentJournal<u32>,
    m: &mut TxModel,
    pns: &[u64],
    fl: &mut TxFlags,
    step: usize,
) -> Outcome {
    let mut sent_packets = j.rotate();
    for &pn in pns {
        let got: Vec<u32> = sent_packets.may_loss_packet(pn).collect();
        let was = m.get(pn).map(|p| p.st);
        let mut want = m.loss(pn);
        if want.is_empty() && !got.is_empty() && m.retired.get(&pn) == Some(&got) {
            want = got.clone();
            fl.classes.insert("expired-but-still-remembered");
        }
        tx_check_yield(m, pn, &got, &want, false, step)?;
        if !want.is_empty() {
            fl.classes.insert(if was == Some(TxSt::Retx) { "loss-repeated" } else { "loss" });
        }
    }
    drop(sent_packets);
    m.resize();
    Ok(())
}

async fn tx_run(case: &TxCase, ctx: &mut CaseCtx, exhaustive: bool) -> Outcome {
    let j: ArcSentJournal<u32> = ArcSentJournal::with_capacity(4);
    let mut m = TxModel::default();
    let mut fl = TxFlags::default();

    for (step, op) in case.ops.iter().enumerate() {
        match op {
            TxOp::Send { nframes, trivial, build, retran_ms, extra_ms } => {
                let mut g = j.new_packet();
                let (pn, enc) = g.pn();
                ensure_eq!(pn, m.next_pn(), "tx-pn", "step {step}: packet number handed out");
                ensure_eq!(
                    enc,
                    PacketNumber::encode(pn, m.largest_acked),
                    "tx-pn-encoding",
                    "step {step}: encoded packet number for {pn} with largest acked {}",
                    m.largest_acked
                );
                let mut frames = vec![];
                for _ in 0..*nframes {
                    let id = m.owner.len() as u32;
                    m.owner.push(pn);
                    g.record_frame(id);
                    frames.push(id);
                }
                if *trivial {
                    g.record_trivial();
                }
                let retran = Duration::from_millis(*retran_ms as u64);
                let expire = Duration::from_millis(*retran_ms as u64 + *extra_ms as u64);
                let consumed = if frames.is_empty() && *trivial && *build == 1 {
                    g.build_trivial();
                    true
                } else if frames.is_empty() && !*trivial && *build == 2 {
                    drop(g);
                    false
                } else {
                    g.build_with_time(retran, expire);
                    !frames.is_empty() || *trivial
                };
                if consumed {
                    let st = if frames.is_empty() { TxSt::Skipped } else { TxSt::Flight };
                    fl.classes.insert(match frames.len() {
                        0 => "send-trivial",
                        1 => "send-1",
                        _ => "send-many",
                    });
                    m.hist.push((frames.len(), m.offset));
                    m.win.push_back(TxPkt {
                        frames,
                        st,
                        retran_us: m.now_us + retran.as_micros() as u64,
                        expire_us: m.now_us + expire.as_micros() as u64,
                    });
                } else {
                    fl.classes.insert("send-nothing");
                }
            }
            TxOp::Abandon => {
                let g = j.new_packet();
                let (pn, _) = g.pn();
                ensure_eq!(pn, m.next_pn(), "tx-pn", "step {step}: packet number offered to an abandoned packet");
                drop(g);
                fl.classes.insert("abandon");
            }
            TxOp::Ack { sel } => {
                let set = select_set(sel, m.next_pn());
                if !set.is_empty() {
                    tx_recv_ack(&j, &mut m, &set, &mut fl, step)?;
                }
            }
            TxOp::AckPns { pns } => {
                let set: BTreeSet<u64> = pns.iter().copied().filter(|p| *p < m.next_pn()).collect();
                if !set.is_empty() {
                    tx_recv_ack(&j, &mut m, &set, &mut fl, step)?;
                }
            }
            TxOp::Loss { picks } => {
                let n = m.next_pn();
                if n > 0 {
                    let mut pns: BTreeSet<u64> = BTreeSet::new();
                    for (inside, i) in picks {
                        if *inside && !m.win.is_empty() {
                            pns.insert(m.offset + gens::idx(*i, m.win.len()) as u64);
                        } else {
                            pns.insert(gens::upto(*i, n - 1));
                        }
                    }
                    let pns: Vec<u64> = pns.into_iter().collect();
                    tx_may_loss(&j, &mut m, &pns, &mut fl, step)?;
                }
            }
            TxOp::LossPns { pns } => {
                let pns: Vec<u64> = pns.iter().copied().filter(|p| *p < m.next_pn()).collect();
                if !pns.is_empty() {
                    tx_may_loss(&j, &mut m, &pns, &mut fl, step)?;
                }
            }
            TxOp::FastRetx => {
                let mut g = j.rotate();
                let got: Vec<u32> = g.fast_retransmit().collect();
                drop(g);
                let want = m.fast();
                m.resize();
                ensure!(
                    got == want,
                    "tx-fast-retransmit",
                    "step {step}: fast_retransmit reported {got:?}, expected {want:?} (largest acked {}, window from {})",
                    m.largest_acked,
                    m.offset
                );
                if !want.is_empty() {
                    fl.classes.insert("fast-retx-yield");
                }
            }
            TxOp::Advance { ms } => {
                tokio::time::advance(Duration::from_millis(*ms as u64)).await;
                m.now_us += *ms as u64 * 1000;
            }
        }
        // the next number handed out is always the number of packets built so far
        let g = j.new_packet();
        ensure_eq!(g.pn().0, m.hist.len() as u64, "tx-pn", "step {step}: next packet number after {op:?}");
        drop(g);
    }

    // epilogue: one ACK for everything ever sent; every frame still owed is delivered once
    let n = m.next_pn();
    if n > 0 {
        let set: BTreeSet<u64> = (0..n).collect();
        let before = m.delivered.len();
        tx_recv_ack(&j, &mut m, &set, &mut fl, usize::MAX)?;
        if m.delivered.len() > before {
            fl.classes.insert("final-delivery");
        }
        ensure!(m.win.is_empty(), "harness", "model window not empty after the final ACK");
        // and a second complete ACK delivers nothing
        tx_recv_ack(&j, &mut m, &set, &mut fl, usize::MAX)?;
    }
    let forgotten = m.owner.len() - m.delivered.len();
    if forgotten > 0 {
        fl.classes.insert("expired-before-ack");
    }
    if m.slides > 0 {
        fl.classes.insert("window-slid");
    }
    if exhaustive {
        fl.nontrivial = fl.classes.contains("ack-multi-after-slide");
    }
    for c in &fl.classes {
        ctx.class(*c);
    }
    if fl.nontrivial {
        ctx.nontrivial();
        ctx.note(json!({"packets": m.hist.len(), "frames": m.owner.len(), "window_slides": m.slides}));
    }
    Ok(())
}

fn run_tx(case: &TxCase, ctx: &mut CaseCtx) -> Outcome {
    rt().block_on(tx_run(case, ctx, false))
}

fn run_tx_small(case: &TxCase, ctx: &mut CaseCtx) -> Outcome {
    rt().block_on(tx_run(case, ctx, true))
}

fn tx_op() -> BoxedStrategy<TxOp> {
    let send = (
        prop_oneof![3 => Just(0u8), 3 => Just(1u8), 3 => 2u8..=3, 1 => 4u8..=9],
        prop::bool::weighted(0.5),
        0u8..3,
        prop_oneof![Just(10u16), Just(20u16), Just(50u16)],
        prop_oneof![Just(0u16), Just(10u16), Just(100u16)],
    )
        .prop_map(|(nframes, trivial, build, retran_ms, extra_ms)| TxOp::Send {
            nframes,
            trivial,
            build,
            retran_ms,
            extra_ms,
        });
    prop_oneof![
        10 => send,
        1 => Just(TxOp::Abandon),
        5 => ack_sel().prop_map(|sel| TxOp::Ack { sel }),
        2 => proptest::collection::vec((prop::bool::weighted(0.8), any::<u16>()), 1..=3)
            .prop_map(|picks| TxOp::Loss { picks }),
        1 => Just(TxOp::FastRetx),
        3 => prop_oneof![Just(0u16), Just(1u16), Just(9u16), Just(10u16), Just(11u16), Just(20u16), Just(50u16), Just(60u16), 0u16..200]
            .prop_map(|ms| TxOp::Advance { ms }),
    ]
    .boxed()
}

fn tx_history(max_ops: usize) -> BoxedStrategy<TxCase> {
    proptest::collection::vec(tx_op(), 0..=max_ops).prop_map(|ops| TxCase { ops }).boxed()
}

// ---------------------------------------------------------------------------
// main
// ---------------------------------------------------------------------------

fn main() {
    let mut check = Check::from_env("C10", "exploration");
    let _ = TOLERATED.set(vcore::load_known_findings("C10").into_iter().map(|k| k.signature).collect());
    check.rule(
        "rx: history over {packet arrives (next/gap/hole/duplicate/too-old number, 1-4 byte truncated encoding, optionally carrying an ACK of our packets), \
         gen_ack_frame_util(fresh carrier pn, any tracked largest, capacity = ample | 0..40 | size of the ideal frame cut after k ranges -2..+2), peer ACK of our carriers, clock advance}; \
         after every op decode_pn is probed around every tracked number and compared with the model; every generated frame must be the maximal prefix from the top of the tracked runs that fits. \
         non-trivial (rx) = a generated ACK whose ideal form has >=4 ranges (>=3 gaps) and which the capacity truncates (exhaustive stage: >=2 ranges and truncated). \
         tx: history over {send packet with 0..9 unique frame ids and/or trivial marker (build_with_time / build_trivial / abandoned guard), ACK frame for a set of packets really sent (fed through the recv_frame glue), \
         loss declarations, fast_retransmit, clock advance}, closed by one ACK of everything (twice). non-trivial (tx) = a packet with >=2 frames is acknowledged after the window slid since it was sent and a neighbouring packet number carried zero frames \
         (exhaustive stage: >=2 frames acknowledged after a slide). distinct = by hash of the serialised case.",
    );
    check.assume("rx: `largest` handed to gen_ack_frame_util is a number currently tracked as received and rcvd_time is its receive time (ArcCC::need_ack / RcvdJournal::need_ack)");
    check.assume("rx: the peer truncates packet numbers so that RFC 9000 A.3 decoding against largest-received+1 recovers them (C07 covers the codec), numbers stay below 2^31");
    check.assume("rx/tx: peers acknowledge only packets that were really sent (hostile ACK ranges are C04's domain); every ACK frame of ours travels in a fresh packet number");
    check.assume("tx: a NewPacketGuard is only abandoned when nothing was recorded in it (Packages::dump reports Ok as soon as a byte was written, so recorded frames are always built)");
    check.assume("tx: the journal may forget a packet only when it is trivial, acknowledged, or declared lost and expired, and only from the front of the window (SentJournal::resize); remembering an expired lost packet longer is accepted");
    check.assume("rx: a record leaves the window exactly when RcvdJournal::rotate_queue says so (peer ACK processed, record confirmed, not ack-eliciting or 3 PTO old); keeping one longer is reported under the separate signature rx-kept-longer");

    // ---- rx exhaustive: every subset of 0..N in ascending and descending arrival order,
    //      every tracked largest, every capacity from 0 to ample, then confirm and regenerate
    let n_bits = if check.quick() { 8u32 } else { 10 };
    check.exhaustive::<RxCase, _>("rx-exhaustive-small", true, |e| {
        for mask in 1u32..(1 << n_bits) {
            let set: Vec<u32> = (0..n_bits).filter(|b| mask & (1 << b) != 0).collect();
            for desc in [false, true] {
                let mut arrivals: Vec<RxOp> = set
                    .iter()
                    .map(|pn| RxOp::Rcvd { sel: PnSel::Abs { pn: *pn }, nbytes: 1, ae: pn % 2 == 0, piggy: None })
                    .collect();
                if desc {
                    if set.len() < 2 {
                        continue;
                    }
                    arrivals.reverse();
                }
                for back in 0..set.len() {
                    // map `back` through gens::idx exactly
                    let back16 = (((back << 16) + set.len() - 1) / set.len()) as u16;
                    assert_eq!(gens::idx(back16, set.len()), back);
                    for cap in 0u16..=24 {
                        let mut ops = arrivals.clone();
                        ops.push(RxOp::Gen { back: back16, cap: CapSel::Abs { cap } });
                        ops.push(RxOp::PeerAckPns { pns: vec![0] });
                        ops.push(RxOp::Gen { back: 0, cap: CapSel::Ample });
                        let case = RxCase { pto_ms: 10, ops };
                        e.case(&case, run_rx_small);
                        if e.stopped() {
                            return;
                        }
                    }
                }
            }
        }
    });

    // ---- tx exhaustive: every sequence over a small alphabet
    let max_len = if check.quick() { 6usize } else { 7 };
    check.exhaustive::<TxCase, _>("tx-exhaustive-small", true, |e| {
        let send = |n: u8| TxOp::Send { nframes: n, trivial: n == 0, build: 0, retran_ms: 10, extra_ms: 20 };
        let mut alphabet: Vec<TxOp> = vec![send(0), send(1), send(2)];
        for pn in 0..3u64 {
            alphabet.push(TxOp::AckPns { pns: vec![pn] });
        }
        for pn in 0..3u64 {
            alphabet.push(TxOp::LossPns { pns: vec![pn] });
        }
        alphabet.push(TxOp::Advance { ms: 40 });
        alphabet.push(TxOp::FastRetx);
        fn rec(e: &mut vcore::Enumerator<TxCase>, alphabet: &[TxOp], seq: &mut Vec<TxOp>, sent: u64, max_len: usize) {
            if e.stopped() {
                return;
            }
            if !seq.is_empty() {
                let case = TxCase { ops: seq.clone() };
                e.case(&case, run_tx_small);
            }
            if seq.len() == max_len {
                return;
            }
            for op in alphabet {
                let (ok, sent2) = match op {
                    TxOp::Send { .. } => (sent < 3, sent + 1),
                    TxOp::AckPns { pns } | TxOp::LossPns { pns } => (pns[0] < sent, sent),
                    TxOp::FastRetx | TxOp::Advance { .. } => (sent > 0, sent),
                    _ => (true, sent),
                };
                if !ok {
                    continue;
                }
                seq.push(op.clone());
                rec(e, alphabet, seq, sent2, max_len);
                seq.pop();
            }
        }
        let mut seq = vec![];
        rec(e, &alphabet, &mut seq, 0, max_len);
    });

    // ---- random model-based stages
    let n = check.pick(8_000, 1_200_000);
    check.stage("rx-history", n, 16, || rx_history(140), run_rx);
    let n = check.pick(6_000, 400_000);
    check.stage("rx-capacity-sweep", n, 16, || rx_sweep(260), run_rx);
    let n = check.pick(16_000, 2_500_000);
    check.stage("tx-history", n, 16, || tx_history(120), run_tx);
    check.finish();
}
